(** Durability: reloading the storage gives the same facts (A3); what a load
    keeps and drops (B6). *)
From Coq Require Import Lia.
From Verif Require Import Json Outcome Match PatIndex State StateSpec AssocLemmas StateProofs.

(** * 1. The error of pattern indexing depends on the fuel and the pairs only *)

Lemma snd_let_pair {A B C} (X : A * B) (g : A -> C) :
  snd (let '(c, e) := X in (g c, e)) = snd X.
Proof. destruct X; reflexivity. Qed.

Lemma pmod_err_indep fuel op : forall id id' n n' pairs,
  snd (pmod fuel op id n pairs) = snd (pmod fuel op id' n' pairs).
Proof.
  induction fuel as [|f IH]; intros id id' n n' pairs; cbn [pmod].
  - reflexivity.
  - destruct pairs as [|[k v] rest]; [reflexivity|].
    destruct (picast v) as [|b|z|vv|vv|mp] eqn:Ec; try reflexivity.
    + destruct (is_var vv).
      * rewrite !snd_let_pair. apply IH.
      * rewrite !snd_let_pair. apply IH.
    + destruct (sort_values (filter (fun x => negb (is_var_json x)) vv)) as [sorted|].
      * apply IH.
      * reflexivity.
    + rewrite !snd_let_pair. apply IH.
Qed.

(** Stronger: not even add/remove matters. *)
Lemma pmod_err_indep_op fuel : forall op op' id id' n n' pairs,
  snd (pmod fuel op id n pairs) = snd (pmod fuel op' id' n' pairs).
Proof.
  induction fuel as [|f IH]; intros op op' id id' n n' pairs; cbn [pmod].
  - reflexivity.
  - destruct pairs as [|[k v] rest]; [reflexivity|].
    destruct (picast v) as [|b|z|vv|vv|mp] eqn:Ec; try reflexivity.
    + destruct (is_var vv).
      * rewrite !snd_let_pair. apply IH.
      * rewrite !snd_let_pair. apply IH.
    + destruct (sort_values (filter (fun x => negb (is_var_json x)) vv)) as [sorted|].
      * apply IH.
      * reflexivity.
    + rewrite !snd_let_pair. apply IH.
Qed.

(** * 2. The error of [st_add_mem_idx] does not depend on the state or the id *)

Definition idx_err (fact : json) : option string :=
  match extract_rule fact false with
  | Ok (Some r) =>
      if is_scheduled r then None
      else match rule_patterns r with
           | None => Some "No 'when' in rule."
           | Some p => snd (pi_add pn_empty p "")
           end
  | Ok None => None
  | Err e => Some e | Panic w => Some w | OutOfFuel => Some "fuel"
  end.

Lemma index_rule_err s id r :
  snd (index_rule s id r) =
  match rule_patterns r with
  | None => Some "No 'when' in rule."
  | Some p => snd (pi_add pn_empty p "")
  end.
Proof.
  unfold index_rule. destruct (rule_patterns r) as [p|]; [|reflexivity].
  rewrite (snd_let_pair (pi_add (st_pindex s) p id) (set_pindex s)).
  unfold pi_add. apply pmod_err_indep.
Qed.

Lemma st_add_mem_idx_err s id fact : snd (st_add_mem_idx s id fact) = idx_err fact.
Proof.
  unfold st_add_mem_idx, idx_err.
  destruct (extract_rule fact false) as [rule|e0|w|]; try reflexivity.
  set (oldrule := match alookup id (st_facts s) with
                  | Some old => match extract_rule old false with Ok r => r | _ => None end
                  | None => None
                  end).
  clearbody oldrule.
  set (s1 := match oldrule with Some r => unindex_rule s id r | None => s end).
  clearbody s1.
  destruct rule as [r|]; [|reflexivity].
  destruct (is_scheduled r); [reflexivity|].
  rewrite <- (index_rule_err s1 id r).
  destruct (index_rule s1 id r) as [sx [ex|]]; reflexivity.
Qed.

(** * 3. Rebuilding a sorted association list by successive inserts *)

Lemma ainsert_append {A} k (v : A) acc :
  (forall k', In k' (map fst acc) -> str_ltb k' k = true) -> ainsert k v acc = (acc ++ [(k, v)])%list.
Proof.
  induction acc as [|[k0 v0] r IH]; intros H; cbn [ainsert app].
  - reflexivity.
  - assert (Hlt : String.compare k0 k = Lt).
    { apply str_ltb_lt. apply H. left; reflexivity. }
    rewrite (scmp_lt_gt _ _ Hlt). f_equal. apply IH.
    intros k' Hin. apply H. right; exact Hin.
Qed.

(** * Sorted association lists: membership is lookup *)

Lemma alookup_lb_None {A} k (l : list (string * A)) :
  lb k (map fst l) -> alookup k l = None.
Proof.
  intros Hlb. destruct (alookup k l) as [v|] eqn:E; [|reflexivity].
  apply alookup_In_keys in E. apply Hlb in E. apply str_ltb_lt in E.
  rewrite scmp_refl in E. discriminate.
Qed.

Lemma In_sorted_alookup {A} k (v : A) l :
  sorted_keys (map fst l) = true -> In (k, v) l -> alookup k l = Some v.
Proof.
  induction l as [|[k0 v0] r IH]; cbn [map fst In alookup]; intros Hs Hin.
  - destruct Hin.
  - apply sorted_cons in Hs. destruct Hs as [Hlb Hs].
    destruct Hin as [E|Hin].
    + injection E as -> ->. rewrite String.eqb_refl. reflexivity.
    + assert (Hk : str_ltb k0 k = true).
      { apply Hlb. apply (in_map fst) in Hin. exact Hin. }
      apply str_ltb_lt in Hk. rewrite (eqb_false_of_gt _ _ (scmp_lt_gt _ _ Hk)).
      apply IH; assumption.
Qed.

(** * 4. Reload gives the same facts (A3) *)

Definition prepared_facts (F : list (string * json)) : Prop :=
  forall id fact, alookup id F = Some fact ->
    forall now', fact_expired fact now' = false -> prepare_fact id fact now' id None = Ok (id, fact).
Definition none_expired (F : list (string * json)) (now : Z) : Prop :=
  forall id fact, alookup id F = Some fact -> fact_expired fact now = false.
Definition all_indexable (F : list (string * json)) : Prop :=
  forall id fact, alookup id F = Some fact -> idx_err fact = None.

(** The accumulator invariant of [load_idx]: [done] is the prefix already in
    memory, all its keys are below the keys still to load. *)
Lemma load_idx_reload now : forall rest done s,
  P s -> st_facts s = done ->
  (forall k1 k2, In k1 (map fst done) -> In k2 (map fst rest) -> str_ltb k1 k2 = true) ->
  sorted_keys (map fst rest) = true ->
  (forall id fact, In (id, fact) rest ->
     prepare_fact id fact now id None = Ok (id, fact) /\ idx_err fact = None) ->
  exists s', load_idx s rest now = (s', Ok tt) /\
    st_facts s' = (done ++ rest)%list /\ st_store s' = st_store s /\
    st_kind s' = st_kind s /\ st_hooks s' = st_hooks s /\ st_fail s' = st_fail s /\
    st_calls s' = st_calls s /\ P s'.
Proof.
  induction rest as [|[id x] r IH]; intros done s HP Hf Hlt Hs Hok; cbn [load_idx].
  - exists s. rewrite app_nil_r.
    split; [reflexivity|]. split; [exact Hf|]. repeat (split; [reflexivity|]). exact HP.
  - destruct (Hok id x (or_introl eq_refl)) as [Hprep Hidx].
    rewrite Hprep.
    pose proof (st_add_mem_idx_err s id x) as Herr. rewrite Hidx in Herr.
    pose proof (P_st_add_mem_idx s id x HP) as HP1.
    destruct (st_add_mem_idx s id x) as [s1 e] eqn:Eadd. cbn [snd fst] in Herr, HP1. subst e.
    apply st_add_mem_idx_spec in Eadd. destruct Eadd as (s2 & He & Hs1).
    destruct He as (Hk2 & Hf2 & Ht2 & Hst2 & Hh2 & Hc2 & Hfl2 & Ha2).
    cbn [map fst] in Hs. apply sorted_cons in Hs. destruct Hs as [Hlb Hs].
    assert (Hf1 : st_facts s1 = (done ++ [(id, x)])%list).
    { rewrite Hs1. cbn [st_facts set_facts]. rewrite Hf2, Hf.
      apply ainsert_append. intros k' Hin. apply Hlt; [exact Hin|]. left; reflexivity. }
    destruct (IH (done ++ [(id, x)])%list s1 HP1 Hf1) as (s' & Hl & Hfs & Hsts & Hks & Hhs & Hfls & Hcs & HPs).
    + intros k1 k2 Hin1 Hin2. rewrite map_app in Hin1. apply in_app_or in Hin1.
      destruct Hin1 as [Hin1|Hin1].
      * apply Hlt; [exact Hin1|]. right; exact Hin2.
      * cbn [map fst In] in Hin1. destruct Hin1 as [<-|[]]. apply Hlb; exact Hin2.
    + exact Hs.
    + intros id' fact' Hin. apply Hok. right; exact Hin.
    + exists s'. split; [exact Hl|].
      rewrite Hfs, Hsts, Hks, Hhs, Hfls, Hcs, Hs1.
      cbn [st_store st_kind st_hooks st_fail st_calls set_facts set_tindex].
      rewrite <- app_assoc. cbn [app].
      split; [reflexivity|]. repeat (split; [assumption|]). exact HPs.
Qed.

Theorem reload_store_same_facts k hooks F now :
  sorted_keys (map fst F) = true -> prepared_facts F -> none_expired F now ->
  (k = Indexed -> all_indexable F) ->
  exists s', st_load k hooks F now = (s', Ok tt) /\
    st_facts s' = F /\ st_store s' = F /\ st_kind s' = k /\ st_hooks s' = hooks /\
    st_fail s' = None /\ st_calls s' = 1%nat /\
    (k = Indexed -> st_wf s' /\ Idx_sup s').
Proof.
  intros Hs Hprep Hexp Hidx. unfold st_load, store_call, empty_state, set_store.
  cbn [st_fail st_kind st_facts st_tindex st_pindex st_store st_hooks st_calls st_amb].
  destruct k.
  - set (s1 := mkState Indexed [] [] pn_empty F hooks 1 None false []).
    assert (HP : P s1).
    { unfold P, st_wf, Idx_sup. subst s1. cbn [st_kind st_facts st_tindex st_store map].
      repeat split; try reflexivity; try exact Hs. intros id fact t Hl. discriminate. }
    destruct (load_idx_reload now F [] s1 HP eq_refl) as (s' & Hl & Hfs & Hsts & Hks & Hhs & Hfls & Hcs & HPs).
    + intros k1 k2 [].
    + exact Hs.
    + intros id fact Hin. pose proof (In_sorted_alookup _ _ _ Hs Hin) as Hl. split.
      * apply Hprep; [exact Hl|]. eapply Hexp; exact Hl.
      * eapply (Hidx eq_refl); exact Hl.
    + exists s'. split; [exact Hl|]. cbn [app] in Hfs.
      repeat (split; [assumption|]). intros _. split; apply HPs.
  - eexists. split; [reflexivity|]. cbn.
    repeat (split; [reflexivity|]). intros Hk; discriminate Hk.
Qed.

(** * 5. What a load keeps (B6, Indexed kind) *)

Lemma st_add_mem_idx_fields s id fact s1 e :
  st_add_mem_idx s id fact = (s1, e) ->
  st_store s1 = st_store s /\
  st_facts s1 = match e with None => ainsert id fact (st_facts s) | Some _ => st_facts s end.
Proof.
  intros H. apply st_add_mem_idx_spec in H. destruct H as (s2 & He & Hs1).
  destruct He as (Hk2 & Hf2 & Ht2 & Hst2 & Hh2 & Hc2 & Hfl2 & Ha2).
  destruct e as [e|]; subst s1; cbn [st_store st_facts set_facts set_tindex].
  - split; assumption.
  - rewrite Hf2. split; [assumption|reflexivity].
Qed.

Lemma load_idx_facts_prepared pairs now : forall s s' r,
  load_idx s pairs now = (s', r) ->
  forall id fact, alookup id (st_facts s') = Some fact ->
    alookup id (st_facts s) = Some fact \/
    exists id0 x, In (id0, x) pairs /\ prepare_fact id0 x now id0 None = Ok (id, fact).
Proof.
  induction pairs as [|[id0 x] rest IH]; intros s s' r Hl id fact Hlk; cbn [load_idx] in Hl.
  - injection Hl as <- _. left; exact Hlk.
  - destruct (prepare_fact id0 x now id0 None) as [[id1 f1]|e|w|] eqn:Ep.
    + destruct (st_add_mem_idx s id1 f1) as [s1 [e|]] eqn:Ea;
        apply st_add_mem_idx_fields in Ea; destruct Ea as [_ Hf].
      * injection Hl as <- _. rewrite Hf in Hlk. left; exact Hlk.
      * destruct (IH _ _ _ Hl id fact Hlk) as [H|(i & y & Hin & Hp)].
        -- rewrite Hf, alookup_ainsert in H. destruct (String.eqb_spec id id1) as [->|Hne].
           ++ injection H as <-. right. exists id0, x. split; [left; reflexivity|exact Ep].
           ++ left; exact H.
        -- right. exists i, y. split; [right; exact Hin|exact Hp].
    + destruct (String.eqb e "expired").
      * destruct (store_call s) as [s1 failed] eqn:Esc.
        unfold store_call in Esc. injection Esc as Hs1 _. subst s1.
        destruct failed.
        -- injection Hl as <- _. left; exact Hlk.
        -- destruct (IH _ _ _ Hl id fact Hlk) as [H|(i & y & Hin & Hp)].
           ++ left; exact H.
           ++ right. exists i, y. split; [right; exact Hin|exact Hp].
      * injection Hl as <- _. left; exact Hlk.
    + injection Hl as <- _. left; exact Hlk.
    + injection Hl as <- _. left; exact Hlk.
Qed.

Lemma st_load_indexed_unfold hooks store now :
  st_load Indexed hooks store now =
  load_idx (mkState Indexed [] [] pn_empty store hooks 1 None false []) store now.
Proof. reflexivity. Qed.

Theorem load_facts_prepared hooks store now s' r :
  st_load Indexed hooks store now = (s', r) ->
  forall id fact, alookup id (st_facts s') = Some fact ->
    exists id0 x, In (id0, x) store /\ prepare_fact id0 x now id0 None = Ok (id, fact).
Proof.
  rewrite st_load_indexed_unfold. intros Hl id fact Hlk.
  destruct (load_idx_facts_prepared _ _ _ _ _ Hl id fact Hlk) as [H|H].
  - cbn [st_facts alookup] in H. discriminate.
  - exact H.
Qed.

(** The storage only shrinks during a load. *)
Lemma load_idx_store_None pairs now : forall s s' r,
  load_idx s pairs now = (s', r) ->
  forall j, alookup j (st_store s) = None -> alookup j (st_store s') = None.
Proof.
  induction pairs as [|[id0 x] rest IH]; intros s s' r Hl j Hj; cbn [load_idx] in Hl.
  - injection Hl as <- _. exact Hj.
  - destruct (prepare_fact id0 x now id0 None) as [[id1 f1]|e|w|] eqn:Ep.
    + destruct (st_add_mem_idx s id1 f1) as [s1 [e|]] eqn:Ea;
        apply st_add_mem_idx_fields in Ea; destruct Ea as [Hst _].
      * injection Hl as <- _. rewrite Hst. exact Hj.
      * eapply IH; [exact Hl|]. rewrite Hst. exact Hj.
    + destruct (String.eqb e "expired").
      * destruct (store_call s) as [s1 failed] eqn:Esc.
        unfold store_call in Esc. injection Esc as Hs1 _. subst s1.
        destruct failed.
        -- injection Hl as <- _. exact Hj.
        -- eapply IH; [exact Hl|]. cbn [st_store set_store].
           rewrite alookup_aremove, Hj. destruct (String.eqb j id0); reflexivity.
      * injection Hl as <- _. exact Hj.
    + injection Hl as <- _. exact Hj.
    + injection Hl as <- _. exact Hj.
Qed.

Lemma load_idx_expired_removed pairs now : forall s s',
  load_idx s pairs now = (s', Ok tt) ->
  forall id x, In (id, x) pairs -> prepare_fact id x now id None = Err "expired" ->
  alookup id (st_store s') = None.
Proof.
  induction pairs as [|[id0 x0] rest IH]; intros s s' Hl id x Hin Hp; cbn [load_idx] in Hl.
  - destruct Hin.
  - destruct Hin as [E|Hin].
    + injection E as -> ->. rewrite Hp in Hl.
      change (String.eqb "expired" "expired") with true in Hl. cbv iota in Hl.
      destruct (store_call s) as [s1 failed] eqn:Esc.
      unfold store_call in Esc. injection Esc as Hs1 _. subst s1.
      destruct failed; [discriminate Hl|].
      eapply load_idx_store_None; [exact Hl|].
      cbn [st_store set_store]. apply alookup_aremove_same.
    + destruct (prepare_fact id0 x0 now id0 None) as [[id1 f1]|e|w|] eqn:Ep.
      * destruct (st_add_mem_idx s id1 f1) as [s1 [e|]] eqn:Ea; [discriminate Hl|].
        eapply IH; eassumption.
      * destruct (String.eqb e "expired"); [|discriminate Hl].
        destruct (store_call s) as [s1 failed] eqn:Esc.
        destruct failed; [discriminate Hl|].
        eapply IH; eassumption.
      * discriminate Hl.
      * discriminate Hl.
Qed.

(** Holds without the sortedness hypothesis (kept in the statement as asked;
    the general form is [load_idx_expired_removed]). *)
Theorem load_expired_record_not_loaded hooks store now s' id x :
  sorted_keys (map fst store) = true ->
  st_load Indexed hooks store now = (s', Ok tt) ->
  In (id, x) store -> prepare_fact id x now id None = Err "expired" ->
  alookup id (st_store s') = None.
Proof.
  intros _. rewrite st_load_indexed_unfold. intros Hl Hin Hp.
  eapply load_idx_expired_removed; eassumption.
Qed.

(** The same for the facts in memory needs more: a generated id
    ("!<id>.<prop>") of another record may collide with the id of the expired
    record. *)
Definition collide_store : list (string * json) :=
  [("!.p", JObj [("expires", JNum 5)]); ("a", JObj [("!p", JNum 1)])].

Lemma load_expired_record_in_facts_counterexample :
  sorted_keys (map fst collide_store) = true /\
  In ("!.p", JObj [("expires", JNum 5)]) collide_store /\
  prepare_fact "!.p" (JObj [("expires", JNum 5)]) 10 "!.p" None = Err "expired" /\
  exists s', st_load Indexed false collide_store 10 = (s', Ok tt) /\
    alookup "!.p" (st_facts s') = Some (JObj [("!p", JNum 1)]) /\
    alookup "!.p" (st_store s') = None /\
    alookup "a" (st_store s') = Some (JObj [("!p", JNum 1)]).
Proof.
  split; [reflexivity|]. split; [left; reflexivity|]. split; [reflexivity|].
  eexists. split; [vm_compute; reflexivity|]. cbn [st_facts st_store].
  repeat split; reflexivity.
Qed.

Theorem load_expired_record_not_in_facts hooks store now s' r id x :
  sorted_keys (map fst store) = true ->
  (forall id0 x0, In (id0, x0) store -> id_props (jO x0) = []) ->
  st_load Indexed hooks store now = (s', r) ->
  In (id, x) store -> prepare_fact id x now id None = Err "expired" ->
  alookup id (st_facts s') = None.
Proof.
  intros Hs Hnp Hl Hin Hp.
  destruct (alookup id (st_facts s')) as [fact|] eqn:Elk; [|reflexivity].
  destruct (load_facts_prepared _ _ _ _ _ Hl id fact Elk) as (id0 & x0 & Hin0 & Hp0).
  pose proof (prepare_fact_id _ _ _ _ _ _ _ Hp0 (Hnp _ _ Hin0)) as Hid.
  assert (Hid' : id = id0) by (destruct (String.eqb id0 ""); exact Hid).
  subst id0.
  pose proof (In_sorted_alookup _ _ _ Hs Hin) as H1.
  pose proof (In_sorted_alookup _ _ _ Hs Hin0) as H2.
  rewrite H1 in H2. injection H2 as <-. rewrite Hp in Hp0. discriminate Hp0.
Qed.

(** * 6. The Linear kind does not look at the records at load time *)

Lemma load_linear hooks store now :
  st_load Linear hooks store now = (mkState Linear store [] pn_empty store hooks 1 None false [], Ok tt).
Proof. reflexivity. Qed.

Definition expired_store : list (string * json) := [("a", JObj [("expires", JNum 5)])].

Lemma load_linear_keeps_expired_example :
  let s := fst (st_load Linear false expired_store 10) in
  st_load Linear false expired_store 10 = (s, Ok tt) /\
  alookup "a" (st_facts s) = Some (JObj [("expires", JNum 5)]) /\
  alookup "a" (st_store s) = Some (JObj [("expires", JNum 5)]) /\
  let '(s2, r2) := st_get s "a" 10 in
  r2 = Err "notfound" /\ st_facts s2 = [] /\ st_store s2 = [].
Proof. vm_compute. repeat split; reflexivity. Qed.

Lemma load_indexed_drops_expired_example :
  let s := fst (st_load Indexed false expired_store 10) in
  st_load Indexed false expired_store 10 = (s, Ok tt) /\
  st_facts s = [] /\ st_store s = [].
Proof. vm_compute. repeat split; reflexivity. Qed.

Print Assumptions pmod_err_indep.
Print Assumptions st_add_mem_idx_err.
Print Assumptions ainsert_append.
Print Assumptions reload_store_same_facts.
Print Assumptions load_idx_facts_prepared.
Print Assumptions load_facts_prepared.
Print Assumptions load_expired_record_not_loaded.
Print Assumptions load_expired_record_in_facts_counterexample.
Print Assumptions load_expired_record_not_in_facts.
Print Assumptions load_linear.
Print Assumptions load_linear_keeps_expired_example.
Print Assumptions load_indexed_drops_expired_example.
