(** PrepareFact: idempotence (A2), expiry computation (B1), rejection of
    expired writes (B2) and "no expiry means never expired" (B6 part). *)
From Coq Require Import Lia.
From Verif Require Import Json Outcome Match PatIndex State AssocLemmas.

(** * Association-list helpers (no sortedness assumptions) *)

Lemma ainsert_idem {A} k (v : A) l : ainsert k v (ainsert k v l) = ainsert k v l.
Proof.
  induction l as [|[k' v'] r IH]; cbn [ainsert].
  - rewrite scmp_refl. reflexivity.
  - destruct (String.compare k k') eqn:E; cbn [ainsert].
    + rewrite scmp_refl. reflexivity.
    + rewrite scmp_refl. reflexivity.
    + rewrite E, IH. reflexivity.
Qed.

Lemma id_props_ainsert k v m : has_prefix "!" k = false -> id_props (ainsert k v m) = id_props m.
Proof.
  intros Hk. unfold id_props.
  induction m as [|[k' v'] r IH]; cbn [ainsert].
  - cbn [filter fst]. rewrite Hk. reflexivity.
  - destruct (String.compare k k') eqn:E.
    + apply scmp_eq in E. subst k'. cbn [filter fst]. rewrite Hk. reflexivity.
    + cbn [filter fst]. rewrite Hk. reflexivity.
    + cbn [filter fst]. rewrite IH. reflexivity.
Qed.

Lemma id_props_aremove k m : has_prefix "!" k = false -> id_props (aremove k m) = id_props m.
Proof.
  intros Hk. unfold id_props.
  induction m as [|[k' v'] r IH]; cbn [aremove].
  - reflexivity.
  - destruct (String.eqb_spec k k') as [<-|Hne].
    + cbn [filter fst]. rewrite Hk. exact IH.
    + cbn [filter fst]. rewrite IH. reflexivity.
Qed.

(** * set_expires in two stages *)

Definition se_stage1 (m : list (string * json)) (now : Z) : outcome (list (string * json)) :=
  match alookup "ttl" m with
  | None => Ok m
  | Some t =>
      let m' := aremove "ttl" m in
      match t with
      | JNum v => Ok (ainsert "expires" (JNum (now + v)) m')
      | JStr s => match parse_secs s with
                  | Some n => Ok (ainsert "expires" (JNum (now + n)) m')
                  | None => Err "bad duration"
                  end
      | _ => Err "bad TTL"
      end
  end.

Definition se_stage2 (m1 : list (string * json)) (aux : option Z)
  : outcome (list (string * json) * bool * Z) :=
  match alookup "expires" m1 with
  | None => Ok (m1, false, 0)
  | Some e =>
      do em <- match e with
               | JNum v => Ok (v, m1)
               | JStr _ => match aux with
                           | Some v => Ok (v, ainsert "expires" (JNum v) m1)
                           | None => Err "bad time"
                           end
               | _ => Err "Expected a string or number for expires"
               end;
      let '(E, m2) := em in
      match alookup "rule" m2 with
      | None => Ok (m2, true, E)
      | Some (JObj r) => Ok (ainsert "rule" (JObj (ainsert "expires" (JNum E) r)) m2, true, E)
      | Some _ => Err "'rule' isn't a rule"
      end
  end.

Lemma set_expires_stages m now aux :
  set_expires m now aux = obind (se_stage1 m now) (fun m1 => se_stage2 m1 aux).
Proof. reflexivity. Qed.

(** What the ttl stage computes. *)
Definition stage1_expires (m m1 : list (string * json)) (now : Z) : Prop :=
  match alookup "ttl" m with
  | None => m1 = m
  | Some (JNum v) => alookup "expires" m1 = Some (JNum (now + v))
  | Some (JStr d) => exists n, parse_secs d = Some n /\ alookup "expires" m1 = Some (JNum (now + n))
  | Some _ => False
  end.

Lemma se_stage1_spec m now m1 :
  se_stage1 m now = Ok m1 ->
  alookup "ttl" m1 = None /\ id_props m1 = id_props m /\ alookup "id" m1 = alookup "id" m /\
  stage1_expires m m1 now.
Proof.
  unfold se_stage1, stage1_expires. intros H.
  assert (Hgen : forall e, alookup "ttl" (ainsert "expires" e (aremove "ttl" m)) = None /\
                 id_props (ainsert "expires" e (aremove "ttl" m)) = id_props m /\
                 alookup "id" (ainsert "expires" e (aremove "ttl" m)) = alookup "id" m).
  { intros e. split; [|split].
    - rewrite alookup_ainsert_other by discriminate. apply alookup_aremove_same.
    - rewrite id_props_ainsert by reflexivity. apply id_props_aremove. reflexivity.
    - rewrite alookup_ainsert_other by discriminate. apply alookup_aremove_other. discriminate. }
  destruct (alookup "ttl" m) as [t|] eqn:Ettl.
  - destruct t as [|b|v|s|l|kvs]; try discriminate.
    + injection H as <-. destruct (Hgen (JNum (now + v))) as (H1 & H2 & H3).
      repeat split; try assumption. apply alookup_ainsert_same.
    + destruct (parse_secs s) as [n|] eqn:Ep; try discriminate.
      injection H as <-. destruct (Hgen (JNum (now + n))) as (H1 & H2 & H3).
      repeat split; try assumption. exists n. split; [reflexivity|]. apply alookup_ainsert_same.
  - injection H as <-. repeat split; try assumption; reflexivity.
Qed.

(** What the expires stage computes. *)
Definition stage2_instant (m1 : list (string * json)) (aux : option Z) (ex : bool) (E : Z) : Prop :=
  match alookup "expires" m1 with
  | None => ex = false /\ E = 0
  | Some (JNum v) => ex = true /\ E = v
  | Some (JStr _) => ex = true /\ aux = Some E
  | Some _ => False
  end.

Definition rule_shape (m' : list (string * json)) (E : Z) : Prop :=
  alookup "rule" m' = None \/
  exists r', alookup "rule" m' = Some (JObj r') /\
             alookup "expires" r' = Some (JNum E) /\
             ainsert "rule" (JObj (ainsert "expires" (JNum E) r')) m' = m'.

Lemma se_stage2_spec m1 aux m' ex E :
  se_stage2 m1 aux = Ok (m', ex, E) ->
  alookup "ttl" m' = alookup "ttl" m1 /\
  alookup "expires" m' = (if ex then Some (JNum E) else None) /\
  id_props m' = id_props m1 /\ alookup "id" m' = alookup "id" m1 /\
  stage2_instant m1 aux ex E /\
  (ex = true -> rule_shape m' E).
Proof.
  unfold se_stage2, stage2_instant. intros H.
  (* the rule step, for any m2 whose expires is E *)
  assert (Hrule : forall m2 : list (string * json),
    alookup "expires" m2 = Some (JNum E) ->
    match alookup "rule" m2 with
    | None => Ok (m2, true, E)
    | Some (JObj r) => Ok (ainsert "rule" (JObj (ainsert "expires" (JNum E) r)) m2, true, E)
    | Some _ => Err "'rule' isn't a rule"
    end = Ok (m', ex, E) ->
    ex = true /\
    alookup "ttl" m' = alookup "ttl" m2 /\ alookup "expires" m' = Some (JNum E) /\
    id_props m' = id_props m2 /\ alookup "id" m' = alookup "id" m2 /\ rule_shape m' E).
  { intros m2 Hexp Hr.
    destruct (alookup "rule" m2) as [rv|] eqn:Erule.
    - destruct rv as [|b|z|s|l|r]; try discriminate.
      injection Hr as <- <-. split; [reflexivity|].
      rewrite !alookup_ainsert_other by discriminate.
      rewrite id_props_ainsert by reflexivity.
      repeat split; try assumption.
      right. exists (ainsert "expires" (JNum E) r).
      split; [apply alookup_ainsert_same|]. split; [apply alookup_ainsert_same|].
      rewrite !ainsert_idem. reflexivity.
    - injection Hr as <- <-. repeat split; try assumption. left. exact Erule. }
  destruct (alookup "expires" m1) as [e|] eqn:Eexp.
  - destruct e as [|b|v|s|l|kvs]; cbn [obind] in H; try discriminate.
    + (* numeric *)
      assert (HE : E = v).
      { destruct (alookup "rule" m1) as [rv|]; [destruct rv; try discriminate|];
          injection H as _ _ HE; symmetry; exact HE. }
      subst v. destruct (Hrule m1 Eexp H) as (-> & H1 & H2 & H3 & H4 & H5).
      split; [exact H1|]. split; [exact H2|]. split; [exact H3|]. split; [exact H4|].
      split; [split; reflexivity|]. intros _. exact H5.
    + (* string *)
      destruct aux as [v|]; cbn [obind] in H; try discriminate.
      assert (HE : E = v).
      { destruct (alookup "rule" (ainsert "expires" (JNum v) m1)) as [rv|];
          [destruct rv; try discriminate|]; injection H as _ _ HE; symmetry; exact HE. }
      subst v.
      destruct (Hrule (ainsert "expires" (JNum E) m1) (alookup_ainsert_same _ _ _) H)
        as (-> & H1 & H2 & H3 & H4 & H5).
      rewrite alookup_ainsert_other in H1 by discriminate.
      rewrite alookup_ainsert_other in H4 by discriminate.
      rewrite id_props_ainsert in H3 by reflexivity.
      split; [exact H1|]. split; [exact H2|]. split; [exact H3|]. split; [exact H4|].
      split; [split; reflexivity|]. intros _. exact H5.
  - injection H as <- <- <-.
    split; [reflexivity|]. split; [exact Eexp|]. split; [reflexivity|]. split; [reflexivity|].
    split; [split; reflexivity|]. intros Hft. discriminate Hft.
Qed.

(** The full description of a successful [set_expires]. *)
Lemma set_expires_full m now aux m' ex E :
  set_expires m now aux = Ok (m', ex, E) ->
  exists m1,
    se_stage1 m now = Ok m1 /\ se_stage2 m1 aux = Ok (m', ex, E) /\
    alookup "ttl" m' = None /\
    alookup "expires" m' = (if ex then Some (JNum E) else None) /\
    (ex = false -> E = 0) /\
    id_props m' = id_props m /\ alookup "id" m' = alookup "id" m /\
    stage1_expires m m1 now /\ stage2_instant m1 aux ex E /\
    (ex = true -> rule_shape m' E).
Proof.
  rewrite set_expires_stages. intros H.
  destruct (se_stage1 m now) as [m1| | |] eqn:S1; cbn [obind] in H; try discriminate.
  exists m1. split; [reflexivity|]. split; [exact H|].
  destruct (se_stage1_spec _ _ _ S1) as (A1 & A2 & A3 & A4).
  destruct (se_stage2_spec _ _ _ _ _ H) as (B1 & B2 & B3 & B4 & B5 & B6).
  repeat split.
  - rewrite B1. exact A1.
  - exact B2.
  - intros ->. unfold stage2_instant in B5.
    destruct (alookup "expires" m1) as [e|]; [destruct e|]; try contradiction;
      destruct B5 as [B5 B5']; try discriminate; exact B5'.
  - rewrite B3. exact A2.
  - rewrite B4. exact A3.
  - exact A4.
  - exact B5.
  - exact B6.
Qed.

Lemma set_expires_spec m now aux m' ex E :
  set_expires m now aux = Ok (m', ex, E) ->
  alookup "ttl" m' = None /\
  alookup "expires" m' = (if ex then Some (JNum E) else None) /\
  (ex = false -> E = 0) /\
  id_props m' = id_props m /\ alookup "id" m' = alookup "id" m.
Proof.
  intros H. destruct (set_expires_full _ _ _ _ _ _ H)
    as (m1 & _ & _ & H1 & H2 & H3 & H4 & H5 & _).
  repeat split; assumption.
Qed.

(** * prepare_fact *)

Lemma prepare_fact_inv given x now fresh aux id fact :
  prepare_fact given x now fresh aux = Ok (id, fact) ->
  exists m' ex E, fact = JObj m' /\ gen_id (jO x) given fresh = Ok id /\
    set_expires (jO x) now aux = Ok (m', ex, E) /\ (ex && not_after E now) = false.
Proof.
  unfold prepare_fact. cbv zeta. intros H.
  destruct (gen_id (jO x) given fresh) as [id0| | |] eqn:G; cbn [obind] in H; try discriminate.
  destruct (set_expires (jO x) now aux) as [[[m' ex] E]| | |] eqn:S; cbn [obind] in H;
    try discriminate.
  destruct (ex && not_after E now) eqn:N; try discriminate.
  injection H as <- <-. exists m', ex, E.
  split; [reflexivity|]. split; [reflexivity|]. split; [reflexivity|]. exact N.
Qed.

Lemma not_after_0 now : not_after 0 now = false.
Proof. reflexivity. Qed.

Lemma prepare_fact_expires given x now fresh aux id fact m' ex E :
  prepare_fact given x now fresh aux = Ok (id, fact) ->
  set_expires (jO x) now aux = Ok (m', ex, E) ->
  fact_expires fact = E.
Proof.
  intros H S.
  destruct (prepare_fact_inv _ _ _ _ _ _ _ H) as (m0 & ex0 & E0 & -> & _ & S0 & _).
  rewrite S in S0. injection S0 as <- <- <-.
  destruct (set_expires_spec _ _ _ _ _ _ S) as (_ & Hexp & H0 & _).
  unfold fact_expires. cbn [jget]. rewrite Hexp.
  destruct ex; [reflexivity|]. symmetry. apply H0. reflexivity.
Qed.

Lemma prepare_fact_not_expired given x now fresh aux id fact :
  prepare_fact given x now fresh aux = Ok (id, fact) -> fact_expired fact now = false.
Proof.
  intros H.
  destruct (prepare_fact_inv _ _ _ _ _ _ _ H) as (m' & ex & E & Hf & _ & S & N).
  unfold fact_expired. rewrite (prepare_fact_expires _ _ _ _ _ _ _ _ _ _ H S).
  destruct ex.
  - exact N.
  - destruct (set_expires_spec _ _ _ _ _ _ S) as (_ & _ & H0 & _).
    rewrite H0 by reflexivity. apply not_after_0.
Qed.

Lemma gen_id_repeat m m' given fresh id :
  gen_id m given fresh = Ok id ->
  id_props m' = id_props m -> alookup "id" m' = alookup "id" m ->
  gen_id m' id id = Ok id.
Proof.
  unfold gen_id. intros H Hp Hi. rewrite Hp, Hi.
  destruct (id_props m) as [|[p pv] [|q rest]].
  - destruct (String.eqb id ""); reflexivity.
  - exact H.
  - discriminate.
Qed.

(** A2 *)
Theorem prepare_idempotent given x now fresh aux id fact now' :
  prepare_fact given x now fresh aux = Ok (id, fact) ->
  fact_expired fact now' = false ->
  prepare_fact id fact now' id None = Ok (id, fact).
Proof.
  intros H Hne.
  destruct (prepare_fact_inv _ _ _ _ _ _ _ H) as (m' & ex & E & Hf & G & S & N).
  pose proof (prepare_fact_expires _ _ _ _ _ _ _ _ _ _ H S) as HE.
  subst fact.
  destruct (set_expires_full _ _ _ _ _ _ S)
    as (m1 & _ & _ & Httl & Hexp & H0 & Hp & Hi & _ & _ & Hrule).
  unfold prepare_fact. cbv zeta. cbn [jO].
  rewrite (gen_id_repeat _ _ _ _ _ G Hp Hi). cbn [obind].
  assert (S' : set_expires m' now' None = Ok (m', ex, E)).
  { rewrite set_expires_stages. unfold se_stage1. rewrite Httl. cbn [obind].
    unfold se_stage2. rewrite Hexp.
    destruct ex.
    - cbn [obind]. destruct (Hrule eq_refl) as [Hr|(r' & Hr & _ & Hid)].
      + rewrite Hr. reflexivity.
      + rewrite Hr, Hid. reflexivity.
    - rewrite H0 by reflexivity. reflexivity. }
  rewrite S'. cbn [obind].
  unfold fact_expired in Hne. rewrite HE in Hne. rewrite Hne.
  rewrite andb_false_r. reflexivity.
Qed.

(** B1 *)
Theorem expiry_from_numeric_ttl given x now fresh aux id fact v :
  prepare_fact given x now fresh aux = Ok (id, fact) ->
  alookup "ttl" (jO x) = Some (JNum v) -> fact_expires fact = now + v.
Proof.
  intros H Httl.
  destruct (prepare_fact_inv _ _ _ _ _ _ _ H) as (m' & ex & E & Hf & G & S & N).
  rewrite (prepare_fact_expires _ _ _ _ _ _ _ _ _ _ H S).
  destruct (set_expires_full _ _ _ _ _ _ S)
    as (m1 & _ & _ & _ & _ & _ & _ & _ & H1 & H2 & _).
  unfold stage1_expires in H1. rewrite Httl in H1.
  unfold stage2_instant in H2. rewrite H1 in H2. destruct H2 as [_ ->]. reflexivity.
Qed.

Theorem expiry_from_duration_ttl given x now fresh aux id fact d n :
  prepare_fact given x now fresh aux = Ok (id, fact) ->
  alookup "ttl" (jO x) = Some (JStr d) -> parse_secs d = Some n -> fact_expires fact = now + n.
Proof.
  intros H Httl Hd.
  destruct (prepare_fact_inv _ _ _ _ _ _ _ H) as (m' & ex & E & Hf & G & S & N).
  rewrite (prepare_fact_expires _ _ _ _ _ _ _ _ _ _ H S).
  destruct (set_expires_full _ _ _ _ _ _ S)
    as (m1 & _ & _ & _ & _ & _ & _ & _ & H1 & H2 & _).
  unfold stage1_expires in H1. rewrite Httl in H1.
  destruct H1 as (n' & Hn' & H1). rewrite Hd in Hn'. injection Hn' as <-.
  unfold stage2_instant in H2. rewrite H1 in H2. destruct H2 as [_ ->]. reflexivity.
Qed.

Theorem expiry_from_numeric_expires given x now fresh aux id fact E :
  prepare_fact given x now fresh aux = Ok (id, fact) ->
  alookup "ttl" (jO x) = None -> alookup "expires" (jO x) = Some (JNum E) -> fact_expires fact = E.
Proof.
  intros H Httl Hexp.
  destruct (prepare_fact_inv _ _ _ _ _ _ _ H) as (m' & ex & E' & Hf & G & S & N).
  rewrite (prepare_fact_expires _ _ _ _ _ _ _ _ _ _ H S).
  destruct (set_expires_full _ _ _ _ _ _ S)
    as (m1 & _ & _ & _ & _ & _ & _ & _ & H1 & H2 & _).
  unfold stage1_expires in H1. rewrite Httl in H1. subst m1.
  unfold stage2_instant in H2. rewrite Hexp in H2. destruct H2 as [_ ->]. reflexivity.
Qed.

Theorem expiry_from_rfc3339_expires given x now fresh aux id fact str :
  prepare_fact given x now fresh aux = Ok (id, fact) ->
  alookup "ttl" (jO x) = None -> alookup "expires" (jO x) = Some (JStr str) ->
  exists v, aux = Some v /\ fact_expires fact = v.
Proof.
  intros H Httl Hexp.
  destruct (prepare_fact_inv _ _ _ _ _ _ _ H) as (m' & ex & E' & Hf & G & S & N).
  rewrite (prepare_fact_expires _ _ _ _ _ _ _ _ _ _ H S).
  destruct (set_expires_full _ _ _ _ _ _ S)
    as (m1 & _ & _ & _ & _ & _ & _ & _ & H1 & H2 & _).
  unfold stage1_expires in H1. rewrite Httl in H1. subst m1.
  unfold stage2_instant in H2. rewrite Hexp in H2. destruct H2 as [_ ->].
  exists E'. split; reflexivity.
Qed.

Theorem no_expiry_without_ttl_or_expires given x now fresh aux id fact :
  prepare_fact given x now fresh aux = Ok (id, fact) ->
  alookup "ttl" (jO x) = None -> alookup "expires" (jO x) = None -> fact_expires fact = 0.
Proof.
  intros H Httl Hexp.
  destruct (prepare_fact_inv _ _ _ _ _ _ _ H) as (m' & ex & E' & Hf & G & S & N).
  rewrite (prepare_fact_expires _ _ _ _ _ _ _ _ _ _ H S).
  destruct (set_expires_full _ _ _ _ _ _ S)
    as (m1 & _ & _ & _ & _ & _ & _ & _ & H1 & H2 & _).
  unfold stage1_expires in H1. rewrite Httl in H1. subst m1.
  unfold stage2_instant in H2. rewrite Hexp in H2. destruct H2 as [_ ->]. reflexivity.
Qed.

Theorem stored_fact_has_no_ttl given x now fresh aux id fact :
  prepare_fact given x now fresh aux = Ok (id, fact) -> jget "ttl" fact = None.
Proof.
  intros H.
  destruct (prepare_fact_inv _ _ _ _ _ _ _ H) as (m' & ex & E & -> & G & S & N).
  destruct (set_expires_spec _ _ _ _ _ _ S) as (Httl & _).
  exact Httl.
Qed.

Theorem rule_body_carries_expiry given x now fresh aux id fact r :
  prepare_fact given x now fresh aux = Ok (id, fact) -> jget "rule" fact = Some (JObj r) ->
  fact_expires fact <> 0 -> alookup "expires" r = Some (JNum (fact_expires fact)).
Proof.
  intros H Hr Hnz.
  destruct (prepare_fact_inv _ _ _ _ _ _ _ H) as (m' & ex & E & Hf & G & S & N).
  rewrite (prepare_fact_expires _ _ _ _ _ _ _ _ _ _ H S) in *.
  subst fact. cbn [jget] in Hr.
  destruct (set_expires_full _ _ _ _ _ _ S)
    as (m1 & _ & _ & _ & _ & H0 & _ & _ & _ & _ & Hrule).
  destruct ex.
  - destruct (Hrule eq_refl) as [Hn|(r' & Hr' & Hexp & _)].
    + rewrite Hn in Hr. discriminate.
    + rewrite Hr' in Hr. injection Hr as <-. exact Hexp.
  - exfalso. apply Hnz. apply H0. reflexivity.
Qed.

(** B2 *)
Theorem expired_write_rejected given x now fresh aux id m E :
  gen_id (jO x) given fresh = Ok id ->
  set_expires (jO x) now aux = Ok (m, true, E) -> E <> 0 -> E <= now ->
  prepare_fact given x now fresh aux = Err "expired".
Proof.
  intros G S Hnz Hle. unfold prepare_fact. cbv zeta.
  rewrite G. cbn [obind]. rewrite S. cbn [obind].
  assert (Hna : not_after E now = true).
  { unfold not_after. apply andb_true_intro. split.
    - apply negb_true_iff. apply Z.eqb_neq. exact Hnz.
    - apply Z.leb_le. exact Hle. }
  rewrite Hna. reflexivity.
Qed.

Lemma prepare_fact_gen_id_error_first given x now fresh aux e :
  gen_id (jO x) given fresh = Err e -> prepare_fact given x now fresh aux = Err e.
Proof.
  intros G. unfold prepare_fact. cbv zeta. rewrite G. reflexivity.
Qed.

(** B6 part *)
Theorem never_expires_without_expiry fact :
  fact_expires fact = 0 -> forall now, fact_expired fact now = false.
Proof.
  intros H now. unfold fact_expired. rewrite H. apply not_after_0.
Qed.

(** * Sanity checks on concrete inputs *)

Example sanity_ttl_overrides_expires :
  prepare_fact "a" (JObj [("expires", JNum 5); ("ttl", JNum 3)]) 100 "f" None
  = Ok ("a", JObj [("expires", JNum 103)]).
Proof. vm_compute. reflexivity. Qed.

Example sanity_rule_gets_expiry :
  prepare_fact "" (JObj [("rule", JObj [("when", JObj [])]); ("ttl", JStr "10s")]) 100 "f" None
  = Ok ("f", JObj [("expires", JNum 110);
                   ("rule", JObj [("expires", JNum 110); ("when", JObj [])])]).
Proof. vm_compute. reflexivity. Qed.

Example sanity_id_prop :
  prepare_fact "g" (JObj [("!foo", JNum 1); ("expires", JStr "t"); ("id", JStr "x")]) 100 "f" (Some 200)
  = Ok ("!x.foo", JObj [("!foo", JNum 1); ("expires", JNum 200); ("id", JStr "x")]).
Proof. vm_compute. reflexivity. Qed.

Example sanity_expired :
  prepare_fact "a" (JObj [("expires", JNum 5)]) 100 "f" None = Err "expired".
Proof. vm_compute. reflexivity. Qed.

Print Assumptions ainsert_idem.
Print Assumptions id_props_ainsert.
Print Assumptions id_props_aremove.
Print Assumptions set_expires_spec.
Print Assumptions prepare_fact_inv.
Print Assumptions prepare_fact_expires.
Print Assumptions prepare_fact_not_expired.
Print Assumptions prepare_idempotent.
Print Assumptions expiry_from_numeric_ttl.
Print Assumptions expiry_from_duration_ttl.
Print Assumptions expiry_from_numeric_expires.
Print Assumptions expiry_from_rfc3339_expires.
Print Assumptions no_expiry_without_ttl_or_expires.
Print Assumptions stored_fact_has_no_ttl.
Print Assumptions rule_body_carries_expiry.
Print Assumptions expired_write_rejected.
Print Assumptions prepare_fact_gen_id_error_first.
Print Assumptions never_expires_without_expiry.
