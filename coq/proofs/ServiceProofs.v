(** Proofs of the service-layer theorems (statements in ServiceSpec.v). *)
From Coq Require Import Lia.
From Verif Require Import Json Outcome Service CorrService DispatchTable AssocLemmas ServiceSpec.

(** * Strings *)

Lemma append_empty_r s : String.append s "" = s.
Proof. induction s; cbn; [reflexivity|rewrite IHs; reflexivity]. Qed.

Lemma append_assoc a b c : String.append (String.append a b) c = String.append a (String.append b c).
Proof. induction a; cbn; [reflexivity|rewrite IHa; reflexivity]. Qed.

Lemma prefix_inv p : forall x, String.prefix p x = true -> exists t, x = String.append p t.
Proof.
  induction p as [|a p IH]; intros x H.
  - exists x. reflexivity.
  - destruct x as [|b x]; [discriminate|]. cbn [String.prefix] in H.
    destruct (ascii_dec a b); [|discriminate]. subst b.
    destruct (IH _ H) as [t ->]. exists t. reflexivity.
Qed.

Lemma has_prefix_api_inv x : has_prefix "/api" x = true -> exists t, x = String.append "/api" t.
Proof. apply prefix_inv. Qed.

Lemma has_prefix_api_app t : has_prefix "/api" (String.append "/api" t) = true.
Proof. destruct t; reflexivity. Qed.

(** * DWIMURI *)

Lemma no_q_drop_params d s : no_char "?" (drop_params d s) = true.
Proof.
  revert d. induction s as [|c r IH]; intros d; cbn [drop_params]; [reflexivity|].
  destruct (Ascii.eqb c nl) eqn:En.
  - cbn [no_char]. apply Ascii.eqb_eq in En. subst c.
    replace (Ascii.eqb "?" nl) with false by reflexivity. cbn [negb andb]. apply IH.
  - destruct d; [apply IH|].
    destruct (Ascii.eqb c "?") eqn:Eq; [apply IH|].
    cbn [no_char]. rewrite Ascii.eqb_sym, Eq. cbn [negb andb]. apply IH.
Qed.

Lemma drop_params_id s : no_char "?" s = true -> drop_params false s = s.
Proof.
  induction s as [|c r IH]; cbn [no_char drop_params]; [reflexivity|]. intros H.
  apply andb_prop in H. destruct H as [H1 H2].
  destruct (Ascii.eqb c nl); [rewrite (IH H2); reflexivity|].
  rewrite Ascii.eqb_sym in H1. destruct (Ascii.eqb c "?"); [discriminate|].
  rewrite (IH H2). reflexivity.
Qed.

Lemma no_q_drop_verchars s : no_char "?" s = true -> no_char "?" (drop_verchars s) = true.
Proof.
  induction s as [|c r IH]; cbn [no_char drop_verchars]; [reflexivity|]. intros H.
  destruct (is_verchar c).
  - apply andb_prop in H. apply IH. apply H.
  - exact H.
Qed.

Lemma no_q_drop_version s : no_char "?" s = true -> no_char "?" (drop_version s) = true.
Proof.
  intros H. unfold drop_version.
  destruct s as [|c0 r0]; [reflexivity|].
  destruct (Ascii.eqb c0 "/"); [|exact H].
  destruct r0 as [|c1 r1]; [exact H|].
  assert (H1 : no_char "?" r1 = true).
  { cbn [no_char] in H. apply andb_prop in H. destruct H as [_ H]. apply andb_prop in H. apply H. }
  destruct (is_verchar c1); [apply no_q_drop_verchars; exact H1|].
  destruct (Ascii.eqb c1 "v"); [|exact H].
  destruct r1 as [|c2 r2]; [exact H|].
  destruct (is_verchar c2); [|exact H].
  apply no_q_drop_verchars. cbn [no_char] in H1. apply andb_prop in H1. apply H1.
Qed.

Lemma no_q_append a b : no_char "?" a = true -> no_char "?" b = true -> no_char "?" (String.append a b) = true.
Proof.
  induction a as [|c r IH]; cbn [no_char String.append]; [auto|]. intros H Hb.
  apply andb_prop in H. destruct H as [H1 H2]. rewrite H1. cbn [andb]. apply IH; assumption.
Qed.

Lemma drop_version_api t : drop_version (String.append "/api" t) = String.append "/api" t.
Proof. reflexivity. Qed.

Lemma dwim_has_api s : has_prefix "/api" (dwim_uri s) = true.
Proof.
  unfold dwim_uri. destruct (has_prefix "/api" (drop_version (drop_params false s))) eqn:E.
  - exact E.
  - apply has_prefix_api_app.
Qed.

Lemma dwim_no_q s : no_char "?" (dwim_uri s) = true.
Proof.
  unfold dwim_uri.
  assert (H : no_char "?" (drop_version (drop_params false s)) = true)
    by (apply no_q_drop_version, no_q_drop_params).
  destruct (has_prefix "/api" _); [exact H|].
  apply no_q_append; [reflexivity|exact H].
Qed.

Theorem dwim_keeps_api : dwim_keeps_api_statement.
Proof.
  intros u Hp Hq. unfold dwim_uri. rewrite (drop_params_id _ Hq).
  destruct (has_prefix_api_inv _ Hp) as [t ->].
  rewrite drop_version_api, has_prefix_api_app. reflexivity.
Qed.

Theorem dwim_idempotent : dwim_idempotent_statement.
Proof. intros s. apply dwim_keeps_api; [apply dwim_has_api|apply dwim_no_q]. Qed.

Theorem dwim_adds_api : dwim_adds_api_statement.
Proof.
  intros u Hp Hq Hv. unfold dwim_uri. rewrite (drop_params_id _ Hq), Hv, Hp. reflexivity.
Qed.

Lemma drop_verchars_app ds t :
  all_verchars ds = true -> starts_slash t = true -> drop_verchars (String.append ds t) = t.
Proof.
  intros Hd Ht. induction ds as [|c r IH]; cbn.
  - destruct t as [|c t]; [reflexivity|]. cbn in Ht. apply Ascii.eqb_eq in Ht. subst c. reflexivity.
  - cbn in Hd. apply andb_prop in Hd. destruct Hd as [H1 H2]. rewrite H1. apply IH; exact H2.
Qed.

Lemma drop_version_version v t :
  is_version v = true -> starts_slash t = true -> drop_version (String.append v t) = t.
Proof.
  intros Hv Ht. destruct v as [|c0 [|c1 r]]; try discriminate.
  cbn in Hv. apply andb_prop in Hv. destruct Hv as [H0 Hv].
  cbn [String.append drop_version]. rewrite H0.
  apply orb_prop in Hv. destruct Hv as [Hv|Hv].
  - apply andb_prop in Hv. destruct Hv as [H1 H2]. rewrite H1. apply drop_verchars_app; assumption.
  - apply andb_prop in Hv. destruct Hv as [Hv H2]. apply andb_prop in Hv. destruct Hv as [H1 Hne].
    apply Ascii.eqb_eq in H1. subst c1.
    replace (is_verchar "v") with false by reflexivity. cbn [Ascii.eqb]. 
    replace (Ascii.eqb "v" "v") with true by reflexivity.
    destruct r as [|c2 r2]; [discriminate|].
    cbn [String.append]. cbn in H2. apply andb_prop in H2. destruct H2 as [H2 H3].
    rewrite H2. apply drop_verchars_app; assumption.
Qed.

Theorem dwim_drops_version : dwim_drops_version_statement.
Proof.
  intros v t Hv Hqv Hqt Ht. unfold dwim_uri.
  rewrite (drop_params_id _ (no_q_append _ _ Hqv Hqt)).
  rewrite (drop_version_version _ _ Hv Ht). reflexivity.
Qed.

Lemma drop_params_query x q :
  no_char "?" x = true -> no_char nl q = true ->
  drop_params false (String.append x (String "?" q)) = x.
Proof.
  intros Hx Hq. induction x as [|c r IH]; cbn [String.append drop_params].
  - replace (Ascii.eqb "?" nl) with false by reflexivity.
    replace (Ascii.eqb "?" "?") with true by reflexivity.
    assert (G : forall q, no_char nl q = true -> drop_params true q = "").
    { clear. induction q as [|c r IH]; cbn [no_char drop_params]; [reflexivity|]. intros H.
      apply andb_prop in H. destruct H as [H1 H2]. rewrite Ascii.eqb_sym in H1.
      destruct (Ascii.eqb c nl); [discriminate|]. apply IH; exact H2. }
    apply G; exact Hq.
  - cbn [no_char] in Hx. apply andb_prop in Hx. destruct Hx as [H1 H2]. rewrite Ascii.eqb_sym in H1.
    destruct (Ascii.eqb c nl); [rewrite (IH H2); reflexivity|].
    destruct (Ascii.eqb c "?"); [discriminate|]. rewrite (IH H2). reflexivity.
Qed.

Lemma dwim_query x q :
  no_char "?" x = true -> no_char nl q = true ->
  dwim_uri (String.append x (String "?" q)) = dwim_uri x.
Proof.
  intros Hx Hq. unfold dwim_uri. rewrite (drop_params_query _ _ Hx Hq), (drop_params_id _ Hx). reflexivity.
Qed.

Lemma strip_api_app t : strip_api (String.append "/api" t) = t.
Proof. unfold strip_api. rewrite has_prefix_api_app. reflexivity. Qed.

Lemma no_q_app_inv a b : no_char "?" (String.append a b) = true -> no_char "?" b = true.
Proof.
  induction a as [|c r IH]; cbn; [auto|]. intros H. apply andb_prop in H. apply IH, H.
Qed.

Lemma verchar_not_q c : is_verchar c = true -> Ascii.eqb "?" c = false.
Proof.
  intros H. destruct (Ascii.eqb "?" c) eqn:E; [|reflexivity].
  apply Ascii.eqb_eq in E. subst c. discriminate.
Qed.

Lemma all_verchars_no_q r : all_verchars r = true -> no_char "?" r = true.
Proof.
  induction r as [|c r IH]; cbn [all_verchars no_char]; [reflexivity|]. intros H.
  apply andb_prop in H. destruct H as [H1 H2].
  rewrite (verchar_not_q _ H1), (IH H2). reflexivity.
Qed.

Lemma is_version_no_q v : is_version v = true -> no_char "?" v = true.
Proof.
  intros H. destruct v as [|c0 [|c1 r]]; try discriminate.
  cbn [is_version] in H. apply andb_prop in H. destruct H as [H0 H]. apply Ascii.eqb_eq in H0. subst c0.
  cbn [no_char]. replace (Ascii.eqb "?" "/") with false by reflexivity. cbn [negb andb].
  apply orb_prop in H. destruct H as [H|H].
  - apply andb_prop in H. destruct H as [H1 H2].
    rewrite (verchar_not_q _ H1), (all_verchars_no_q _ H2). reflexivity.
  - apply andb_prop in H. destruct H as [H H2]. apply andb_prop in H. destruct H as [H1 _].
    apply Ascii.eqb_eq in H1. subst c1. rewrite (all_verchars_no_q _ H2). reflexivity.
Qed.

Lemma dwim_vary u pv :
  normal_uri u = true -> variant_ok pv = true ->
  dwim_uri (vary pv u) = u /\ no_char "?" (vary pv u) = true.
Proof.
  intros Hn Hv. unfold normal_uri in Hn.
  repeat (apply andb_prop in Hn; destruct Hn as [Hn ?]).
  rename H into Hdv, H0 into Hnapi, H1 into Hsl, H2 into Hq.
  destruct (has_prefix_api_inv _ Hn) as [t ->]. rewrite strip_api_app in *.
  apply String.eqb_eq in Hdv. apply negb_true_iff in Hnapi.
  pose proof (no_q_app_inv _ _ Hq) as Hqt.
  destruct pv as [| |v|v]; cbn [vary variant_ok] in *; rewrite ?strip_api_app.
  - split; [apply dwim_keeps_api; assumption|exact Hq].
  - split; [apply dwim_adds_api; assumption|exact Hqt].
  - pose proof (is_version_no_q _ Hv) as Hqv. split.
    + rewrite (dwim_drops_version v _ Hv Hqv Hq eq_refl), has_prefix_api_app. reflexivity.
    + apply no_q_append; assumption.
  - pose proof (is_version_no_q _ Hv) as Hqv. split.
    + rewrite (dwim_drops_version v _ Hv Hqv Hqt Hsl), Hnapi. reflexivity.
    + apply no_q_append; assumption.
Qed.

Theorem dwim_prefix_variants : dwim_prefix_variants_statement.
Proof.
  intros u pv q Hn Hv Hq. destruct (dwim_vary u pv Hn Hv) as [H1 H2]. split; [exact H1|].
  rewrite (dwim_query _ _ H2 Hq). exact H1.
Qed.

Lemma dwim_eats_versionlike_segment_counterexample : dwim_eats_versionlike_segment_counterexample_statement.
Proof. vm_compute. repeat split. Qed.

Example normal_uris_exist : forallb normal_uri (map fst svc_loc_getters) = true.
Proof. vm_compute. reflexivity. Qed.

(** * The tables of the model are the source's *)

Theorem model_tables_match_source : model_tables_match_source_statement.
Proof. repeat split; vm_compute; reflexivity. Qed.

Lemma loc_entries_eq : loc_entries = svc_loc_getters.
Proof. vm_compute. reflexivity. Qed.

(** generic lifting of a check over a two-level table *)
Lemma table_forall {A B} (check : A -> B -> bool) (tbl : list (A * list B)) :
  forallb (fun e => forallb (check (fst e)) (snd e)) tbl = true ->
  forall a bs b, In (a, bs) tbl -> In b bs -> check a b = true.
Proof.
  intros H a bs b Hin Hb.
  rewrite forallb_forall in H. specialize (H _ Hin). cbn in H.
  rewrite forallb_forall in H. apply H; exact Hb.
Qed.

Theorem getter_types_consistent : getter_types_consistent_statement.
Proof.
  intros uri gs g p req chk Hin Hg.
  pose (check := fun (_ : string) (s : getter_spec) =>
                   let '(g, p, _, _) := s in
                   if String.eqb g "getMapParam" then typed_json p else untyped p).
  assert (H : check uri (g, p, req, chk) = true).
  { apply (table_forall check loc_entries) with (bs := gs); [vm_compute; reflexivity|exact Hin|exact Hg]. }
  unfold check in H. split; intros Hk.
  - subst g. exact H.
  - apply String.eqb_neq in Hk. rewrite Hk in H. exact H.
Qed.

Theorem required_are_checked : required_are_checked_statement.
Proof.
  intros uri gs g p chk Hin Hg.
  pose (check := fun (uri : string) (s : getter_spec) => let '(_, _, req, chk) := s in implb req chk).
  assert (H : check uri (g, p, true, chk) = true).
  { apply (table_forall check loc_entries) with (bs := gs); [vm_compute; reflexivity|exact Hin|exact Hg]. }
  exact H.
Qed.

Theorem optional_ids_are_checked : optional_ids_are_checked_statement.
Proof.
  intros uri gs g req chk Hin Hg.
  pose (check := fun (uri : string) (s : getter_spec) =>
                   let '(_, p, _, chk) := s in implb (String.eqb p "id") chk).
  assert (H : check uri (g, "id", req, chk) = true).
  { apply (table_forall check loc_entries) with (bs := gs); [vm_compute; reflexivity|exact Hin|exact Hg]. }
  exact H.
Qed.

(** * A checked getter that fails aborts the request *)

Lemma join_strs_all l : all_strs l = true -> exists s, join_strs l = Some s.
Proof.
  induction l as [|x l IH]; cbn; [eexists; reflexivity|].
  destruct x; try discriminate. intros H. destruct (IH H) as [s' ->]. eexists; reflexivity.
Qed.

Lemma join_strs_none l : all_strs l = false -> join_strs l = None.
Proof.
  induction l as [|x l IH]; cbn; [discriminate|].
  destruct x; try reflexivity. intros H. rewrite (IH H). reflexivity.
Qed.

Lemma run_getter_bad g p req m :
  bad_for g req (alookup p m) = true -> exists v h e, run_getter g p req m = (v, h, Some e).
Proof.
  unfold bad_for, run_getter, get_string_param, get_bool_param, get_map_param.
  destruct (String.eqb g "GetStringParam").
  { destruct (alookup p m) as [j|].
    - destruct j; try discriminate; try (intros _; do 3 eexists; reflexivity).
      intros H. apply negb_true_iff in H. rewrite (join_strs_none _ H). do 3 eexists; reflexivity.
    - intros ->. do 3 eexists; reflexivity. }
  destruct (String.eqb g "getBoolParam").
  { destruct (alookup p m) as [j|].
    - destruct j; try discriminate; intros _; do 3 eexists; reflexivity.
    - intros ->. do 3 eexists; reflexivity. }
  destruct (String.eqb g "getMapParam").
  { destruct (alookup p m) as [j|].
    - destruct j; try discriminate; intros _; do 3 eexists; reflexivity.
    - intros ->. do 3 eexists; reflexivity. }
  intros _. do 3 eexists; reflexivity.
Qed.

Lemma run_getters_bad gs : forall m acc g p req,
  In (g, p, req, true) gs -> bad_for g req (alookup p m) = true ->
  exists e, run_getters gs m acc = Err e.
Proof.
  induction gs as [|[[[g0 p0] req0] chk0] gs IH]; intros m acc g p req Hin Hbad; [destruct Hin|].
  cbn [run_getters]. destruct Hin as [Heq|Hin].
  - inversion Heq; subst. destruct (run_getter_bad _ _ _ _ Hbad) as (v & h & e & ->). eexists; reflexivity.
  - destruct (run_getter g0 p0 req0 m) as [[v h] [e|]].
    + destruct chk0; [eexists; reflexivity|]. eapply IH; eassumption.
    + eapply IH; eassumption.
Qed.

Lemma loc_keys_prefix uri gs : In (uri, gs) svc_loc_getters -> has_prefix "/api/loc/" uri = true.
Proof.
  intros Hin.
  assert (H : forallb (fun e => has_prefix "/api/loc/" (fst e)) svc_loc_getters = true) by (vm_compute; reflexivity).
  rewrite forallb_forall in H. apply (H _ Hin).
Qed.

(** the table has one entry per uri: lookup finds the entry *)
Lemma loc_lookup uri gs : In (uri, gs) svc_loc_getters -> alookup uri svc_loc_getters = Some gs.
Proof.
  intros Hin.
  assert (H : forallb (fun e => match alookup (fst e) svc_loc_getters with
                                | Some gs' => list_eqb (fun a b : getter_spec =>
                                     let '(g1, p1, r1, c1) := a in let '(g2, p2, r2, c2) := b in
                                     String.eqb g1 g2 && String.eqb p1 p2 && Bool.eqb r1 r2 && Bool.eqb c1 c2) gs' (snd e)
                                | None => false end) svc_loc_getters = true) by (vm_compute; reflexivity).
  rewrite forallb_forall in H. specialize (H _ Hin). cbn [fst snd] in H.
  destruct (alookup uri svc_loc_getters) as [gs'|]; [|discriminate].
  f_equal. clear Hin. revert gs H. induction gs' as [|a gs' IH]; intros [|b gs] H; try discriminate; [reflexivity|].
  cbn [list_eqb] in H. apply andb_prop in H. destruct H as [H1 H2]. f_equal; [|apply IH; exact H2].
  destruct a as [[[g1 p1] r1] c1], b as [[[g2 p2] r2] c2].
  apply andb_prop in H1. destruct H1 as [H1 Hc]. apply andb_prop in H1. destruct H1 as [H1 Hr].
  apply andb_prop in H1. destruct H1 as [Hg Hp].
  apply String.eqb_eq in Hg. apply String.eqb_eq in Hp. apply Bool.eqb_prop in Hr. apply Bool.eqb_prop in Hc.
  subst. reflexivity.
Qed.

Theorem checked_getter_rejects : checked_getter_rejects_statement.
Proof.
  intros uri gs g p req m Hin Hg Hbad. rewrite loc_entries_eq in Hin.
  assert (Hne : gs <> []) by (intros ->; destruct Hg).
  unfold dispatch.
  destruct (String.eqb uri "/api/loc/facts/take") eqn:E1.
  { apply String.eqb_eq in E1. subst uri. apply loc_lookup in Hin. vm_compute in Hin. injection Hin as <-. destruct Hg. }
  destruct (String.eqb uri "/api/loc/facts/replace") eqn:E2.
  { apply String.eqb_eq in E2. subst uri. rewrite (loc_lookup _ _ Hin).
    destruct (run_getters_bad gs m [] g p req Hg Hbad) as [e ->]. eexists; reflexivity. }
  rewrite (loc_keys_prefix _ _ Hin). unfold dispatch_plain. rewrite (loc_lookup _ _ Hin).
  destruct (run_getters_bad gs m [] g p req Hg Hbad) as [e ->]. eexists; reflexivity.
Qed.

Theorem missing_or_illtyped_is_error : missing_or_illtyped_is_error_statement.
Proof.
  intros uri gs g p chk m Hin Hg Hbad.
  rewrite (required_are_checked uri gs g p chk Hin Hg) in Hg.
  eapply checked_getter_rejects; eassumption.
Qed.

(** * Unknown URIs *)

Theorem unknown_uri_is_error : unknown_uri_is_error_statement.
Proof.
  intros uri m Hun. unfold dispatch.
  destruct (String.eqb uri "/api/loc/facts/take") eqn:E1.
  { apply String.eqb_eq in E1. subst uri. discriminate. }
  destruct (String.eqb uri "/api/loc/facts/replace") eqn:E2.
  { apply String.eqb_eq in E2. subst uri. discriminate. }
  destruct (has_prefix "/api/loc/" uri) eqn:Ep; [|rewrite Hun; reflexivity].
  unfold dispatch_plain. destruct (alookup uri svc_loc_getters) as [gs|] eqn:El; [|reflexivity].
  exfalso. apply alookup_In_keys in El.
  assert (H : forallb (fun u => mem_str u svc_process_uris) (map fst svc_loc_getters) = true) by (vm_compute; reflexivity).
  rewrite forallb_forall in H. rewrite (H _ El) in Hun. discriminate.
Qed.

Lemma decode_inv rq uri m :
  decode svc_parameter_types rq = Ok (uri, m) ->
  exists u, get_http_request svc_parameter_types rq = Ok m /\ alookup "uri" m = Some (JStr u) /\ uri = dwim_uri u.
Proof.
  unfold decode, uri_of. destruct (get_http_request svc_parameter_types rq) as [m'| | |]; try discriminate.
  destruct (alookup "uri" m') as [[]|] eqn:E; try discriminate.
  intros H. inversion H; subst. eexists; repeat split; eassumption.
Qed.

Lemma serve_of_decode rq uri m :
  decode svc_parameter_types rq = Ok (uri, m) ->
  mem_str uri svc_serve_uris = false -> uri <> "/api/sys/util/batch" ->
  serve svc_parameter_types rq =
  match dispatch uri m with
  | Ok p => Ok (ASingle p) | Err e => Err e | Panic w => Panic w | OutOfFuel => OutOfFuel
  end.
Proof.
  intros Hd Hs Hb. destruct (decode_inv _ _ _ Hd) as (u & Hg & Hu & ->).
  unfold serve, uri_of, process_request. rewrite Hg, Hu, Hs.
  apply String.eqb_neq in Hb. rewrite Hb. reflexivity.
Qed.

Theorem unknown_uri_is_400 : unknown_uri_is_400_statement.
Proof.
  intros rq uri m Hd Hp Hs.
  rewrite (serve_of_decode _ _ _ Hd Hs).
  - rewrite (unknown_uri_is_error _ m Hp). reflexivity.
  - intros ->. discriminate.
Qed.

Theorem missing_or_illtyped_is_400 : missing_or_illtyped_is_400_statement.
Proof.
  intros rq uri m gs g p chk Hd Hin Hg Hbad.
  destruct (missing_or_illtyped_is_error uri gs g p chk m Hin Hg Hbad) as [e He].
  pose proof Hin as Hin'. rewrite loc_entries_eq in Hin'. pose proof (loc_keys_prefix _ _ Hin') as Hpre.
  rewrite (serve_of_decode _ _ _ Hd).
  - rewrite He. eexists; reflexivity.
  - destruct (mem_str uri svc_serve_uris) eqn:E; [|reflexivity].
    apply mem_str_In in E. cbn in E. destruct E as [<-|[<-|[]]]; discriminate.
  - intros ->. discriminate.
Qed.

(** * Lookup in folded inserts, sorted objects *)

Lemma notin_alookup_None {A} k (l : list (string * A)) : ~ In k (map fst l) -> alookup k l = None.
Proof.
  intros H. destruct (alookup k l) eqn:E; [|reflexivity].
  exfalso. apply H. eapply alookup_In_keys; eassumption.
Qed.

Lemma NoDup_In_alookup {A} k (v : A) l : NoDup (map fst l) -> In (k, v) l -> alookup k l = Some v.
Proof.
  induction l as [|[k' v'] r IH]; cbn [map fst In alookup]; intros Hnd Hin; [destruct Hin|].
  inversion Hnd as [|? ? Hni Hnd']; subst. destruct Hin as [Heq|Hin].
  - inversion Heq; subst. rewrite String.eqb_refl. reflexivity.
  - destruct (String.eqb_spec k k') as [->|Hne]; [|apply IH; assumption].
    exfalso. apply Hni. apply (in_map fst) in Hin. exact Hin.
Qed.

Lemma fold_ainsert_lookup {A} (f : A -> json) (l : list (string * A)) : forall m n,
  NoDup (map fst l) ->
  alookup n (fold_left (fun acc kv => ainsert (fst kv) (f (snd kv)) acc) l m) =
  match alookup n l with Some v => Some (f v) | None => alookup n m end.
Proof.
  induction l as [|[k v] r IH]; intros m n Hnd; cbn [fold_left alookup map fst snd]; [reflexivity|].
  inversion Hnd as [|? ? Hni Hnd']; subst.
  rewrite (IH _ _ Hnd'), alookup_ainsert.
  destruct (String.eqb_spec n k) as [->|Hne]; [|reflexivity].
  rewrite (notin_alookup_None _ _ Hni). reflexivity.
Qed.

Lemma sorted_NoDup ks : sorted_keys ks = true -> NoDup ks.
Proof.
  induction ks as [|k r IH]; intros H; [constructor|].
  apply sorted_cons in H. destruct H as [Hlb Hs]. constructor; [|apply IH; exact Hs].
  intros Hin. specialize (Hlb _ Hin). unfold str_ltb in Hlb. rewrite scmp_refl in Hlb. discriminate.
Qed.

Lemma fold_ainsert_sorted {A} (f : A -> json) (l : list (string * A)) : forall m,
  sorted_keys (map fst m) = true ->
  sorted_keys (map fst (fold_left (fun acc kv => ainsert (fst kv) (f (snd kv)) acc) l m)) = true.
Proof.
  induction l as [|[k v] r IH]; intros m H; cbn [fold_left]; [exact H|].
  apply IH. apply sorted_ainsert. exact H.
Qed.

Lemma obj_of_params_sorted l : sorted_keys (map fst (obj_of_params l)) = true.
Proof. apply fold_ainsert_sorted. reflexivity. Qed.

Lemma obj_of_params_lookup l n :
  NoDup (map fst l) -> alookup n (obj_of_params l) = option_map json_of_lval (alookup n l).
Proof.
  intros H. unfold obj_of_params. rewrite (fold_ainsert_lookup json_of_lval l [] n H).
  destruct (alookup n l); reflexivity.
Qed.

Lemma merge_lookup m o n :
  NoDup (map fst o) ->
  alookup n (merge m o) = match alookup n o with Some j => Some j | None => alookup n m end.
Proof. intros H. unfold merge. apply (fold_ainsert_lookup (fun j => j) o m n H). Qed.

Lemma filter_lookup {A} (f : string * A -> bool) (l : list (string * A)) n :
  NoDup (map fst l) ->
  alookup n (filter f l) = match alookup n l with Some v => if f (n, v) then Some v else None | None => None end.
Proof.
  induction l as [|[k v] r IH]; intros Hnd; cbn [filter alookup map fst]; [reflexivity|].
  inversion Hnd as [|? ? Hni Hnd']; subst.
  destruct (f (k, v)) eqn:Ef; cbn [alookup].
  - destruct (String.eqb_spec n k) as [->|Hne]; [rewrite Ef; reflexivity|apply IH; exact Hnd'].
  - destruct (String.eqb_spec n k) as [->|Hne]; [|apply IH; exact Hnd'].
    rewrite Ef, (IH Hnd'), (notin_alookup_None _ _ Hni). reflexivity.
Qed.

Lemma filter_keys_NoDup {A} (f : string * A -> bool) (l : list (string * A)) :
  NoDup (map fst l) -> NoDup (map fst (filter f l)).
Proof.
  induction l as [|[k v] r IH]; intros Hnd; cbn [filter map fst]; [constructor|].
  inversion Hnd as [|? ? Hni Hnd']; subst.
  destruct (f (k, v)); cbn [map fst]; [|apply IH; exact Hnd'].
  constructor; [|apply IH; exact Hnd'].
  intros Hin. apply Hni. apply in_map_iff in Hin. destruct Hin as ([k' v'] & <- & Hin).
  apply filter_In in Hin. destruct Hin as [Hin _]. apply (in_map fst) in Hin. exact Hin.
Qed.

(** * Parsing what [render] wrote *)

Definition qjson (v : lval) : json :=
  match v with LStr s => JStr s | LBool b => JStr (text_of_bool b) | LMap o => JObj o end.

Lemma unmarshal_ok text o :
  starts_brace text = true \/ has_newline text = true -> unmarshal text (Some o) (Some o) = Ok o.
Proof.
  intros H. destruct text as [|c t]; [destruct H; discriminate|].
  cbn [unmarshal]. destruct (starts_brace (String c t)); [reflexivity|].
  destruct H as [H|H]; [discriminate|]. rewrite H. reflexivity.
Qed.

Lemma parse_parameter_render P yp p v :
  lexical_ok P -> wt_param (p, v) = true ->
  parse_parameter svc_parameter_types p (ptext_of_lval P yp v) = Ok (qjson v).
Proof.
  intros HP H. unfold wt_param, untyped, typed_json in H. cbn [fst snd] in H. unfold parse_parameter.
  destruct v as [s|b|o]; cbn [ptext_of_lval pt_text pt_json pt_yaml qjson].
  - destruct (alookup p svc_parameter_types); [discriminate|reflexivity].
  - destruct (alookup p svc_parameter_types); [discriminate|reflexivity].
  - destruct (alookup p svc_parameter_types) as [t|]; [|discriminate]. rewrite H.
    rewrite unmarshal_ok; [reflexivity|].
    destruct yp; [right; apply (lx_yaml_newline P HP)|left; apply (lx_json_brace P HP)].
Qed.

Lemma count_name_notin P yp p l : ~ In p (map fst l) -> count_name p (pairs_of P yp l) = O.
Proof.
  induction l as [|[k v] r IH]; cbn [pairs_of map fst snd count_name In]; intros H; [reflexivity|].
  destruct (String.eqb_spec p k) as [->|Hne]; [exfalso; apply H; left; reflexivity|].
  apply IH. intros Hin. apply H. right; exact Hin.
Qed.

Lemma count_name_one P yp p l :
  NoDup (map fst l) -> In p (map fst l) -> count_name p (pairs_of P yp l) = 1%nat.
Proof.
  induction l as [|[k v] r IH]; cbn [pairs_of map fst snd count_name In]; intros Hnd Hin; [destruct Hin|].
  inversion Hnd as [|? ? Hni Hnd']; subst.
  destruct (String.eqb_spec p k) as [->|Hne].
  - f_equal. apply (count_name_notin P yp k r Hni).
  - destruct Hin as [->|Hin]; [congruence|]. apply IH; assumption.
Qed.

Lemma parse_pairs_render P yp all : forall l m,
  lexical_ok P -> (forall kv, In kv l -> wt_param kv = true) ->
  (forall p, In p (map fst l) -> count_name p all = 1%nat) ->
  parse_pairs svc_parameter_types all (pairs_of P yp l) m =
  Ok (fold_left (fun acc kv => ainsert (fst kv) (qjson (snd kv)) acc) l m).
Proof.
  induction l as [|[k v] r IH]; intros m HP Hwt Hc; cbn [pairs_of map fst snd parse_pairs fold_left]; [reflexivity|].
  rewrite (Hc k (or_introl eq_refl)). cbn [Nat.eqb].
  rewrite (parse_parameter_render P yp k v HP (Hwt _ (or_introl eq_refl))).
  apply IH; [exact HP| |].
  - intros kv Hin. apply Hwt. right; exact Hin.
  - intros p Hin. apply Hc. right; exact Hin.
Qed.

Lemma parse_pairs_render_all P yp l m :
  lexical_ok P -> NoDup (map fst l) -> forallb wt_param l = true ->
  parse_pairs svc_parameter_types (pairs_of P yp l) (pairs_of P yp l) m =
  Ok (fold_left (fun acc kv => ainsert (fst kv) (qjson (snd kv)) acc) l m).
Proof.
  intros HP Hnd Hwt. apply parse_pairs_render; [exact HP| |].
  - rewrite forallb_forall in Hwt. exact Hwt.
  - intros p Hin. apply count_name_one; assumption.
Qed.

(** * What GetHTTPRequest makes of a rendered request *)

Definition expected_lookup (q : bool) (path : string) (l : list (string * lval)) (n : string) : option json :=
  if String.eqb n "uri" then Some (JStr path)
  else option_map (fun v => if q then qjson v else json_of_lval v) (alookup n l).

Lemma text_nonempty_cases (t : string) (A : Type) (x : A) (f : A) :
  t <> "" -> match t with EmptyString => x | String _ _ => f end = f.
Proof. destruct t; [congruence|reflexivity]. Qed.

Lemma brace_nonempty t : starts_brace t = true -> t <> "".
Proof. intros H ->. discriminate. Qed.
Lemma newline_nonempty t : has_newline t = true -> t <> "".
Proof. intros H ->. discriminate. Qed.

(** a sniffed JSON-or-YAML body carrying object o is merged *)
Lemma body_merge P (yaml : bool) o m1 :
  lexical_ok P ->
  let b := if yaml then yaml_body P o else json_body P o in
  match bt_text b with
  | EmptyString => Err "empty body"
  | String _ _ =>
      if starts_brace (bt_text b) then
        match bt_json b with Some o => Ok (merge m1 o) | None => Err "json" end
      else if has_newline (bt_text b) then
        match bt_yaml b with Some o => Ok (merge m1 o) | None => Err "yaml" end
      else
        match bt_form b with Some l => parse_pairs svc_parameter_types l l m1 | None => Err "form" end
  end = Ok (merge m1 o).
Proof.
  intros HP b. subst b. destruct yaml; cbn [yaml_body json_body bt_text bt_json bt_yaml bt_form].
  - pose proof (lx_yaml_newline P HP o) as Hn.
    rewrite (text_nonempty_cases _ _ _ _ (newline_nonempty _ Hn)).
    destruct (starts_brace (pr_yaml P o)); [reflexivity|]. rewrite Hn. reflexivity.
  - pose proof (lx_json_brace P HP o) as Hb.
    rewrite (text_nonempty_cases _ _ _ _ (brace_nonempty _ Hb)). rewrite Hb. reflexivity.
Qed.

Lemma split_lookup (l : list (string * lval)) n :
  NoDup (map fst l) ->
  match alookup n (obj_of_params (filter (fun kv => is_map (snd kv)) l)) with
  | Some j => Some j
  | None => option_map qjson (alookup n (filter (fun kv => negb (is_map (snd kv))) l))
  end = option_map qjson (alookup n l).
Proof.
  intros Hnd.
  rewrite (obj_of_params_lookup _ n (filter_keys_NoDup _ l Hnd)).
  rewrite !(filter_lookup _ l n Hnd). destruct (alookup n l) as [[s|b|o]|]; reflexivity.
Qed.

Lemma render_lookup P r e :
  lexical_ok P -> well_typed r -> supported r e ->
  exists m q, get_http_request svc_parameter_types (render P r e) = Ok m /\
              forall n, alookup n m = expected_lookup q (vary (e_prefix e) (lr_uri r)) (lr_params r) n.
Proof.
  intros HP (Hnd & Hnu & Hwt & Hnorm & Hnj & Hny) (Hv & Hform).
  destruct (dwim_vary _ _ Hnorm Hv) as [Hdw _].
  apply String.eqb_neq in Hnj. apply String.eqb_neq in Hny.
  unfold names in *.
  set (path := vary (e_prefix e) (lr_uri r)) in *. set (l := lr_params r) in *.
  assert (Hnu' : alookup "uri" l = None) by (apply notin_alookup_None; exact Hnu).
  unfold get_http_request, render. fold path. fold l.
  destruct (e_kind e) eqn:Ek; cbn [rq_path rq_query rq_method rq_body is_post].
  - (* query string *)
    rewrite Hdw, Hnj, Hny. cbn [orb].
    rewrite (parse_pairs_render_all P (e_yaml_params e) l [] HP Hnd Hwt).
    change (String.eqb "GET" "POST") with false. cbv iota.
    eexists; exists true; split; [reflexivity|].
    intros n. unfold expected_lookup. rewrite alookup_ainsert.
    destruct (String.eqb n "uri"); [reflexivity|].
    rewrite (fold_ainsert_lookup qjson l [] n Hnd). destruct (alookup n l); reflexivity.
  - (* form body *)
    rewrite Hdw, Hnj, Hny. cbn [orb parse_pairs]. change (String.eqb "POST" "POST") with true. cbv iota.
    cbn [form_body bt_text bt_json bt_yaml bt_form].
    assert (Hne : pr_form P (map (fun kv => (fst kv, pt_text (snd kv))) (pairs_of P (e_yaml_params e) l)) <> "").
    { apply (lx_form_nonempty P HP). specialize (Hform eq_refl). fold l in Hform.
      destruct l; [congruence|discriminate]. }
    rewrite (text_nonempty_cases _ _ _ _ Hne), (lx_form_nobrace P HP), (lx_form_nonewline P HP).
    rewrite (parse_pairs_render_all P (e_yaml_params e) l _ HP Hnd Hwt).
    eexists; exists true; split; [reflexivity|].
    intros n. unfold expected_lookup. rewrite (fold_ainsert_lookup qjson l _ n Hnd), alookup_ainsert.
    destruct (String.eqb_spec n "uri") as [->|Hne'].
    + rewrite Hnu'. reflexivity.
    + destruct (alookup n l); reflexivity.
  - (* JSON body *)
    rewrite Hdw, Hnj, Hny. cbn [orb parse_pairs]. change (String.eqb "POST" "POST") with true. cbv iota.
    rewrite (body_merge P false (obj_of_params l) _ HP).
    eexists; exists false; split; [reflexivity|].
    intros n. unfold expected_lookup.
    rewrite (merge_lookup _ _ n (sorted_NoDup _ (obj_of_params_sorted l))), (obj_of_params_lookup l n Hnd), alookup_ainsert.
    destruct (String.eqb_spec n "uri") as [->|Hne'].
    + rewrite Hnu'. reflexivity.
    + destruct (alookup n l); reflexivity.
  - (* YAML body *)
    rewrite Hdw, Hnj, Hny. cbn [orb parse_pairs]. change (String.eqb "POST" "POST") with true. cbv iota.
    rewrite (body_merge P true (obj_of_params l) _ HP).
    eexists; exists false; split; [reflexivity|].
    intros n. unfold expected_lookup.
    rewrite (merge_lookup _ _ n (sorted_NoDup _ (obj_of_params_sorted l))), (obj_of_params_lookup l n Hnd), alookup_ainsert.
    destruct (String.eqb_spec n "uri") as [->|Hne'].
    + rewrite Hnu'. reflexivity.
    + destruct (alookup n l); reflexivity.
  - (* scalars in the query string, maps in a JSON body *)
    rewrite Hdw, Hnj, Hny. cbn [orb].
    set (sc := filter (fun kv => negb (is_map (snd kv))) l).
    set (mp := filter (fun kv => is_map (snd kv)) l).
    assert (Hnds : NoDup (map fst sc)) by (apply filter_keys_NoDup; exact Hnd).
    assert (Hwts : forallb wt_param sc = true).
    { apply forallb_forall. intros kv Hin. apply filter_In in Hin. destruct Hin as [Hin _].
      rewrite forallb_forall in Hwt. apply Hwt; exact Hin. }
    rewrite (parse_pairs_render_all P (e_yaml_params e) sc [] HP Hnds Hwts).
    change (String.eqb "POST" "POST") with true. cbv iota.
    rewrite (body_merge P false (obj_of_params mp) _ HP).
    eexists; exists true; split; [reflexivity|].
    intros n. unfold expected_lookup.
    rewrite (merge_lookup _ _ n (sorted_NoDup _ (obj_of_params_sorted mp))), alookup_ainsert.
    rewrite (fold_ainsert_lookup qjson sc [] n Hnds).
    destruct (String.eqb_spec n "uri") as [->|Hne'].
    + unfold mp. rewrite (obj_of_params_lookup _ "uri" (filter_keys_NoDup _ l Hnd)), (filter_lookup _ l "uri" Hnd), Hnu'.
      reflexivity.
    + pose proof (split_lookup l n Hnd) as Hs. fold sc mp in Hs.
      destruct (alookup n (obj_of_params mp)) as [j|]; [exact Hs|].
      destruct (alookup n sc); exact Hs.
  - (* /api/json envelope *)
    change (dwim_uri "/api/json") with "/api/json". cbn [String.eqb Ascii.eqb Bool.eqb orb parse_pairs].
    change (String.eqb "/api/json" "/api/json") with true. cbn [orb].
    change (String.eqb "POST" "POST") with true. cbv iota.
    cbn [json_body bt_json].
    set (o' := ainsert "uri" (JStr path) (obj_of_params l)).
    assert (Hnd' : NoDup (map fst o')) by (apply sorted_NoDup, sorted_ainsert, obj_of_params_sorted).
    assert (Hl : forall n, alookup n (merge [] o') = expected_lookup false path l n).
    { intros n. rewrite (merge_lookup _ _ n Hnd'). unfold o', expected_lookup.
      rewrite alookup_ainsert, (obj_of_params_lookup l n Hnd).
      destruct (String.eqb n "uri"); [reflexivity|]. destruct (alookup n l); reflexivity. }
    rewrite (Hl "uri"). unfold expected_lookup at 1. cbn [String.eqb Ascii.eqb Bool.eqb].
    change (String.eqb "uri" "uri") with true. cbv iota.
    eexists; exists false; split; [reflexivity|exact Hl].
  - (* /api/yaml envelope *)
    change (dwim_uri "/api/yaml") with "/api/yaml".
    change (String.eqb "/api/yaml" "/api/json") with false.
    change (String.eqb "/api/yaml" "/api/yaml") with true. cbn [orb parse_pairs].
    change (String.eqb "POST" "POST") with true. cbv iota.
    cbn [yaml_body bt_yaml].
    set (o' := ainsert "uri" (JStr path) (obj_of_params l)).
    assert (Hnd' : NoDup (map fst o')) by (apply sorted_NoDup, sorted_ainsert, obj_of_params_sorted).
    assert (Hl : forall n, alookup n (merge [] o') = expected_lookup false path l n).
    { intros n. rewrite (merge_lookup _ _ n Hnd'). unfold o', expected_lookup.
      rewrite alookup_ainsert, (obj_of_params_lookup l n Hnd).
      destruct (String.eqb n "uri"); [reflexivity|]. destruct (alookup n l); reflexivity. }
    rewrite (Hl "uri"). unfold expected_lookup at 1.
    change (String.eqb "uri" "uri") with true. cbv iota.
    eexists; exists false; split; [reflexivity|exact Hl].
Qed.

(** * Decoding is independent of the encoding *)

Lemma sees_of_lookup m p v (q : bool) :
  alookup p m = Some (if q then qjson v else json_of_lval v) -> sees m p v.
Proof.
  intros H. destruct v as [s|b|o]; unfold sees, get_string_param, get_bool_param, get_map_param; rewrite H.
  - destruct q; reflexivity.
  - destruct q; [destruct b; reflexivity|reflexivity].
  - destruct q; reflexivity.
Qed.

Lemma decode_of_lookup rq q path uri l m :
  get_http_request svc_parameter_types rq = Ok m ->
  (forall n, alookup n m = expected_lookup q path l n) ->
  dwim_uri path = uri ->
  decode svc_parameter_types rq = Ok (uri, m).
Proof.
  intros Hg Hl Hd. unfold decode, uri_of. rewrite Hg, (Hl "uri"). unfold expected_lookup.
  change (String.eqb "uri" "uri") with true. cbv iota. rewrite Hd. reflexivity.
Qed.

Theorem decode_render : decode_render_statement.
Proof.
  intros P r e HP Hwt Hs.
  destruct (render_lookup P r e HP Hwt Hs) as (m & q & Hg & Hl).
  destruct Hwt as (Hnd & Hnu & Hwt & Hnorm & Hnj & Hny). destruct Hs as (Hv & Hform).
  destruct (dwim_vary _ _ Hnorm Hv) as [Hdw _].
  exists m. split; [|split].
  - eapply decode_of_lookup; eassumption.
  - intros p v Hin. apply (sees_of_lookup m p v q). rewrite Hl. unfold expected_lookup.
    destruct (String.eqb_spec p "uri") as [->|Hne].
    + exfalso. apply Hnu. apply (in_map fst) in Hin. exact Hin.
    + rewrite (NoDup_In_alookup p v _ Hnd Hin). reflexivity.
  - intros p Hni Hne. rewrite Hl. unfold expected_lookup.
    apply String.eqb_neq in Hne. rewrite Hne. rewrite (notin_alookup_None _ _ Hni). reflexivity.
Qed.

Theorem decode_encoding_independent : decode_encoding_independent_statement.
Proof.
  intros P r e1 e2 HP Hwt H1 H2.
  destruct (decode_render P r e1 HP Hwt H1) as (m1 & Hd1 & Hs1 & Ha1).
  destruct (decode_render P r e2 HP Hwt H2) as (m2 & Hd2 & Hs2 & Ha2).
  exists (lr_uri r), m1, m2. repeat split; auto.
Qed.

(** the hypotheses are satisfiable: a printer family, a request, two encodings *)
Definition example_printers : printers :=
  {| pr_json := fun _ => "{}"; pr_yaml := fun _ => String nl ""; pr_form := fun l => match l with [] => "" | _ :: _ => "=" end |}.

Example lexical_ok_satisfiable : lexical_ok example_printers.
Proof.
  constructor; cbn; intros; try reflexivity.
  - destruct l; [congruence|discriminate].
  - destruct l; reflexivity.
  - destruct l; reflexivity.
Qed.

Definition example_request : logical_request :=
  {| lr_uri := "/api/loc/facts/search";
     lr_params := [("location", LStr "here"); ("pattern", LMap [("a", JStr "?x")]); ("inherited", LBool true)] |}.

Example example_request_well_typed : well_typed example_request /\ fits_signature example_request = true.
Proof.
  split; [|vm_compute; reflexivity].
  unfold well_typed, names. cbn [example_request lr_params lr_uri map fst].
  repeat split; try (vm_compute; reflexivity); try discriminate.
  - repeat constructor; cbn; intuition discriminate.
  - cbn. intuition discriminate.
Qed.

(** * The service performs the direct call *)

Definition val_agrees (v : lval) (j : json) : Prop := j = json_of_lval v \/ j = qjson v.

Definition agrees (skip : list string) (m : params) (r : logical_request) : Prop :=
  forall n, ~ In n skip ->
    match lparam n r with
    | Some v => exists j, alookup n m = Some j /\ val_agrees v j
    | None => alookup n m = None
    end.

Definition gkind (g : string) : lkind :=
  if String.eqb g "getBoolParam" then KBool else if String.eqb g "getMapParam" then KMap else KStr.
Definition known_getter (g : string) : bool :=
  String.eqb g "GetStringParam" || String.eqb g "getBoolParam" || String.eqb g "getMapParam".
Definition lview (k : lkind) (n : string) (r : logical_request) : json :=
  match k with KStr => lstr n r | KBool => lbool n r | KMap => lmap n r end.
Definition present (n : string) (r : logical_request) : bool :=
  match lparam n r with Some _ => true | None => false end.

Lemma run_getter_agrees skip m r g n req :
  agrees skip m r -> ~ In n skip -> known_getter g = true ->
  sig_param_ok r (n, gkind g, req) = true ->
  run_getter g n req m = (lview (gkind g) n r, present n r, None).
Proof.
  intros Ha Hn Hk Hs. specialize (Ha n Hn). unfold sig_param_ok in Hs.
  unfold run_getter, gkind, known_getter, lview, present, lstr, lbool, lmap in *.
  destruct (String.eqb g "GetStringParam") eqn:E1.
  { apply String.eqb_eq in E1. subst g. cbn [String.eqb Ascii.eqb Bool.eqb] in *.
    change (String.eqb "GetStringParam" "getBoolParam") with false in *.
    change (String.eqb "GetStringParam" "getMapParam") with false in *. cbv iota in *.
    unfold get_string_param.
    destruct (lparam n r) as [v|].
    - destruct Ha as (j & -> & Hj). destruct v; try discriminate.
      destruct Hj as [->| ->]; reflexivity.
    - rewrite Ha. destruct req; [discriminate|reflexivity]. }
  destruct (String.eqb g "getBoolParam") eqn:E2.
  { unfold get_bool_param.
    destruct (lparam n r) as [v|].
    - destruct Ha as (j & -> & Hj). destruct v; try discriminate.
      destruct Hj as [->| ->]; [reflexivity|]. destruct b; reflexivity.
    - rewrite Ha. destruct req; [discriminate|reflexivity]. }
  destruct (String.eqb g "getMapParam") eqn:E3; [|discriminate].
  unfold get_map_param.
  destruct (lparam n r) as [v|].
  - destruct Ha as (j & -> & Hj). destruct v; try discriminate.
    destruct Hj as [->| ->]; reflexivity.
  - rewrite Ha. destruct req; [discriminate|reflexivity].
Qed.

Definition getter_ok (skip : list string) (r : logical_request) (s : getter_spec) : Prop :=
  let '(g, p, req, _) := s in
  ~ In p skip /\ known_getter g = true /\ sig_param_ok r (p, gkind g, req) = true.

Definition binding_of (r : logical_request) (s : getter_spec) : string * (json * bool) :=
  let '(g, p, _, _) := s in (p, (lview (gkind g) p r, present p r)).

Lemma run_getters_agrees skip m r gs : forall acc,
  agrees skip m r -> Forall (getter_ok skip r) gs ->
  run_getters gs m acc = Ok (acc ++ map (binding_of r) gs)%list.
Proof.
  induction gs as [|[[[g p] req] chk] gs IH]; intros acc Ha Hf; cbn [run_getters map].
  - rewrite app_nil_r. reflexivity.
  - inversion Hf as [|? ? Hh Hf']; subst. unfold getter_ok in Hh. destruct Hh as (Hn & Hk & Hs).
    rewrite (run_getter_agrees skip m r g p req Ha Hn Hk Hs).
    rewrite (IH _ Ha Hf'). cbn [binding_of]. rewrite <- app_assoc. reflexivity.
Qed.

Lemma dispatch_plain_agrees skip uri gs m r :
  alookup uri svc_loc_getters = Some gs ->
  agrees skip m r -> Forall (getter_ok skip r) gs ->
  dispatch_plain uri m = build_plan uri (map (binding_of r) gs) m.
Proof.
  intros Hl Ha Hf. unfold dispatch_plain. rewrite Hl, (run_getters_agrees skip m r gs [] Ha Hf). reflexivity.
Qed.

Lemma agrees_of_lookup q path r m :
  NoDup (names r) ->
  (forall n, alookup n m = expected_lookup q path (lr_params r) n) -> agrees ["uri"] m r.
Proof.
  intros Hnd Hl n Hn. rewrite Hl. unfold expected_lookup, lparam.
  destruct (String.eqb_spec n "uri") as [->|Hne]; [exfalso; apply Hn; left; reflexivity|].
  destruct (alookup n (lr_params r)) as [v|]; [|reflexivity].
  eexists; split; [reflexivity|]. destruct q; [right|left]; reflexivity.
Qed.

Lemma agrees_insert skip k j m r : agrees skip m r -> agrees (k :: skip) (ainsert k j m) r.
Proof.
  intros Ha n Hn. rewrite alookup_ainsert.
  destruct (String.eqb_spec n k) as [->|Hne]; [exfalso; apply Hn; left; reflexivity|].
  apply Ha. intros Hin. apply Hn. right; exact Hin.
Qed.

Lemma agrees_weaken skip skip' m r : (forall n, In n skip -> In n skip') -> agrees skip m r -> agrees skip' m r.
Proof. intros Hs Ha n Hn. apply Ha. intros Hin. apply Hn, Hs, Hin. Qed.

(** a name outside the signature is absent *)
Lemma extras_absent r allowed n :
  forallb (fun n => mem_str n allowed) (names r) = true -> mem_str n allowed = false -> lparam n r = None.
Proof.
  intros Hf Hn. unfold lparam. apply notin_alookup_None. intros Hin.
  rewrite forallb_forall in Hf. rewrite (Hf _ Hin) in Hn. discriminate.
Qed.

Lemma absent_sig_ok r n k : lparam n r = None -> sig_param_ok r (n, k, false) = true.
Proof. intros H. unfold sig_param_ok. rewrite H. reflexivity. Qed.

Lemma str_view r n req : sig_param_ok r (n, KStr, req) = true ->
  match lparam n r with Some (LStr _) | None => True | _ => False end.
Proof. unfold sig_param_ok. destruct (lparam n r) as [[]|]; intros H; try exact I; discriminate. Qed.

(** * dispatch = direct call *)

Lemma fits_inv r : fits_signature r = true ->
  exists sg, In (lr_uri r, sg) signatures /\ forallb (sig_param_ok r) sg = true /\
             forallb (fun n => mem_str n (map (fun s => fst (fst s)) sg)) (names r) = true.
Proof.
  unfold fits_signature. destruct (alookup (lr_uri r) signatures) as [sg|] eqn:E; [|discriminate].
  intros H. apply andb_prop in H. exists sg. split; [apply alookup_In; exact E|exact H].
Qed.

Ltac eval_lits :=
  repeat match goal with
  | |- context [String.eqb ?a ?b] =>
      let v := eval vm_compute in (String.eqb a b) in
      match v with true => idtac | false => idtac end;
      change (String.eqb a b) with v; cbv iota
  | |- context [has_prefix ?a ?b] =>
      let v := eval vm_compute in (has_prefix a b) in
      match v with true => idtac | false => idtac end;
      change (has_prefix a b) with v; cbv iota
  | |- context [gkind ?a] =>
      let v := eval vm_compute in (gkind a) in
      match v with KStr => idtac | KBool => idtac | KMap => idtac end;
      change (gkind a) with v; cbv iota
  end.

Ltac getter_ok_tac Hx :=
  unfold getter_ok; split; [cbn [In]; intuition discriminate|split; [reflexivity|]];
  eval_lits; first [assumption | apply absent_sig_ok; eapply extras_absent; [exact Hx|reflexivity]].

Ltac plain_case Ha Hx :=
  erewrite (dispatch_plain_agrees ["uri"]); [|reflexivity|exact Ha|repeat (constructor; [getter_ok_tac Hx|]); constructor];
  unfold build_plan; cbn [map binding_of]; eval_lits; unfold bval, bhave; cbn [alookup]; eval_lits; cbn [lview].

Lemma dispatch_direct m r :
  agrees ["uri"] m r -> fits_signature r = true -> dispatch (lr_uri r) m = direct_call r.
Proof.
  intros Ha Hf. destruct (fits_inv r Hf) as (sg & Hin & Hs & Hx).
  cbn [signatures In] in Hin.
  repeat (destruct Hin as [Hin|Hin];
          [inversion Hin as [[Hu Hsg]]; subst sg; clear Hin;
           cbn [forallb] in Hs; repeat (apply andb_prop in Hs; destruct Hs as [? Hs]); clear Hs;
           unfold dispatch, direct_call; rewrite <- Hu; eval_lits|]); [..|destruct Hin].
  all: try (plain_case Ha Hx; reflexivity).
  - (* replace *)
    match goal with |- context [alookup ?u svc_loc_getters] =>
      let v := eval vm_compute in (alookup u svc_loc_getters) in change (alookup u svc_loc_getters) with v end.
    cbv iota.
    rewrite (run_getters_agrees ["uri"] m r _ [] Ha);
      [|repeat (constructor; [getter_ok_tac Hx|]); constructor].
    cbv iota.
    set (m1 := ainsert "take" (JBool true) (ainsert "uri" (JStr "/api/loc/facts/search") m)).
    set (m2 := ainsert "uri" (JStr "/api/loc/facts/add") m1).
    assert (Ha1 : agrees ["take"; "uri"; "uri"] m1 r) by (apply agrees_insert, agrees_insert, Ha).
    assert (Ha2 : agrees ["uri"; "take"; "uri"; "uri"] m2 r) by (apply agrees_insert, Ha1).
    erewrite (dispatch_plain_agrees ["take"; "uri"; "uri"] _ _ m1);
      [|reflexivity|exact Ha1|repeat (constructor; [getter_ok_tac Hx|]); constructor].
    erewrite (dispatch_plain_agrees ["uri"; "take"; "uri"; "uri"] _ _ m2);
      [|reflexivity|exact Ha2|repeat (constructor; [getter_ok_tac Hx|]); constructor].
    unfold build_plan; cbn [map binding_of]; eval_lits; unfold bval, bhave; cbn [alookup]; eval_lits; cbn [lview].
    unfold m1. rewrite alookup_ainsert_same. reflexivity.
  - (* search *)
    plain_case Ha Hx.
    assert (Ht : lparam "take" r = None) by (eapply extras_absent; [exact Hx|reflexivity]).
    pose proof (Ha "take" ltac:(cbn [In]; intuition discriminate)) as Hk. rewrite Ht in Hk. rewrite Hk. reflexivity.
  - (* take *)
    set (m1 := ainsert "take" (JBool true) (ainsert "uri" (JStr "/api/loc/facts/search") m)).
    assert (Ha1 : agrees ["take"; "uri"; "uri"] m1 r) by (apply agrees_insert, agrees_insert, Ha).
    erewrite (dispatch_plain_agrees ["take"; "uri"; "uri"] _ _ m1);
      [|reflexivity|exact Ha1|repeat (constructor; [getter_ok_tac Hx|]); constructor].
    unfold build_plan; cbn [map binding_of]; eval_lits; unfold bval, bhave; cbn [alookup]; eval_lits; cbn [lview].
    unfold m1. rewrite alookup_ainsert_same. reflexivity.
  - (* parents *)
    plain_case Ha Hx.
    match goal with Hs : sig_param_ok r ("set", KStr, false) = true |- _ => pose proof (str_view r "set" false Hs) as Hv end.
    unfold present, lstr, lparam in *. destruct (alookup "set" (lr_params r)) as [[]|]; try contradiction; reflexivity.
  - (* util/js *)
    plain_case Ha Hx.
    assert (He : lparam "encoding" r = None) by (eapply extras_absent; [exact Hx|reflexivity]).
    assert (Hl : lparam "libraries" r = None) by (eapply extras_absent; [exact Hx|reflexivity]).
    pose proof (Ha "libraries" ltac:(cbn [In]; intuition discriminate)) as Hk. rewrite Hl in Hk.
    unfold present. rewrite He. unfold libraries_of. rewrite Hk. reflexivity.
Qed.

Lemma direct_call_ok r : fits_signature r = true -> exists p, direct_call r = Ok p.
Proof.
  intros Hf. destruct (fits_inv r Hf) as (sg & Hin & Hs & Hx).
  cbn [signatures In] in Hin.
  repeat (destruct Hin as [Hin|Hin];
          [inversion Hin as [[Hu Hsg]]; clear Hin; unfold direct_call; rewrite <- Hu; eval_lits;
           try (eexists; reflexivity)|]); [|destruct Hin].
  destruct (lparam "set" r) as [[]|]; eexists; reflexivity.
Qed.

Lemma signature_uris_plain r :
  fits_signature r = true ->
  mem_str (lr_uri r) svc_serve_uris = false /\ lr_uri r <> "/api/sys/util/batch".
Proof.
  intros Hf. destruct (fits_inv r Hf) as (sg & Hin & _ & _).
  assert (H : forallb (fun e => negb (mem_str (fst e) svc_serve_uris) && negb (String.eqb (fst e) "/api/sys/util/batch"))
                      signatures = true) by (vm_compute; reflexivity).
  rewrite forallb_forall in H. specialize (H _ Hin). cbn [fst] in H.
  apply andb_prop in H. destruct H as [H1 H2]. apply negb_true_iff in H1. apply negb_true_iff in H2.
  apply String.eqb_neq in H2. split; assumption.
Qed.

Theorem service_performs_direct_call : service_performs_direct_call_statement.
Proof.
  intros P r e HP Hwt Hs Hf.
  destruct (render_lookup P r e HP Hwt Hs) as (m & q & Hg & Hl).
  pose proof Hwt as (Hnd & Hnu & _ & Hnorm & _ & _). destruct Hs as (Hv & _).
  destruct (dwim_vary _ _ Hnorm Hv) as [Hdw _].
  pose proof (decode_of_lookup _ _ _ _ _ _ Hg Hl Hdw) as Hd.
  destruct (signature_uris_plain r Hf) as [Hsv Hb].
  destruct (direct_call_ok r Hf) as [p Hp]. exists p. split; [exact Hp|].
  rewrite (serve_of_decode _ _ _ Hd Hsv Hb).
  rewrite (dispatch_direct m r (agrees_of_lookup q _ r m Hnd Hl) Hf), Hp. reflexivity.
Qed.

(** * Inside a batch *)

Lemma batch_elems_direct rs :
  (forall r, In r rs -> well_typed r /\ fits_signature r = true) ->
  exists ps, Forall2 (fun r p => direct_call r = Ok p) rs ps /\
             batch_elems (map batch_elem rs) = Ok (map BPlan ps).
Proof.
  induction rs as [|r rs IH]; intros H.
  - exists []. split; [constructor|reflexivity].
  - destruct (H r (or_introl eq_refl)) as [(Hnd & Hnu & _ & Hnorm & _ & _) Hf].
    destruct IH as (ps & Hps & Hb); [intros r' Hin; apply H; right; exact Hin|].
    destruct (direct_call_ok r Hf) as [p Hp]. exists (p :: ps). split; [constructor; assumption|].
    cbn [map batch_elems batch_elem].
    set (o := ainsert "uri" (JStr (lr_uri r)) (obj_of_params (lr_params r))).
    assert (Hl : forall n, alookup n o = expected_lookup false (lr_uri r) (lr_params r) n).
    { intros n. unfold o, expected_lookup. rewrite alookup_ainsert, (obj_of_params_lookup _ n Hnd).
      destruct (String.eqb n "uri"); [reflexivity|]. destruct (alookup n (lr_params r)); reflexivity. }
    rewrite (Hl "uri"). unfold expected_lookup at 1. change (String.eqb "uri" "uri") with true. cbv iota.
    assert (Hdw : dwim_uri (lr_uri r) = lr_uri r).
    { apply (proj1 (dwim_vary (lr_uri r) PAsIs Hnorm eq_refl)). }
    rewrite Hdw, (dispatch_direct o r (agrees_of_lookup false _ r o Hnd Hl) Hf), Hp, Hb. reflexivity.
Qed.

Theorem batch_performs_direct_calls : batch_performs_direct_calls_statement.
Proof.
  intros P rs HP H. destruct (batch_elems_direct rs H) as (ps & Hps & Hb).
  exists ps. split; [exact Hps|].
  unfold serve, render_batch, get_http_request, is_post. cbn [rq_path rq_query rq_method rq_body parse_pairs].
  change (dwim_uri "/api/sys/util/batch") with "/api/sys/util/batch".
  change (String.eqb "/api/sys/util/batch" "/api/json") with false.
  change (String.eqb "/api/sys/util/batch" "/api/yaml") with false. cbn [orb].
  change (String.eqb "POST" "POST") with true. cbv iota.
  rewrite (body_merge P false _ _ HP).
  cbn [merge fold_left fst snd].
  change (ainsert "requests" (JArr (map batch_elem rs)) (ainsert "uri" (JStr "/api/sys/util/batch") []))
    with [("requests", JArr (map batch_elem rs)); ("uri", JStr "/api/sys/util/batch")].
  unfold uri_of, process_request. cbn [alookup].
  change (String.eqb "uri" "requests") with false. change (String.eqb "uri" "uri") with true. cbv iota.
  change (dwim_uri "/api/sys/util/batch") with "/api/sys/util/batch".
  change (mem_str "/api/sys/util/batch" svc_serve_uris) with false. cbv iota.
  change (String.eqb "/api/sys/util/batch" "/api/sys/util/batch") with true. cbv iota.
  change (String.eqb "requests" "requests") with true. cbv iota.
  rewrite Hb. reflexivity.
Qed.
(** * ServeHTTP never panics *)

Lemma parse_parameter_no_panic p t w : parse_parameter svc_parameter_types p t <> Panic w.
Proof.
  unfold parse_parameter. destruct (alookup p svc_parameter_types) as [typ|]; [|discriminate].
  destruct (String.eqb typ "json").
  - unfold unmarshal. destruct (pt_text t) as [|c s]; [discriminate|].
    destruct (starts_brace (String c s)); [destruct (pt_json t); discriminate|].
    destruct (has_newline (String c s)); [destruct (pt_yaml t); discriminate|discriminate].
  - destruct (String.eqb typ "int"); [destruct (pt_int t); discriminate|discriminate].
Qed.

Lemma parse_pairs_no_panic all l : forall m w, parse_pairs svc_parameter_types all l m <> Panic w.
Proof.
  induction l as [|[p t] r IH]; intros m w; cbn [parse_pairs]; [discriminate|].
  destruct (Nat.eqb (count_name p all) 1); [|discriminate].
  destruct (parse_parameter svc_parameter_types p t) as [v|e|w'|] eqn:E; try discriminate.
  - apply IH.
  - exfalso. exact (parse_parameter_no_panic _ _ _ E).
Qed.

Lemma get_no_panic rq w : get_http_request svc_parameter_types rq <> Panic w.
Proof.
  unfold get_http_request. destruct (rq_query rq) as [l|]; [|discriminate].
  destruct (parse_pairs svc_parameter_types l l []) as [m0|e|w0|] eqn:Ep; try discriminate.
  - destruct (_ || _).
    + destruct (is_post rq); [|discriminate].
      destruct (if String.eqb (dwim_uri (rq_path rq)) "/api/json" then bt_json (rq_body rq) else bt_yaml (rq_body rq));
        [|discriminate].
      destruct (alookup "uri" _) as [[]|]; discriminate.
    + destruct (is_post rq); [|discriminate].
      destruct (bt_text (rq_body rq)) as [|c s]; [discriminate|].
      destruct (starts_brace (String c s)); [destruct (bt_json (rq_body rq)); discriminate|].
      destruct (has_newline (String c s)); [destruct (bt_yaml (rq_body rq)); discriminate|].
      destruct (bt_form (rq_body rq)) as [fl|]; [|discriminate]. apply parse_pairs_no_panic.
  - exfalso. exact (parse_pairs_no_panic _ _ _ _ Ep).
Qed.

(** dispatch never panics *)
Lemma run_getters_no_panic gs : forall m acc w, run_getters gs m acc <> Panic w.
Proof.
  induction gs as [|[[[g p] req] chk] gs IH]; intros m acc w; cbn [run_getters]; [discriminate|].
  destruct (run_getter g p req m) as [[v h] [e|]]; [destruct chk; [discriminate|apply IH]|apply IH].
Qed.

Lemma build_plan_no_panic uri b m w : build_plan uri b m <> Panic w.
Proof.
  unfold build_plan.
  repeat match goal with |- (if ?c then _ else _) <> _ => destruct c; try discriminate end.
  - unfold libraries_of. destruct (alookup "libraries" m) as [[]|]; try discriminate.
    destruct (all_strs l); discriminate.
Qed.

Lemma dispatch_plain_no_panic uri m w : dispatch_plain uri m <> Panic w.
Proof.
  unfold dispatch_plain. destruct (alookup uri svc_loc_getters) as [gs|]; [|discriminate].
  destruct (run_getters gs m []) eqn:E; try discriminate.
  - apply build_plan_no_panic.
  - exfalso. exact (run_getters_no_panic _ _ _ _ E).
Qed.

Lemma dispatch_no_panic uri m w : dispatch uri m <> Panic w.
Proof.
  unfold dispatch.
  destruct (String.eqb uri "/api/loc/facts/take"); [apply dispatch_plain_no_panic|].
  destruct (String.eqb uri "/api/loc/facts/replace").
  { destruct (alookup uri svc_loc_getters) as [gs|]; [|discriminate].
    destruct (run_getters gs m []) eqn:Eg; try discriminate.
    - destruct (dispatch_plain "/api/loc/facts/search" _) eqn:E1; try discriminate.
      + destruct (dispatch_plain "/api/loc/facts/add" _) eqn:E2; try discriminate.
        exfalso. exact (dispatch_plain_no_panic _ _ _ E2).
      + exfalso. exact (dispatch_plain_no_panic _ _ _ E1).
    - exfalso. exact (run_getters_no_panic _ _ _ _ Eg). }
  destruct (has_prefix "/api/loc/" uri); [apply dispatch_plain_no_panic|].
  destruct (mem_str uri svc_process_uris); discriminate.
Qed.

Lemma batch_elems_no_panic xs w : batch_elems xs <> Panic w.
Proof.
  induction xs as [|x xs IH]; cbn [batch_elems]; [discriminate|].
  destruct x as [| | | | |o]; try (destruct (batch_elems xs); try discriminate; exact IH).
  destruct (alookup "uri" o) as [j|].
  - destruct j as [| | |s| |]; try (destruct (batch_elems xs); try discriminate; exact IH).
    destruct (dispatch (dwim_uri s) o) eqn:Ed; try discriminate;
      try (destruct (batch_elems xs); try discriminate; exact IH).
    exfalso. exact (dispatch_no_panic _ _ _ Ed).
  - destruct (batch_elems xs); try discriminate; exact IH.
Qed.

Theorem serve_never_panics : serve_never_panics_statement.
Proof.
  intros rq w. unfold serve.
  destruct (get_http_request svc_parameter_types rq) as [m|e|w0|] eqn:Eg; try discriminate.
  - unfold uri_of. destruct (alookup "uri" m) as [[| | |s| |]|] eqn:Eu; try discriminate.
    destruct (mem_str (dwim_uri s) svc_serve_uris); [discriminate|].
    unfold process_request. rewrite Eu.
    destruct (String.eqb (dwim_uri s) "/api/sys/util/batch").
    + destruct (alookup "requests" m) as [[| | | |xs|]|]; try discriminate.
      destruct (batch_elems xs) eqn:Eb; try discriminate.
      exfalso. exact (batch_elems_no_panic _ _ Eb).
    + destruct (dispatch (dwim_uri s) m) eqn:Ed; try discriminate.
      exfalso. exact (dispatch_no_panic _ _ _ Ed).
  - exfalso. exact (get_no_panic _ _ Eg).
Qed.

Lemma parse_parameter_no_oof p t : parse_parameter svc_parameter_types p t <> OutOfFuel.
Proof.
  unfold parse_parameter. destruct (alookup p svc_parameter_types) as [typ|]; [|discriminate].
  destruct (String.eqb typ "json").
  - unfold unmarshal. destruct (pt_text t) as [|c s]; [discriminate|].
    destruct (starts_brace (String c s)); [destruct (pt_json t); discriminate|].
    destruct (has_newline (String c s)); [destruct (pt_yaml t); discriminate|discriminate].
  - destruct (String.eqb typ "int"); [destruct (pt_int t); discriminate|discriminate].
Qed.

Lemma parse_pairs_no_oof all l : forall m, parse_pairs svc_parameter_types all l m <> OutOfFuel.
Proof.
  induction l as [|[p t] r IH]; intros m; cbn [parse_pairs]; [discriminate|].
  destruct (Nat.eqb (count_name p all) 1); [|discriminate].
  destruct (parse_parameter svc_parameter_types p t) as [v|e|w'|] eqn:E; try discriminate.
  - apply IH.
  - exfalso. exact (parse_parameter_no_oof _ _ E).
Qed.

Lemma parse_pairs_empty_typed all l : forall m,
  has_empty_typed (Some l) = true -> exists e, parse_pairs svc_parameter_types all l m = Err e.
Proof.
  induction l as [|[p t] r IH]; intros m H; cbn [has_empty_typed existsb fst snd] in H; [discriminate|].
  cbn [parse_pairs]. destruct (Nat.eqb (count_name p all) 1); [|eexists; reflexivity].
  apply orb_prop in H. destruct H as [H|H].
  - apply andb_prop in H. destruct H as [H1 H2]. apply String.eqb_eq in H2.
    unfold parse_parameter, typed_json in *. destruct (alookup p svc_parameter_types) as [typ|]; [|discriminate].
    rewrite H1, H2. cbn [unmarshal]. eexists; reflexivity.
  - destruct (parse_parameter svc_parameter_types p t) as [v|e|w|] eqn:E.
    + apply IH. exact H.
    + eexists; reflexivity.
    + exfalso. exact (parse_parameter_no_panic _ _ _ E).
    + exfalso. exact (parse_parameter_no_oof _ _ E).
Qed.

Theorem empty_inputs_are_400 : empty_inputs_are_400_statement.
Proof.
  intros rq H. unfold serve.
  assert (G : exists e, get_http_request svc_parameter_types rq = Err e).
  { unfold get_http_request. destruct H as [H|H].
    - unfold in_D24 in H. apply andb_prop in H. destruct H as [H Ht]. apply andb_prop in H. destruct H as [Hp He].
      apply negb_true_iff in He. apply String.eqb_eq in Ht. unfold is_envelope in He.
      destruct (rq_query rq) as [l|]; [|eexists; reflexivity].
      destruct (parse_pairs svc_parameter_types l l []) as [m0|e|w0|] eqn:Ep.
      + rewrite He, Hp, Ht. eexists; reflexivity.
      + eexists; reflexivity.
      + exfalso. exact (parse_pairs_no_panic _ _ _ _ Ep).
      + exfalso. exact (parse_pairs_no_oof _ _ _ Ep).
    - unfold in_D61 in H. apply orb_prop in H. destruct H as [H|H].
      + destruct (rq_query rq) as [l|]; [|eexists; reflexivity].
        destruct (parse_pairs_empty_typed l l [] H) as [e ->]. eexists; reflexivity.
      + apply andb_prop in H. destruct H as [Hf H]. unfold form_sniffed in Hf.
        apply andb_prop in Hf. destruct Hf as [Hf Hn]. apply andb_prop in Hf. destruct Hf as [Hf Hb].
        apply andb_prop in Hf. destruct Hf as [Hf Ht]. apply andb_prop in Hf. destruct Hf as [Hp He].
        apply negb_true_iff in Hn. apply negb_true_iff in Hb. apply negb_true_iff in Ht. apply negb_true_iff in He.
        unfold is_envelope in He.
        destruct (rq_query rq) as [l|]; [|eexists; reflexivity].
        destruct (parse_pairs svc_parameter_types l l []) as [m0|e|w0|] eqn:Ep.
        * rewrite He, Hp. destruct (bt_text (rq_body rq)) as [|c s]; [discriminate|].
          rewrite Hb, Hn. destruct (bt_form (rq_body rq)) as [fl|]; [|discriminate].
          destruct (parse_pairs_empty_typed fl fl (ainsert "uri" (JStr (rq_path rq)) m0) H) as [e ->]. eexists; reflexivity.
        * eexists; reflexivity.
        * exfalso. exact (parse_pairs_no_panic _ _ _ _ Ep).
        * exfalso. exact (parse_pairs_no_oof _ _ _ Ep). }
  destruct G as [e ->]. eexists; reflexivity.
Qed.

(** * Counterexamples (findings) and examples *)

(** * The composite operations report the errors of their inner requests *)

Lemma run_getters_no_oof gs : forall m acc, run_getters gs m acc <> OutOfFuel.
Proof.
  induction gs as [|[[[g p] req] chk] gs IH]; intros m acc; cbn [run_getters]; [discriminate|].
  destruct (run_getter g p req m) as [[v h] [e|]]; [destruct chk; [discriminate|apply IH]|apply IH].
Qed.

Lemma run_getter_err_bad g p req m v h e :
  known_getter g = true ->
  run_getter g p req m = (v, h, Some e) -> bad_for g req (alookup p m) = true.
Proof.
  unfold known_getter. intros Hk. revert Hk. unfold run_getter, bad_for, get_string_param, get_bool_param, get_map_param.
  destruct (String.eqb g "GetStringParam").
  { intros _. destruct (alookup p m) as [j|]; [|destruct req; intros H; inversion H; reflexivity].
    destruct j; try (intros _; reflexivity); try (intros H; discriminate H).
    destruct (join_strs l) eqn:Ej; [intros H; discriminate H|intros _].
    destruct (all_strs l) eqn:Ea; [|reflexivity].
    destruct (join_strs_all _ Ea) as [s' Hs]. rewrite Hs in Ej. discriminate. }
  destruct (String.eqb g "getBoolParam").
  { intros _. destruct (alookup p m) as [j|]; [|destruct req; intros H; inversion H; reflexivity].
    destruct j; try (intros _; reflexivity); intros H; discriminate H. }
  destruct (String.eqb g "getMapParam").
  { intros _. destruct (alookup p m) as [j|]; [|destruct req; intros H; inversion H; reflexivity].
    destruct j; try (intros _; reflexivity); intros H; discriminate H. }
  discriminate.
Qed.

Lemma run_getters_err_inv gs : forall m acc e,
  forallb (fun s : getter_spec => known_getter (fst (fst (fst s)))) gs = true ->
  run_getters gs m acc = Err e ->
  exists g p req, In (g, p, req, true) gs /\ bad_for g req (alookup p m) = true.
Proof.
  induction gs as [|[[[g p] req] chk] gs IH]; intros m acc e Hk; cbn [run_getters]; [discriminate|].
  cbn [forallb fst] in Hk. apply andb_prop in Hk. destruct Hk as [Hk Hks]. specialize (IH m).
  destruct (run_getter g p req m) as [[v h] [e'|]] eqn:Er.
  - destruct chk.
    + intros _. exists g, p, req. split; [left; reflexivity|eapply run_getter_err_bad; [exact Hk|exact Er]].
    + intros H. destruct (IH _ _ Hks H) as (g' & p' & req' & Hin & Hb). exists g', p', req'. split; [right; exact Hin|exact Hb].
  - intros H. destruct (IH _ _ Hks H) as (g' & p' & req' & Hin & Hb). exists g', p', req'. split; [right; exact Hin|exact Hb].
Qed.

Lemma inner_lookup p m u1 u2 :
  p <> "uri" -> p <> "take" ->
  alookup p (ainsert "uri" (JStr u2) (ainsert "take" (JBool true) (ainsert "uri" (JStr u1) m))) = alookup p m /\
  alookup p (ainsert "take" (JBool true) (ainsert "uri" (JStr u1) m)) = alookup p m.
Proof.
  intros H1 H2. rewrite !alookup_ainsert.
  apply String.eqb_neq in H1. apply String.eqb_neq in H2. rewrite H1, H2. split; reflexivity.
Qed.

Lemma search_rejects g p req m :
  In (g, p, req, true) (inner_getters "/api/loc/facts/search") -> bad_for g req (alookup p m) = true ->
  exists e, dispatch_plain "/api/loc/facts/search"
              (ainsert "take" (JBool true) (ainsert "uri" (JStr "/api/loc/facts/search") m)) = Err e.
Proof.
  intros Hin Hbad. unfold dispatch_plain.
  assert (Hl : alookup "/api/loc/facts/search" svc_loc_getters = Some (inner_getters "/api/loc/facts/search")) by reflexivity.
  rewrite Hl.
  assert (Hp : p <> "uri" /\ p <> "take").
  { vm_compute in Hin. repeat (destruct Hin as [Hin|Hin]; [inversion Hin; split; discriminate|]). destruct Hin. }
  destruct Hp as [Hp1 Hp2].
  rewrite <- (proj2 (inner_lookup p m "/api/loc/facts/search" "" Hp1 Hp2)) in Hbad.
  destruct (run_getters_bad _ _ [] g p req Hin Hbad) as [e ->]. eexists; reflexivity.
Qed.

Lemma replace_own_rejects g p req m :
  In (g, p, req, true) (inner_getters "/api/loc/facts/replace") -> bad_for g req (alookup p m) = true ->
  exists e, dispatch "/api/loc/facts/replace" m = Err e.
Proof.
  intros Hin Hbad. unfold dispatch.
  change (String.eqb "/api/loc/facts/replace" "/api/loc/facts/take") with false.
  change (String.eqb "/api/loc/facts/replace" "/api/loc/facts/replace") with true. cbv iota.
  assert (Hl : alookup "/api/loc/facts/replace" svc_loc_getters = Some (inner_getters "/api/loc/facts/replace")) by reflexivity.
  rewrite Hl. destruct (run_getters_bad _ m [] g p req Hin Hbad) as [e ->]. eexists; reflexivity.
Qed.

Lemma replace_search_rejects g p req m :
  In (g, p, req, true) (inner_getters "/api/loc/facts/search") -> bad_for g req (alookup p m) = true ->
  exists e, dispatch "/api/loc/facts/replace" m = Err e.
Proof.
  intros Hin Hbad. unfold dispatch.
  change (String.eqb "/api/loc/facts/replace" "/api/loc/facts/take") with false.
  change (String.eqb "/api/loc/facts/replace" "/api/loc/facts/replace") with true. cbv iota.
  assert (Hl : alookup "/api/loc/facts/replace" svc_loc_getters = Some (inner_getters "/api/loc/facts/replace")) by reflexivity.
  rewrite Hl.
  destruct (run_getters (inner_getters "/api/loc/facts/replace") m []) eqn:Eg.
  - destruct (search_rejects g p req m Hin Hbad) as [e ->]. eexists; reflexivity.
  - eexists; reflexivity.
  - exfalso. exact (run_getters_no_panic _ _ _ _ Eg).
  - exfalso. exact (run_getters_no_oof _ _ _ Eg).
Qed.

Theorem composite_reports_inner_errors : composite_reports_inner_errors_statement.
Proof.
  intros g p req m Hbad. split.
  - intros Hin. split.
    + unfold dispatch. change (String.eqb "/api/loc/facts/take" "/api/loc/facts/take") with true. cbv iota.
      exact (search_rejects g p req m Hin Hbad).
    + exact (replace_search_rejects g p req m Hin Hbad).
  - intros Hin. vm_compute in Hin.
    destruct Hin as [Hin|[Hin|[Hin|[]]]]; inversion Hin; subst.
    + apply (replace_own_rejects "getMapParam" "fact" true m); [vm_compute; tauto|exact Hbad].
    + apply (replace_search_rejects "GetStringParam" "location" true m); [vm_compute; tauto|exact Hbad].
    + apply (replace_own_rejects "GetStringParam" "id" false m); [vm_compute; tauto|exact Hbad].
Qed.

Lemma build_plan_add_shape b m :
  exists args, build_plan "/api/loc/facts/add" b m = Ok (PCall "AddFact" args false).
Proof. eexists. vm_compute. reflexivity. Qed.

Theorem replace_add_not_rejected : replace_add_not_rejected_statement.
Proof.
  intros m p e H.
  assert (Hl : alookup "/api/loc/facts/add" svc_loc_getters = Some (inner_getters "/api/loc/facts/add")) by reflexivity.
  assert (G : exists g q req, In (g, q, req, true) (inner_getters "/api/loc/facts/add") /\
                              bad_for g req (alookup q m) = true).
  { revert H. unfold dispatch.
    change (String.eqb "/api/loc/facts/replace" "/api/loc/facts/take") with false.
    change (String.eqb "/api/loc/facts/replace" "/api/loc/facts/replace") with true. cbv iota.
    destruct (alookup "/api/loc/facts/replace" svc_loc_getters) as [gs|]; [|discriminate].
    destruct (run_getters gs m []); try discriminate.
    destruct (dispatch_plain "/api/loc/facts/search" _) as [p1| | |]; try discriminate.
    set (m2 := ainsert "uri" _ _).
    destruct (dispatch_plain "/api/loc/facts/add" m2) as [q|e'| |] eqn:Ea; try discriminate.
    - (* the add is planned: it is a call, not an error *)
      intros H. exfalso. inversion H; subst. unfold dispatch_plain in Ea. rewrite Hl in Ea.
      destruct (run_getters (inner_getters "/api/loc/facts/add") m2 []) as [b| | |]; discriminate.
    - intros _. unfold dispatch_plain in Ea. rewrite Hl in Ea.
      destruct (run_getters (inner_getters "/api/loc/facts/add") m2 []) as [b|e''| |] eqn:Eg; try discriminate.
      assert (Hk : forallb (fun s : getter_spec => known_getter (fst (fst (fst s)))) (inner_getters "/api/loc/facts/add") = true)
        by (vm_compute; reflexivity).
      destruct (run_getters_err_inv _ _ _ _ Hk Eg) as (g & q & req & Hin & Hb).
      exists g, q, req. split; [exact Hin|].
      assert (Hq : q <> "uri" /\ q <> "take").
      { pose proof Hin as Hin'. vm_compute in Hin'.
        repeat (destruct Hin' as [Hin'|Hin']; [inversion Hin'; split; discriminate|]). destruct Hin'. }
      destruct Hq as [Hq1 Hq2]. unfold m2 in Hb.
      rewrite (proj1 (inner_lookup q m "/api/loc/facts/search" "/api/loc/facts/add" Hq1 Hq2)) in Hb. exact Hb. }
  destruct G as (g & q & req & Hin & Hb).
  destruct (proj2 (composite_reports_inner_errors g q req m Hb) Hin) as [e' He]. rewrite He in H. discriminate.
Qed.

Lemma empty_body_is_400 : empty_body_is_400_statement.
Proof. split; vm_compute; reflexivity. Qed.

Lemma nonstring_uri_is_error : nonstring_uri_is_error_statement.
Proof. repeat split; vm_compute; reflexivity. Qed.

Lemma envelope_nonstring_uri_is_400 : envelope_nonstring_uri_is_400_statement.
Proof. vm_compute. reflexivity. Qed.

Lemma empty_typed_param_is_400 : empty_typed_param_is_400_statement.
Proof. split; vm_compute; reflexivity. Qed.

Lemma composite_errors_are_reported : composite_errors_are_reported_statement.
Proof. repeat split; vm_compute; reflexivity. Qed.

Lemma getter_errors_are_reported : getter_errors_are_reported_statement.
Proof. repeat split; vm_compute; reflexivity. Qed.

Lemma body_uri_overrides_path_counterexample : body_uri_overrides_path_counterexample_statement.
Proof. vm_compute. reflexivity. Qed.

Lemma empty_form_counterexample : empty_form_counterexample_statement.
Proof.
  intros P HP. unfold serve, get_http_request, render.
  cbn [e_kind e_prefix e_yaml_params vary lr_uri lr_params rq_path rq_query rq_method rq_body is_post parse_pairs
       pairs_of map form_body bt_text].
  rewrite HP.
  change (dwim_uri "/api/loc/admin/size") with "/api/loc/admin/size".
  change (String.eqb "/api/loc/admin/size" "/api/json") with false.
  change (String.eqb "/api/loc/admin/size" "/api/yaml") with false.
  unfold is_post. cbn [rq_method orb]. change (String.eqb "POST" "POST") with true. cbv iota. reflexivity.
Qed.

Lemma undeclared_map_param_counterexample : undeclared_map_param_counterexample_statement.
Proof.
  intros P HP r. split.
  - eexists. split.
    + unfold decode, get_http_request, render, is_post.
      cbn [r e_kind e_prefix e_yaml_params vary lr_uri lr_params rq_path rq_query rq_method rq_body parse_pairs
           pairs_of map fst snd ptext_of_lval count_name].
      change (String.eqb "state" "state") with true. cbv iota. cbn [Nat.eqb].
      unfold parse_parameter. change (alookup "state" svc_parameter_types) with (@None string). cbv iota.
      cbn [pt_text parse_pairs].
      change (dwim_uri "/api/sys/storage/set") with "/api/sys/storage/set".
      change (String.eqb "/api/sys/storage/set" "/api/json") with false.
      change (String.eqb "/api/sys/storage/set" "/api/yaml") with false. cbn [orb].
      change (String.eqb "GET" "POST") with false. cbv iota.
      unfold uri_of. rewrite alookup_ainsert_same.
      change (dwim_uri "/api/sys/storage/set") with "/api/sys/storage/set". reflexivity.
    + unfold get_map_param. rewrite alookup_ainsert.
      change (String.eqb "state" "uri") with false. cbv iota. reflexivity.
  - eexists. split.
    + unfold decode, get_http_request, render, is_post.
      cbn [r e_kind e_prefix e_yaml_params vary lr_uri lr_params rq_path rq_query rq_method rq_body parse_pairs].
      change (dwim_uri "/api/sys/storage/set") with "/api/sys/storage/set".
      change (String.eqb "/api/sys/storage/set" "/api/json") with false.
      change (String.eqb "/api/sys/storage/set" "/api/yaml") with false. cbn [orb].
      change (String.eqb "POST" "POST") with true. cbv iota.
      rewrite (body_merge P false _ _ HP).
      unfold uri_of. reflexivity.
    + reflexivity.
Qed.

Lemma encoding_specific_spellings : encoding_specific_spellings_statement.
Proof. repeat split; vm_compute; reflexivity. Qed.

(** the hypotheses of the table theorems are satisfiable *)
Example missing_location_is_error :
  exists e, dispatch "/api/loc/facts/get" [("id", JStr "f1")] = Err e.
Proof.
  apply (missing_or_illtyped_is_error "/api/loc/facts/get"
           [("GetStringParam", "id", true, true); ("GetStringParam", "location", true, true)]
           "GetStringParam" "location" true).
  - rewrite loc_entries_eq. vm_compute. tauto.
  - right; left; reflexivity.
  - reflexivity.
Qed.

Example unknown_uri_example : dispatch "/api/loc/nothing" [("location", JStr "here")] = Err "unknown uri".
Proof. apply unknown_uri_is_error. reflexivity. Qed.

Example direct_call_example :
  forall P, lexical_ok P ->
    serve svc_parameter_types (render P example_request {| e_kind := EMixed; e_prefix := PVersionNoApi "/v1.0"; e_yaml_params := true |}) =
    Ok (ASingle (PCall "SearchFacts" [JStr "here"; JObj [("a", JStr "?x")]; JBool true] false)).
Proof.
  intros P HP. destruct example_request_well_typed as [Hwt Hf].
  destruct (service_performs_direct_call P example_request
              {| e_kind := EMixed; e_prefix := PVersionNoApi "/v1.0"; e_yaml_params := true |} HP Hwt) as (p & Hp & Hs).
  - split; [reflexivity|discriminate].
  - exact Hf.
  - rewrite Hs. f_equal. f_equal. vm_compute in Hp. inversion Hp. reflexivity.
Qed.
