(** C08 and C02 over histories: the cascade deletes exactly the closure in
    every reachable state; the fact map follows the specification's map;
    indexed and linear states agree. *)
From Coq Require Import Lia Permutation.
From Verif Require Import Json Outcome Match PatIndex State Location CorrLoc MatchSpec MatchLemmas1 MatchProofs.
From Verif Require Import StateSpec AssocLemmas StateProofs PendingProofs CascadeSpec CascadeLemmas1 CascadeTerm CascadeExact.
From Verif Require Import DurableFrame DurableInv DurablePrepare DurableSpec DurableMirror DurableExpiry DurableReload DurableReach DurableProofs.
From Verif Require Import HistSpec HistClosure HistCascade.

(** * One removal, as lists *)

Lemma minus_closure_lookup s id j :
  sorted_keys (map fst (st_facts s)) = true ->
  alookup j (minus_closure (st_facts s) id) =
  if mem_str j (clo_iter (S (length (st_facts s))) (st_facts s) [id]) then None else alookup j (st_facts s).
Proof.
  intros Hs. change (minus_closure (st_facts s) id)
    with (afilter (fun j0 => negb (mem_str j0 (clo_iter (S (length (st_facts s))) (st_facts s) [id]))) (st_facts s)).
  rewrite alookup_afilter. destruct (mem_str j _); reflexivity.
Qed.

Lemma sorted_minus_closure F id :
  sorted_keys (map fst F) = true -> sorted_keys (map fst (minus_closure F id)) = true.
Proof.
  intros H. change (minus_closure F id)
    with (afilter (fun j0 => negb (mem_str j0 (clo_iter (S (length F)) F [id]))) F).
  apply sorted_afilter. exact H.
Qed.

Lemma Post_lists s x s' had now :
  goodk s now -> st_wf s -> st_wf s' -> Post s x s' had ->
  had = had_fact s x /\
  st_facts s' = minus_closure (st_facts s) x /\
  (forall j, alookup j (st_store s') = alookup j (minus_closure (st_facts s) x)) /\
  (forall j, Clo s x j -> alookup j (st_facts s') = None /\ alookup j (st_store s') = None) /\
  (forall j, ~ Clo s x j -> alookup j (st_facts s') = alookup j (st_facts s) /\
                            alookup j (st_store s') = alookup j (st_store s)).
Proof.
  intros Hg Hwf Hwf' (Hhad & D & HxD & HDclo & Hclosed & HR).
  destruct Hwf as (HsF & _ & _). destruct Hwf' as (HsF' & _ & HsS').
  destruct Hg as (_ & _ & Hm & _).
  assert (HD : forall j, mem_str j D = mem_str j (clo_iter (S (length (st_facts s))) (st_facts s) [x])).
  { intros j. apply Bool.eq_true_iff_eq. rewrite !mem_str_In, (clo_iter_spec s HsF x j). split.
    - apply HDclo.
    - intros H. eapply Closed_Clo; eauto. }
  destruct HR as (_ & _ & HF & HS).
  split; [exact Hhad|]. split; [|split; [|split]].
  - apply assoc_ext; [exact HsF'|apply sorted_minus_closure; exact HsF|].
    intros j. rewrite HF, minus_closure_lookup by exact HsF. rewrite HD. reflexivity.
  - intros j. rewrite HS, minus_closure_lookup by exact HsF. rewrite HD, Hm. reflexivity.
  - intros j Hc. assert (Hj : mem_str j D = true) by (apply mem_str_In; eapply Closed_Clo; eauto).
    rewrite HF, HS, Hj. auto.
  - intros j Hc. assert (Hj : mem_str j D = false).
    { destruct (mem_str j D) eqn:E; [|reflexivity]. exfalso. apply Hc. apply HDclo. apply mem_str_In. exact E. }
    rewrite HF, HS, Hj. auto.
Qed.

Lemma st_rem_lists s x now s' had :
  goodk s now -> st_wf s -> st_rem s x now = (s', Ok had) ->
  had = had_fact s x /\
  st_facts s' = minus_closure (st_facts s) x /\
  (forall j, alookup j (st_store s') = alookup j (minus_closure (st_facts s) x)) /\
  (forall j, Clo s x j -> alookup j (st_facts s') = None /\ alookup j (st_store s') = None) /\
  (forall j, ~ Clo s x j -> alookup j (st_facts s') = alookup j (st_facts s) /\
                            alookup j (st_store s') = alookup j (st_store s)).
Proof.
  intros Hg Hwf Hr. eapply Post_lists; [exact Hg|exact Hwf| |].
  - pose proof (st_rem_wf s x now Hwf) as H. rewrite Hr in H. exact H.
  - unfold st_rem in Hr. eapply rem_fuel_exact2; eassumption.
Qed.

(** the public removal in a state where nothing is expired and nothing is noted *)
Lemma st_Rem_unfold s x now :
  StateSpec.no_expired s now -> st_pending s = [] ->
  st_Rem s x now =
  if st_hooks s && negb (had_fact s x) then (s, Err "notfound")
  else (set_pending (fst (st_rem s x now)) [], snd (st_rem s x now)).
Proof.
  intros Hne Hp. unfold st_Rem, had_fact.
  assert (Hrem : with_purge (st_rem s x now) now = (set_pending (fst (st_rem s x now)) [], snd (st_rem s x now))).
  { apply with_purge_noexp. eapply Sub_no_expired; [apply st_rem_Sub|exact Hne]. }
  destruct (st_hooks s); cbn [andb]; [|exact Hrem].
  assert (Hget : st_get s x now = (s, snd (get_body s x now))).
  { unfold st_get. rewrite with_purge_noexp by (rewrite get_body_noexp by exact Hne; exact Hne).
    rewrite get_body_noexp by exact Hne. rewrite <- Hp. rewrite set_pending_same. reflexivity. }
  rewrite Hget. unfold get_body. destruct (alookup x (st_facts s)) as [fact|] eqn:El; cbn [negb snd].
  - rewrite (expire_noexp s x fact now (Hne x fact El)). cbn [snd]. exact Hrem.
  - rewrite with_purge_noexp by exact Hne. cbn [fst snd]. rewrite <- Hp, set_pending_same. reflexivity.
Qed.

(** * Invariants of the reachable states *)

Lemma mirror_list_lk s : st_store s = st_facts s -> mirror_lk s.
Proof. intros H j. rewrite H. reflexivity. Qed.

Lemma reachable_goodk k hooks ops now :
  let s := reachable k hooks None ops in
  StateSpec.no_expired s now ->
  goodk s now /\ st_wf s /\ st_pending s = [] /\ st_store s = st_facts s /\ st_hooks s = hooks.
Proof.
  intros s Hne.
  destruct (reachable_fields k hooks None ops) as (Hk & Hhk & Hf). fold s in Hk, Hhk, Hf.
  pose proof (store_mirrors_memory_hooks k hooks ops) as Hm. fold s in Hm.
  split; [|split; [apply reachable_wf|split; [apply pending_empty_reachable|split; [exact Hm|exact Hhk]]]].
  split; [exact Hf|]. split; [exact Hne|]. split; [apply mirror_list_lk; exact Hm|].
  intros Hki. rewrite Hk in Hki. unfold s. rewrite Hki. unfold reachable. apply fold_sstep_P. apply P_empty.
Qed.

Lemma st_Rem_reachable_lists k hooks ops id now s' had :
  let s := reachable k hooks None ops in
  StateSpec.no_expired s now ->
  st_Rem s id now = (s', Ok had) ->
  had = had_fact s id /\
  st_facts s' = minus_closure (st_facts s) id /\
  st_store s' = minus_closure (st_store s) id /\
  (forall j, Clo s id j -> alookup j (st_facts s') = None /\ alookup j (st_store s') = None) /\
  (forall j, ~ Clo s id j -> alookup j (st_facts s') = alookup j (st_facts s) /\
                             alookup j (st_store s') = alookup j (st_store s)).
Proof.
  intros s Hne HR.
  destruct (reachable_goodk k hooks ops now Hne) as (Hg & Hwf & Hp & Hm & Hhk). fold s in Hg, Hwf, Hp, Hm, Hhk.
  rewrite (st_Rem_unfold s id now Hne Hp) in HR.
  destruct (st_hooks s && negb (had_fact s id)); [discriminate|].
  destruct (st_rem s id now) as [s1 o] eqn:Er. cbn [fst snd] in HR. injection HR as <- ->.
  destruct (st_rem_lists s id now s1 had Hg Hwf Er) as (H1 & H2 & H3 & H4 & H5).
  cbn [st_facts st_store set_pending].
  split; [exact H1|]. split; [exact H2|]. split; [|split; assumption].
  rewrite Hm. apply assoc_ext.
  - pose proof (st_rem_wf s id now Hwf) as H. rewrite Er in H. apply H.
  - apply sorted_minus_closure. apply Hwf.
  - exact H3.
Qed.

Theorem clo_iter_is_closure_main : clo_iter_is_closure_statement.
Proof. intros s id j Hs. apply clo_iter_spec. exact Hs. Qed.

Theorem cascade_closure_history_main : cascade_closure_history_statement.
Proof.
  intros k hooks ops id now s' had s Hne HR.
  destruct (st_Rem_reachable_lists k hooks ops id now s' had Hne HR) as (H1 & H2 & H3 & H4 & _).
  repeat split; auto; apply H4; assumption.
Qed.

Theorem nothing_else_deleted_history_main : nothing_else_deleted_history_statement.
Proof.
  intros k hooks ops id now s' had s Hne HR.
  destruct (st_Rem_reachable_lists k hooks ops id now s' had Hne HR) as (_ & _ & _ & _ & H5).
  exact H5.
Qed.

Theorem cascade_succeeds_history_main : cascade_succeeds_history_statement.
Proof.
  intros k hooks ops id now s Hne Hpres.
  destruct (reachable_fields k hooks None ops) as (Hk & Hhk & Hf). fold s in Hk, Hhk, Hf.
  pose proof (pending_empty_reachable k hooks None ops) as Hp. fold s in Hp.
  rewrite (st_Rem_unfold s id now Hne Hp).
  assert (Hc : st_hooks s && negb (had_fact s id) = false).
  { rewrite Hhk. destruct Hpres as [->|Hpr]; [reflexivity|]. unfold had_fact.
    destruct (alookup id (st_facts s)); [apply Bool.andb_false_r|congruence]. }
  rewrite Hc. destruct (st_rem_ok_nofail s id now Hf) as (had & Hhad). rewrite Hhad. eauto.
Qed.

(** * C. The fact map follows the specification *)

Definition facts_all (Qf : string -> json -> Prop) (F : list (string * json)) : Prop :=
  forall id f, alookup id F = Some f -> Qf id f.

Definition HInv (hooks : bool) (s : state) : Prop :=
  st_fail s = None /\ st_hooks s = hooks /\ st_wf s /\ st_store s = st_facts s /\ st_pending s = [] /\
  facts_all (fun id f => fact_expires f = 0) (st_facts s) /\
  (st_kind s = Indexed -> P s).

Lemma HInv_noexp hooks s now : HInv hooks s -> StateSpec.no_expired s now.
Proof.
  intros (_ & _ & _ & _ & _ & Hall & _) id f Hl. apply DurablePrepare.never_expires_without_expiry.
  apply (Hall id f Hl).
Qed.

Lemma HInv_goodk hooks s now : HInv hooks s -> goodk s now.
Proof.
  intros H. pose proof (HInv_noexp hooks s now H) as Hne.
  destruct H as (Hf & _ & _ & Hm & _ & Hall & HP).
  split; [exact Hf|]. split; [exact Hne|]. split; [apply mirror_list_lk; exact Hm|exact HP].
Qed.

Lemma facts_all_ainsert Qf F id f : facts_all Qf F -> Qf id f -> facts_all Qf (ainsert id f F).
Proof.
  intros H Hq j g Hl. rewrite alookup_ainsert in Hl. destruct (String.eqb j id) eqn:E.
  - apply String.eqb_eq in E. subst j. injection Hl as <-. exact Hq.
  - apply (H j g Hl).
Qed.

Lemma facts_all_minus Qf F id : facts_all Qf F -> facts_all Qf (minus_closure F id).
Proof.
  intros H j g Hl. change (minus_closure F id)
    with (afilter (fun j0 => negb (mem_str j0 (clo_iter (S (length F)) F [id]))) F) in Hl.
  rewrite alookup_afilter in Hl. destruct (negb _); [apply (H j g Hl)|discriminate].
Qed.

(** the generic part of the invariant *)
Lemma HInv_step_generic hooks s o :
  HInv hooks s ->
  facts_all (fun id f => fact_expires f = 0) (st_facts (sstep s o)) ->
  HInv hooks (sstep s o).
Proof.
  intros (Hf & Hh & Hwf & Hm & Hp & Hall & HP) Hall'.
  destruct (sstep_Pres s o) as (P1 & P2 & P3 & _).
  assert (HM : M (sstep s o)) by (apply sstep_M; split; assumption).
  split; [congruence|]. split; [congruence|]. split; [apply sstep_wf; exact Hwf|].
  split; [apply HM|]. split; [apply sstep_pending; exact Hp|]. split; [exact Hall'|].
  intros Hk. apply sstep_P. apply HP. congruence.
Qed.

Lemma will_fail_None s : st_fail s = None -> will_fail s = false.
Proof. intros H. unfold will_fail. rewrite H. reflexivity. Qed.

(** the hooks' verdict depends on the fact and on whether hooks are installed *)
Definition hookerr (hooks : bool) (f : json) : option string := add_hook_err (empty_state Linear hooks) f.

Lemma add_hook_err_hookerr hooks s f : st_hooks s = hooks -> add_hook_err s f = hookerr hooks f.
Proof. intros <-. reflexivity. Qed.

(** the add step *)
Lemma st_add_refines hooks s g x now fr aux :
  HInv hooks s -> op_plain (SAdd g x fr aux, now) = true ->
  st_facts (fst (st_add s g x now fr aux)) =
  spec_step (st_facts s) ((SAdd g x fr aux, now), sstep_ok s (SAdd g x fr aux, now)).
Proof.
  intros HI Hpl. pose proof HI as (Hf & Hh & _).
  cbn [spec_step sstep_ok]. cbn [op_plain] in Hpl.
  destruct (prepare_fact g x now fr aux) as [[id f]|e|w|] eqn:Hp.
  - destruct (st_add_shape s g x now fr aux id f Hp) as (c & (_ & _ & _ & _ & F5 & _) & Hc).
    rewrite F5. pose proof (will_fail_None s Hf) as Hw.
    destruct c; cbn [ac_cond ac_mem] in *.
    + destruct Hc as (_ & e & ->). reflexivity.
    + destruct Hc as (_ & Hc & _). congruence.
    + destruct Hc as (_ & _ & _ & ->). reflexivity.
    + destruct Hc as (_ & Hc & _). congruence.
    + destruct Hc as (_ & e & _ & ->). reflexivity.
    + destruct Hc as (_ & _ & _ & ->). reflexivity.
  - rewrite st_add_prepare_err by (intros p; rewrite Hp; discriminate). rewrite Hp. reflexivity.
  - rewrite st_add_prepare_err by (intros p; rewrite Hp; discriminate). rewrite Hp. reflexivity.
  - rewrite st_add_prepare_err by (intros p; rewrite Hp; discriminate). rewrite Hp. reflexivity.
Qed.

(** one step refines the specification and keeps the invariant *)
Lemma sstep_refines hooks s o :
  HInv hooks s -> op_plain o = true ->
  st_facts (sstep s o) = spec_step (st_facts s) (o, sstep_ok s o) /\ HInv hooks (sstep s o).
Proof.
  intros HI Hpl.
  assert (Hfacts : st_facts (sstep s o) = spec_step (st_facts s) (o, sstep_ok s o)).
  { destruct o as [op now]. pose proof (HInv_noexp hooks s now HI) as Hne.
    pose proof HI as (Hf & Hh & Hwf & Hm & Hp & Hall & HP).
    destruct op as [g x fr aux|id|id|p|ev|].
    - apply (st_add_refines hooks); assumption.
    - cbn [sstep sstep_ok spec_step op_plain] in *. rewrite (st_Rem_unfold s id now Hne Hp).
      destruct (st_hooks s && negb (had_fact s id)); [reflexivity|].
      destruct (st_rem_ok_nofail s id now Hf) as (had & Hhad).
      destruct (st_rem s id now) as [s1 o1] eqn:Er. cbn [fst snd] in *. subst o1. cbn [negb st_facts set_pending].
      destruct (st_rem_lists s id now s1 had (HInv_goodk hooks s now HI) Hwf Er) as (_ & H2 & _).
      exact H2.
    - cbn [sstep sstep_ok spec_step negb]. rewrite (DurableExpiry.st_get_noexp s id now Hne Hp). reflexivity.
    - cbn [sstep sstep_ok spec_step negb]. rewrite (DurableExpiry.st_search_noexp s p now Hne Hp). reflexivity.
    - cbn [sstep sstep_ok spec_step negb]. rewrite (DurableExpiry.st_find_rules_noexp s ev now Hne Hp). reflexivity.
    - cbn [sstep sstep_ok spec_step]. pose proof (st_clear_shape s) as Hc. cbv zeta in Hc.
      rewrite (will_fail_None s Hf) in Hc. destruct Hc as (_ & _ & _ & _ & -> & _ & -> & _). reflexivity. }
  split; [exact Hfacts|].
  apply HInv_step_generic; [exact HI|].
  rewrite Hfacts. destruct HI as (_ & _ & _ & _ & _ & Hall & _).
  destruct o as [[g x fr aux|id|id|p|ev|] now]; cbn [spec_step]; destruct (negb (sstep_ok s _)); try exact Hall.
  - cbn [op_plain] in Hpl. destruct (prepare_fact g x now fr aux) as [[id f]|e|w|]; try exact Hall.
    apply facts_all_ainsert; [exact Hall|]. apply Z.eqb_eq. exact Hpl.
  - apply facts_all_minus. exact Hall.
  - intros j f Hl. discriminate.
Qed.

Lemma fold_refines hooks : forall ops s F,
  HInv hooks s -> forallb op_plain ops = true -> st_facts s = F ->
  st_facts (fold_left sstep ops s) = fold_left spec_step (strace s ops) F /\
  HInv hooks (fold_left sstep ops s).
Proof.
  induction ops as [|o r IH]; intros s F HI Hpl HF; cbn [fold_left strace].
  - split; assumption.
  - cbn [forallb] in Hpl. apply andb_true_iff in Hpl. destruct Hpl as [Ho Hr].
    destruct (sstep_refines hooks s o HI Ho) as [H1 H2].
    apply IH; [exact H2|exact Hr|]. rewrite H1, HF. reflexivity.
Qed.

Lemma HInv_init k hooks : HInv hooks (init_state k hooks).
Proof.
  unfold HInv, init_state.
  split; [reflexivity|]. split; [reflexivity|]. split; [repeat split; reflexivity|].
  split; [reflexivity|]. split; [reflexivity|]. split.
  - intros id f H. discriminate.
  - cbn [st_kind set_fail empty_state]. intros Hk. subst k. apply P_empty.
Qed.

Theorem get_returns_last_write_history_main : get_returns_last_write_history_statement.
Proof.
  intros k hooks ops Hpl s F.
  destruct (fold_refines hooks ops (init_state k hooks) [] (HInv_init k hooks) Hpl eq_refl) as [H1 H2].
  change (fold_left sstep ops (init_state k hooks)) with s in H1, H2.
  change (fold_left spec_step (strace (init_state k hooks) ops) []) with F in H1.
  split; [exact H1|]. pose proof H2 as (_ & _ & Hwf & Hm & Hp & _). split; [congruence|].
  intros id now. pose proof (get_exact s id now Hwf Hp) as Hg. rewrite <- H1.
  destruct (alookup id (st_facts s)) as [f|] eqn:E; [|exact Hg].
  apply Hg. apply (HInv_noexp hooks s now H2 id f E).
Qed.

(** * "Last write", spelled out on the specification's map *)

Lemma spec_step_untouched F ob id : covers F ob id = false -> alookup id (spec_step F ob) = alookup id F.
Proof.
  destruct ob as [[op now] ok]. cbn [covers spec_step]. destruct ok; cbn [andb negb]; [|reflexivity].
  destruct op as [g x fr aux|j|j|p|ev|]; try reflexivity.
  - destruct (prepare_fact g x now fr aux) as [[id' f]|e|w|]; try reflexivity.
    intros H. rewrite alookup_ainsert. rewrite String.eqb_sym, H. reflexivity.
  - intros H. change (minus_closure F j)
      with (afilter (fun j0 => negb (mem_str j0 (clo_iter (S (length F)) F [j]))) F).
    rewrite alookup_afilter, H. reflexivity.
  - discriminate.
Qed.

Lemma untouched_keeps : forall tr F id,
  untouched F tr id = true -> alookup id (fold_left spec_step tr F) = alookup id F.
Proof.
  induction tr as [|ob r IH]; intros F id H; [reflexivity|].
  cbn [untouched] in H. apply andb_true_iff in H. destruct H as [H1 H2]. apply Bool.negb_true_iff in H1.
  cbn [fold_left]. rewrite (IH _ _ H2). apply spec_step_untouched. exact H1.
Qed.

Theorem spec_last_write_main : spec_last_write_statement.
Proof.
  intros tr1 g x fr aux now tr2 id f Hp F1 Hu. unfold spec_facts. rewrite fold_left_app. cbn [fold_left].
  fold (spec_facts tr1). fold F1. rewrite (untouched_keeps tr2 F1 id Hu).
  unfold F1. cbn [spec_step negb]. rewrite Hp. apply alookup_ainsert_same.
Qed.

Theorem spec_not_found_main : spec_not_found_statement.
Proof.
  split.
  - intros tr id H. unfold spec_facts. rewrite (untouched_keeps tr [] id H). reflexivity.
  - intros tr1 ob tr2 id Hc Hna Hu. unfold spec_facts. rewrite fold_left_app. cbn [fold_left].
    fold (spec_facts tr1). rewrite (untouched_keeps tr2 _ id Hu).
    destruct ob as [[op now] ok]. cbn [covers] in Hc. apply andb_true_iff in Hc. destruct Hc as [-> Hc].
    cbn [spec_step negb]. destruct op as [g x fr aux|j|j|p|ev|]; try discriminate.
    + exfalso. eapply Hna. reflexivity.
    + change (minus_closure (spec_facts tr1) j)
        with (afilter (fun j0 => negb (mem_str j0 (clo_iter (S (length (spec_facts tr1))) (spec_facts tr1) [j]))) (spec_facts tr1)).
      rewrite alookup_afilter, Hc. reflexivity.
    + reflexivity.
Qed.

(** * C2. Indexed and linear states agree *)

(** ** the id lists of the term index are strictly sorted (hence duplicate-free) *)

Definition Ts (s : state) : Prop := forall t, sorted_keys (ti_ids (st_tindex s) t) = true.

Lemma lb_sset_add k x l : str_ltb k x = true -> lb k l -> lb k (sset_add x l).
Proof. intros Hx Hl y Hy. apply In_sset_add in Hy. destruct Hy as [->|Hy]; [exact Hx|apply Hl; exact Hy]. Qed.

Lemma sorted_sset_add x l : sorted_keys l = true -> sorted_keys (sset_add x l) = true.
Proof.
  induction l as [|y r IH]; intros Hs; [reflexivity|]. cbn [sset_add].
  destruct (String.compare x y) eqn:Ec.
  - exact Hs.
  - apply sorted_cons. split; [|exact Hs]. apply sorted_cons in Hs. destruct Hs as [Hlb _].
    intros k' [<-|Hin]; [apply str_ltb_lt; exact Ec|].
    eapply str_ltb_trans; [apply str_ltb_lt; exact Ec|apply Hlb; exact Hin].
  - apply sorted_cons in Hs. destruct Hs as [Hlb Hs]. apply sorted_cons. split; [|apply IH; exact Hs].
    apply lb_sset_add; [apply str_ltb_lt; apply scmp_gt_lt; exact Ec|exact Hlb].
Qed.

Lemma sorted_filter_str (q : string -> bool) l : sorted_keys l = true -> sorted_keys (filter q l) = true.
Proof.
  induction l as [|y r IH]; intros Hs; [reflexivity|].
  apply sorted_cons in Hs. destruct Hs as [Hlb Hs]. cbn [filter]. destruct (q y); [|apply IH; exact Hs].
  apply sorted_cons. split; [|apply IH; exact Hs].
  intros k' Hin. apply filter_In in Hin. apply Hlb. apply Hin.
Qed.

Lemma sorted_NoDup l : sorted_keys l = true -> NoDup l.
Proof.
  induction l as [|y r IH]; intros Hs; [constructor|].
  apply sorted_cons in Hs. destruct Hs as [Hlb Hs]. constructor; [|apply IH; exact Hs].
  intros Hin. apply Hlb in Hin. apply str_ltb_lt in Hin. rewrite scmp_refl in Hin. discriminate.
Qed.

Lemma Ts_fold_add id terms : forall idx,
  (forall t, sorted_keys (ti_ids idx t) = true) ->
  forall t, sorted_keys (ti_ids (fold_left (fun i t0 => ti_add t0 id i) terms idx) t) = true.
Proof.
  induction terms as [|t0 r IH]; intros idx H; [exact H|]. cbn [fold_left]. apply IH.
  intros t. rewrite ti_ids_ti_add. destruct (String.eqb t t0); [apply sorted_sset_add|]; apply H.
Qed.

Lemma Ts_fold_rem id terms : forall idx,
  (forall t, sorted_keys (ti_ids idx t) = true) ->
  forall t, sorted_keys (ti_ids (fold_left (fun i t0 => ti_rem t0 id i) terms idx) t) = true.
Proof.
  induction terms as [|t0 r IH]; intros idx H; [exact H|]. cbn [fold_left]. apply IH.
  intros t. rewrite ti_ids_ti_rem. destruct (String.eqb t t0); [apply sorted_filter_str|]; apply H.
Qed.

Lemma Ts_pending s (p : list string) : Ts s -> Ts (set_pending s p).
Proof. intros H. exact H. Qed.

Lemma Ts_head s id : Ts s -> Ts (fst (rem_head s id)).
Proof.
  intros H. unfold rem_head. destruct (st_kind s).
  - destruct (alookup id (st_facts s)) as [fact|]; [|exact H].
    destruct (idx_drop_fields s id fact) as (_ & _ & _ & _ & _ & _ & F7 & _).
    unfold store_call.
    destruct (match st_fail (idx_drop s id fact) with
              | Some n => Nat.eqb n (st_calls (idx_drop s id fact)) | None => false end);
      cbn [fst]; unfold Ts; cbn [st_tindex set_store]; rewrite F7; apply Ts_fold_rem; exact H.
  - unfold store_call.
    destruct (match st_fail s with Some n => Nat.eqb n (st_calls s) | None => false end); cbn [fst]; exact H.
Qed.

Lemma Ts_step s o : Ts s -> Ts (sstep s o).
Proof.
  intros H. destruct o as [op now]. unfold sstep. destruct op as [g x fr aux|id|id|p|ev|].
  - destruct (prepare_fact g x now fr aux) as [[id f]|e|w|] eqn:Hp.
    + destruct (st_add_shape s g x now fr aux id f Hp) as (c & (_ & _ & _ & _ & _ & _ & F7) & _).
      unfold Ts. rewrite F7. destruct (st_kind s); [|exact H]. destruct (ac_mem c); [|exact H].
      apply Ts_fold_add. exact H.
    + rewrite st_add_prepare_err by (intros p; rewrite Hp; discriminate). exact H.
    + rewrite st_add_prepare_err by (intros p; rewrite Hp; discriminate). exact H.
    + rewrite st_add_prepare_err by (intros p; rewrite Hp; discriminate). exact H.
  - apply (st_Rem_inv Ts Ts_pending Ts_head). exact H.
  - apply (st_get_inv Ts Ts_pending Ts_head). exact H.
  - apply (st_search_inv Ts Ts_pending Ts_head). exact H.
  - apply (st_find_rules_inv Ts Ts_pending Ts_head). exact H.
  - pose proof (st_clear_shape s) as Hc. cbv zeta in Hc. destruct Hc as (_ & _ & _ & _ & Hc).
    unfold Ts. destruct (will_fail s).
    + destruct Hc as (_ & _ & Hc). destruct (st_kind s); destruct Hc as (_ & ->); exact H.
    + destruct Hc as (_ & _ & _ & Hc). destruct (st_kind s); rewrite Hc; [reflexivity|exact H].
Qed.

Lemma Ts_reachable k hooks fail ops : Ts (reachable k hooks fail ops).
Proof.
  unfold reachable. assert (H0 : Ts (set_fail (empty_state k hooks) fail)) by (intros t; reflexivity).
  revert H0. generalize (set_fail (empty_state k hooks) fail). induction ops as [|o r IH]; intros s H; [exact H|].
  cbn [fold_left]. apply IH. apply Ts_step. exact H.
Qed.

Lemma ti_search_sorted idx terms ids :
  (forall t, sorted_keys (ti_ids idx t) = true) -> ti_search idx terms = Ok ids -> sorted_keys ids = true.
Proof.
  intros H Hts. unfold ti_search in Hts. destruct terms as [|t0 r]; [discriminate|].
  destruct (ti_pick_smallest idx r 1 (length (ti_ids idx t0)) 0) as [sm|];
    injection Hts as <-; [|reflexivity].
  assert (Hgen : forall terms acc, sorted_keys acc = true ->
            sorted_keys (fold_left (fun acc0 t => sset_inter acc0 (ti_ids idx t)) terms acc) = true).
  { induction terms as [|t1 r1 IH1]; intros acc Ha; [exact Ha|]. cbn [fold_left]. apply IH1.
    apply sorted_filter_str. exact Ha. }
  apply Hgen. first [apply H | apply sorted_filter_str; apply H].
Qed.

(** ** searches as pure functions of the fact map *)

Definition hit1 (F : list (string * json)) (p : json) (id : string) : list (string * list bindings) :=
  match alookup id F with
  | Some fact => match core_match p fact [] with Ok (b :: bss) => [(id, b :: bss)] | _ => [] end
  | None => []
  end.

Definition hits (F : list (string * json)) (p : json) (ids : list string) : list (string * list bindings) :=
  flat_map (hit1 F p) ids.

Lemma search_ids_hits s p now :
  StateSpec.no_expired s now ->
  (forall id fact, alookup id (st_facts s) = Some fact -> exists bss, core_match p fact [] = Ok bss) ->
  forall ids acc, search_ids s ids p now acc = (s, Ok (rev acc ++ hits (st_facts s) p ids)%list).
Proof.
  intros Hne Hok. induction ids as [|id ids IH]; intros acc; cbn [search_ids hits flat_map].
  - rewrite app_nil_r. reflexivity.
  - fold (hits (st_facts s) p ids). unfold hit1.
    destruct (alookup id (st_facts s)) as [fact|] eqn:Hl; [|apply IH].
    rewrite (StateProofs.expire_false s id fact now (Hne id fact Hl)).
    destruct (Hok id fact Hl) as [r Hr]. rewrite Hr.
    destruct r as [|b bss]; [apply IH|].
    rewrite IH. cbn [rev app]. rewrite <- app_assoc. reflexivity.
Qed.

Lemma flat_map_filter {A B} (f : A -> list B) (l : list A) :
  flat_map f l = flat_map f (filter (fun x => match f x with [] => false | _ => true end) l).
Proof.
  induction l as [|x r IH]; [reflexivity|]. cbn [flat_map filter].
  destruct (f x) eqn:E; [exact IH|]. cbn [flat_map]. rewrite E, <- IH. reflexivity.
Qed.

Lemma flat_map_perm {A B} (f : A -> list B) (l1 l2 : list A) :
  NoDup l1 -> NoDup l2 ->
  (forall x, f x <> [] -> (In x l1 <-> In x l2)) ->
  Permutation (flat_map f l1) (flat_map f l2).
Proof.
  intros N1 N2 H. rewrite (flat_map_filter f l1), (flat_map_filter f l2).
  apply Permutation_flat_map. apply NoDup_Permutation; try (apply NoDup_filter; assumption).
  intros x. rewrite !filter_In. split; intros [Hin Hne]; (split; [|exact Hne]); apply H; auto;
    intros E; rewrite E in Hne; discriminate.
Qed.

(** ** whether an operation succeeds is a function of the fact map *)

Definition ok_fun (hooks : bool) (F : list (string * json)) (o : sop * Z) : bool :=
  match o with
  | (SAdd g x fr aux, now) =>
      match prepare_fact g x now fr aux with
      | Ok (_, f) => match hookerr hooks f with None => true | Some _ => false end
      | _ => false
      end
  | (SRem id, _) => negb (hooks && negb (match alookup id F with Some _ => true | None => false end))
  | _ => true
  end.

Lemma st_add_idx_ok s g x now fr aux id f :
  st_kind s = Indexed -> prepare_fact g x now fr aux = Ok (id, f) ->
  add_hook_err s f = None -> idx_err f = None -> st_fail s = None ->
  snd (st_add s g x now fr aux) = Ok id.
Proof.
  intros Hk Hp Hh Hi Hf. unfold st_add. rewrite Hp, Hk.
  destruct (extract_rule f false) as [rule|e|w|] eqn:Er.
  2-4: unfold extract_rule in Er; destruct (jget "rule" f) as [[]|]; discriminate.
  rewrite Hh. pose proof (st_add_mem_idx_err s id f) as He. rewrite Hi in He.
  destruct (st_add_mem_idx s id f) as [s1 e] eqn:E. cbn [snd] in He. subst e.
  apply st_add_mem_idx_spec in E. destruct E as (s2 & Heq & ->).
  destruct Heq as (H1 & H2 & H3 & H4 & H5 & H6 & H7 & H8).
  unfold store_call. cbn [st_fail st_calls set_facts set_tindex]. rewrite H7, Hf. reflexivity.
Qed.

Lemma sstep_ok_pure hooks s o :
  HInv hooks s -> op_plain o = true -> op_indexable o = true ->
  sstep_ok s o = ok_fun hooks (st_facts s) o.
Proof.
  intros HI Hpl Hix. pose proof HI as (Hf & Hh & Hwf & Hm & Hp & Hall & HP).
  destruct o as [[g x fr aux|id|id|p|ev|] now]; cbn [sstep_ok ok_fun]; try reflexivity.
  - cbn [op_plain op_indexable] in *.
    destruct (prepare_fact g x now fr aux) as [[id f]|e|w|] eqn:Hprep.
    + pose proof (add_hook_err_hookerr hooks s f Hh) as Hhook.
      destruct (st_add_shape s g x now fr aux id f Hprep) as (c & _ & Hc).
      pose proof (will_fail_None s Hf) as Hw.
      destruct (hookerr hooks f) as [he|] eqn:Hhe.
      * (* rejected by the hook: an error in both kinds *)
        destruct c; cbn [ac_cond] in Hc.
        -- destruct Hc as (_ & e & ->). reflexivity.
        -- destruct Hc as (_ & Hc & _). congruence.
        -- destruct Hc as (_ & _ & Hc & _). congruence.
        -- destruct Hc as (_ & Hc & _). congruence.
        -- destruct Hc as (_ & e & _ & ->). reflexivity.
        -- destruct Hc as (_ & _ & Hc & _). congruence.
      * destruct (st_kind s) eqn:Hk.
        -- destruct (idx_err f) eqn:Hi; [discriminate|].
           rewrite (st_add_idx_ok s g x now fr aux id f Hk Hprep Hhook Hi Hf). reflexivity.
        -- destruct c; cbn [ac_cond] in Hc.
           ++ destruct Hc as (Hc & _). congruence.
           ++ destruct Hc as (Hc & _). congruence.
           ++ destruct Hc as (Hc & _). congruence.
           ++ destruct Hc as (_ & Hc & _). congruence.
           ++ destruct Hc as (_ & e & He & _). congruence.
           ++ destruct Hc as (_ & _ & _ & ->). reflexivity.
    + rewrite st_add_prepare_err by (intros q; rewrite Hprep; discriminate). rewrite Hprep. reflexivity.
    + rewrite st_add_prepare_err by (intros q; rewrite Hprep; discriminate). rewrite Hprep. reflexivity.
    + rewrite st_add_prepare_err by (intros q; rewrite Hprep; discriminate). rewrite Hprep. reflexivity.
  - rewrite (st_Rem_unfold s id now (HInv_noexp hooks s now HI) Hp). rewrite Hh. unfold had_fact.
    destruct (hooks && negb (match alookup id (st_facts s) with Some _ => true | None => false end)); [reflexivity|].
    destruct (st_rem_ok_nofail s id now Hf) as (had & ->). reflexivity.
  - pose proof (st_clear_shape s) as Hc. cbv zeta in Hc.
    rewrite (will_fail_None s Hf) in Hc. destruct Hc as (_ & _ & _ & _ & -> & _). reflexivity.
Qed.

Lemma lockstep hooks : forall ops sI sL,
  HInv hooks sI -> HInv hooks sL -> st_facts sI = st_facts sL ->
  forallb op_plain ops = true -> forallb op_indexable ops = true ->
  strace sI ops = strace sL ops /\
  st_facts (fold_left sstep ops sI) = st_facts (fold_left sstep ops sL) /\
  HInv hooks (fold_left sstep ops sI) /\ HInv hooks (fold_left sstep ops sL).
Proof.
  induction ops as [|o r IH]; intros sI sL HI HL HF Hpl Hix; cbn [strace fold_left].
  - auto.
  - cbn [forallb] in Hpl, Hix. apply andb_true_iff in Hpl, Hix. destruct Hpl as [Ho Hr], Hix as [Hio Hir].
    assert (Hok : sstep_ok sI o = sstep_ok sL o).
    { rewrite (sstep_ok_pure hooks sI o HI Ho Hio), (sstep_ok_pure hooks sL o HL Ho Hio), HF. reflexivity. }
    destruct (sstep_refines hooks sI o HI Ho) as [A1 A2].
    destruct (sstep_refines hooks sL o HL Ho) as [B1 B2].
    assert (HF' : st_facts (sstep sI o) = st_facts (sstep sL o)) by (rewrite A1, B1, HF, Hok; reflexivity).
    destruct (IH (sstep sI o) (sstep sL o) A2 B2 HF' Hr Hir) as (C1 & C2 & C3 & C4).
    rewrite Hok, C1. auto.
Qed.

Theorem indexed_linear_agree_history_main : indexed_linear_agree_history_statement.
Proof.
  intros hooks ops Hpl Hix sI sL.
  destruct (lockstep hooks ops (init_state Indexed hooks) (init_state Linear hooks)
              (HInv_init Indexed hooks) (HInv_init Linear hooks) eq_refl Hpl Hix) as (H1 & H2 & H3 & H4).
  change (fold_left sstep ops (init_state Indexed hooks)) with sI in *.
  change (fold_left sstep ops (init_state Linear hooks)) with sL in *.
  pose proof H3 as (HfI & HhI & HwfI & HmI & HpI & _ & HPI).
  pose proof H4 as (HfL & HhL & HwfL & HmL & HpL & _ & _).
  split; [exact H1|]. split; [exact H2|]. split; [congruence|]. split.
  - intros id now. rewrite !LocBasics.st_get_snd. rewrite H2. reflexivity.
  - intros p now Hterms Hpv Hfrag.
    pose proof (HInv_noexp hooks sI now H3) as HneI. pose proof (HInv_noexp hooks sL now H4) as HneL.
    assert (HkI : st_kind sI = Indexed) by (destruct (reachable_fields Indexed hooks None ops) as (Hk & _); exact Hk).
    assert (HkL : st_kind sL = Linear) by (destruct (reachable_fields Linear hooks None ops) as (Hk & _); exact Hk).
    destruct (HPI HkI) as (_ & _ & Hsup).
    assert (Hok : forall id fact, alookup id (st_facts sL) = Some fact -> exists bss, core_match p fact [] = Ok bss).
    { intros id fact Hl. destruct (match_exact p fact [] (Hfrag id fact Hl)) as (out & Hm & _). eauto. }
    assert (Hsub : forall id fact b bss, alookup id (st_facts sL) = Some fact ->
                   core_match p fact [] = Ok (b :: bss) ->
                   forall t, In t (extract_terms p) -> In t (extract_terms fact)).
    { intros id fact b bss Hl Hm t Ht. pose proof (Hfrag id fact Hl) as Hf.
      destruct (match_exact p fact [] Hf) as (out & Hm' & Hiff). rewrite Hm in Hm'. injection Hm' as <-.
      destruct (proj1 (Hiff b) (or_introl eq_refl)) as (_ & _ & _ & Hlay).
      unfold fragment in Hf. repeat (apply andb_prop in Hf; destruct Hf as [Hf ?]).
      eapply (terms_subset p fact b); eauto. }
    destruct (ti_search_spec (st_tindex sI) (extract_terms p) Hterms) as (ids & Hts & Hids).
    exists (hits (st_facts sI) p ids), (hits (st_facts sL) p (map fst (st_facts sL))).
    split; [|split].
    + unfold st_search, search_state. rewrite HkI, Hts.
      rewrite (search_ids_hits sI p now HneI) by (rewrite H2; exact Hok).
      rewrite with_purge_nil by exact HpI. reflexivity.
    + unfold st_search, search_state. rewrite HkL.
      rewrite (search_ids_hits sL p now HneL Hok).
      rewrite with_purge_nil by exact HpL. reflexivity.
    + rewrite H2. apply flat_map_perm.
      * assert (Hsorted : sorted_keys ids = true).
        { eapply ti_search_sorted; [|exact Hts]. apply (Ts_reachable Indexed hooks None ops). }
        apply sorted_NoDup. exact Hsorted.
      * apply sorted_NoDup. apply HwfL.
      * intros id Hne. unfold hit1 in Hne.
        destruct (alookup id (st_facts sL)) as [fact|] eqn:Hl; [|congruence].
        destruct (core_match p fact []) as [[|b bss]|e|w|] eqn:Hm; try congruence.
        split; intros _.
        -- eapply alookup_In_keys; exact Hl.
        -- apply Hids. intros t Ht. apply (Hsup id fact t); [rewrite H2; exact Hl|].
           eapply Hsub; eauto.
Qed.
