(** C06/C07 support: what each operation does to the fields of the state.
    - [Sub]: the cascade and every read only remove facts / storage records;
    - [st_add_shape], [st_clear_shape]: the exact effect of add and clear;
    - [st_wf] for both kinds; the mirror invariant (storage = memory). *)
From Coq Require Import Lia.
From Verif Require Import Json Outcome Match PatIndex State StateSpec AssocLemmas StateProofs DurableFrame.

(** * Only removals *)

Definition Sub (s s' : state) : Prop :=
  st_kind s' = st_kind s /\ st_hooks s' = st_hooks s /\ st_fail s' = st_fail s /\
  (st_calls s <= st_calls s')%nat /\
  (forall j f, alookup j (st_facts s') = Some f -> alookup j (st_facts s) = Some f) /\
  (forall j v, alookup j (st_store s') = Some v -> alookup j (st_store s) = Some v).

Lemma Sub_refl s : Sub s s.
Proof. unfold Sub. repeat split; auto. Qed.

Lemma Sub_trans a b c : Sub a b -> Sub b c -> Sub a c.
Proof.
  intros (A1 & A2 & A3 & A4 & A5 & A6) (B1 & B2 & B3 & B4 & B5 & B6).
  unfold Sub. repeat split; try congruence; try lia; auto.
Qed.

Lemma Sub_pending s (a : list string) : Sub s (set_pending s a).
Proof. unfold Sub. cbn. repeat split; auto. Qed.

Lemma aremove_sub {A} k (l : list (string * A)) j v :
  alookup j (aremove k l) = Some v -> alookup j l = Some v.
Proof. rewrite alookup_aremove. destruct (String.eqb j k); [discriminate|auto]. Qed.

Lemma Sub_head s id : Sub s (fst (rem_head s id)).
Proof.
  unfold rem_head. destruct (st_kind s) eqn:Hk.
  - destruct (alookup id (st_facts s)) as [fact|] eqn:El; [|apply Sub_refl].
    destruct (idx_drop_fields s id fact) as (F1 & F2 & F3 & F4 & F5 & F6 & F7 & F8).
    pose proof (facts_idx_drop s id fact) as F0.
    unfold store_call.
    destruct (match st_fail (idx_drop s id fact) with
              | Some n => Nat.eqb n (st_calls (idx_drop s id fact)) | None => false end);
      cbn [fst]; unfold Sub;
      cbn [st_kind st_hooks st_fail st_calls st_facts st_store set_store];
      rewrite ?F0, ?F1, ?F2, ?F3, ?F4, ?F5; repeat split; auto; try lia;
      intros j v; apply aremove_sub.
  - unfold store_call.
    destruct (match st_fail s with Some n => Nat.eqb n (st_calls s) | None => false end);
      cbn [fst]; unfold Sub;
      cbn [st_kind st_hooks st_fail st_calls st_facts st_store set_store set_facts];
      repeat split; auto; try lia; intros j v; apply aremove_sub.
Qed.

Lemma st_rem_Sub s id now : Sub s (fst (st_rem s id now)).
Proof. apply (st_rem_R Sub Sub_refl Sub_trans Sub_pending Sub_head). Qed.
Lemma st_rem_rec_Sub s id now : Sub s (fst (st_rem_rec s id now)).
Proof. apply (st_rem_rec_R Sub Sub_refl Sub_trans Sub_pending Sub_head). Qed.
Lemma rem_fuel_Sub fuel s id now : Sub s (fst (rem_fuel fuel s id now)).
Proof. apply (rem_fuel_R Sub Sub_refl Sub_trans Sub_pending Sub_head). Qed.
Lemma st_search_Sub s p now : Sub s (fst (st_search s p now)).
Proof. apply (st_search_R Sub Sub_refl Sub_trans Sub_pending Sub_head). Qed.
Lemma st_get_Sub s id now : Sub s (fst (st_get s id now)).
Proof. apply (st_get_R Sub Sub_refl Sub_trans Sub_pending Sub_head). Qed.
Lemma st_Rem_Sub s id now : Sub s (fst (st_Rem s id now)).
Proof. apply (st_Rem_R Sub Sub_refl Sub_trans Sub_pending Sub_head). Qed.
Lemma st_find_rules_Sub s ev now : Sub s (fst (st_find_rules s ev now)).
Proof. apply (st_find_rules_R Sub Sub_refl Sub_trans Sub_pending Sub_head). Qed.
Lemma expire_Sub s id fact now : Sub s (fst (expire s id fact now)).
Proof. apply (expire_R Sub Sub_refl Sub_pending). Qed.
Lemma search_state_Sub s p now : Sub s (fst (search_state s p now)).
Proof. apply (search_state_R Sub Sub_refl Sub_trans Sub_pending). Qed.
Lemma purge_Sub s now : Sub s (fst (purge s now)).
Proof. apply (purge_R Sub Sub_refl Sub_trans Sub_pending Sub_head). Qed.
Lemma get_body_Sub s id now : Sub s (fst (get_body s id now)).
Proof. apply (get_body_R Sub Sub_refl Sub_pending). Qed.
Lemma do_find_rules_Sub s ev now : Sub s (fst (do_find_rules s ev now)).
Proof. apply (do_find_rules_R Sub Sub_refl Sub_trans Sub_pending Sub_head). Qed.

Lemma Sub_no_expired s s' now : Sub s s' -> no_expired s now -> no_expired s' now.
Proof.
  intros (_ & _ & _ & _ & HF & _) Hne id fact Hl. eapply Hne. apply HF. exact Hl.
Qed.

Lemma Sub_facts_None s s' j : Sub s s' -> alookup j (st_facts s) = None -> alookup j (st_facts s') = None.
Proof.
  intros (_ & _ & _ & _ & HF & _) Hn. destruct (alookup j (st_facts s')) as [f|] eqn:E; [|reflexivity].
  apply HF in E. congruence.
Qed.

Lemma Sub_store_None s s' j : Sub s s' -> alookup j (st_store s) = None -> alookup j (st_store s') = None.
Proof.
  intros (_ & _ & _ & _ & _ & HS) Hn. destruct (alookup j (st_store s')) as [f|] eqn:E; [|reflexivity].
  apply HS in E. congruence.
Qed.

(** * Well-formedness, both kinds *)

Lemma wf_pending s (a : list string) : st_wf s -> st_wf (set_pending s a).
Proof. unfold st_wf. cbn. auto. Qed.

Lemma wf_head s id : st_wf s -> st_wf (fst (rem_head s id)).
Proof.
  intros (W1 & W2 & W3). unfold rem_head. destruct (st_kind s) eqn:Hk.
  - destruct (alookup id (st_facts s)) as [fact|] eqn:El; [|repeat split; assumption].
    destruct (idx_drop_fields s id fact) as (F1 & F2 & F3 & F4 & F5 & F6 & F7 & F8).
    pose proof (facts_idx_drop s id fact) as F0.
    unfold store_call.
    destruct (match st_fail (idx_drop s id fact) with
              | Some n => Nat.eqb n (st_calls (idx_drop s id fact)) | None => false end);
      cbn [fst]; unfold st_wf; cbn [st_facts st_tindex st_store set_store];
      rewrite ?F0, ?F2, ?F7; repeat split;
      auto using sorted_aremove, sorted_fold_ti_rem.
  - unfold store_call.
    destruct (match st_fail s with Some n => Nat.eqb n (st_calls s) | None => false end);
      cbn [fst]; unfold st_wf; cbn [st_facts st_tindex st_store set_store set_facts];
      repeat split; auto using sorted_aremove.
Qed.

Lemma st_rem_wf s id now : st_wf s -> st_wf (fst (st_rem s id now)).
Proof. apply (st_rem_inv st_wf wf_pending wf_head). Qed.
Lemma purge_wf s now : st_wf s -> st_wf (fst (purge s now)).
Proof. apply (purge_frame_inv st_wf wf_pending wf_head). Qed.
Lemma st_search_wf s p now : st_wf s -> st_wf (fst (st_search s p now)).
Proof. apply (st_search_inv st_wf wf_pending wf_head). Qed.
Lemma st_get_wf s id now : st_wf s -> st_wf (fst (st_get s id now)).
Proof. apply (st_get_inv st_wf wf_pending wf_head). Qed.
Lemma st_Rem_wf s id now : st_wf s -> st_wf (fst (st_Rem s id now)).
Proof. apply (st_Rem_inv st_wf wf_pending wf_head). Qed.
Lemma st_find_rules_wf s ev now : st_wf s -> st_wf (fst (st_find_rules s ev now)).
Proof. apply (st_find_rules_inv st_wf wf_pending wf_head). Qed.

(** * The effect of add *)

Definition will_fail (s : state) : bool :=
  match st_fail s with Some n => Nat.eqb n (st_calls s) | None => false end.

Inductive add_case := AC_noop | AC_idx_fail | AC_idx_ok | AC_lin_fail | AC_lin_hook | AC_lin_ok.

Definition ac_called c := match c with AC_noop | AC_lin_hook => false | _ => true end.
Definition ac_mem c := match c with AC_idx_fail | AC_idx_ok | AC_lin_ok => true | _ => false end.
Definition ac_sto c := match c with AC_idx_ok | AC_lin_ok => true | _ => false end.

Definition ac_cond (c : add_case) (s : state) (id : string) (fact : json) (r : outcome string) : Prop :=
  match c with
  | AC_noop => st_kind s = Indexed /\ exists e, r = Err e
  | AC_idx_fail => st_kind s = Indexed /\ will_fail s = true /\ r = Err "storage"
  | AC_idx_ok => st_kind s = Indexed /\ will_fail s = false /\ add_hook_err s fact = None /\ r = Ok id
  | AC_lin_fail => st_kind s = Linear /\ will_fail s = true /\ r = Err "storage"
  | AC_lin_hook => st_kind s = Linear /\ exists e, add_hook_err s fact = Some e /\ r = Err e
  | AC_lin_ok => st_kind s = Linear /\ will_fail s = false /\ add_hook_err s fact = None /\ r = Ok id
  end.

Definition add_fields (c : add_case) (s : state) (id : string) (fact : json) (s' : state) : Prop :=
  st_kind s' = st_kind s /\ st_hooks s' = st_hooks s /\ st_fail s' = st_fail s /\
  st_calls s' = (if ac_called c then S (st_calls s) else st_calls s) /\
  st_facts s' = (if ac_mem c then ainsert id fact (st_facts s) else st_facts s) /\
  st_store s' = (if ac_sto c then ainsert id fact (st_store s) else st_store s) /\
  st_tindex s' = (match st_kind s with
                  | Indexed => if ac_mem c
                               then fold_left (fun idx t => ti_add t id idx) (extract_terms fact) (st_tindex s)
                               else st_tindex s
                  | Linear => st_tindex s
                  end).

Lemma add_fields_eqp c s s0 id fact :
  eqp s s0 -> ac_called c = false -> ac_mem c = false -> ac_sto c = false -> add_fields c s id fact s0.
Proof.
  intros (H1 & H2 & H3 & H4 & H5 & H6 & H7 & H8) C1 C2 C3.
  unfold add_fields. rewrite C1, C2, C3. repeat split; auto. destruct (st_kind s); auto.
Qed.

Lemma st_add_prepare_err s g x now fr aux :
  (forall p, prepare_fact g x now fr aux <> Ok p) ->
  st_add s g x now fr aux =
  (s, match prepare_fact g x now fr aux with
      | Ok _ => Err "" | Err e => Err e | Panic w => Panic w | OutOfFuel => OutOfFuel end).
Proof.
  intros H. unfold st_add. destruct (prepare_fact g x now fr aux) as [[id fact]|e|w|]; try reflexivity.
  exfalso. eapply H. reflexivity.
Qed.

Lemma st_add_shape s g x now fr aux id fact :
  prepare_fact g x now fr aux = Ok (id, fact) ->
  exists c, add_fields c s id fact (fst (st_add s g x now fr aux)) /\
            ac_cond c s id fact (snd (st_add s g x now fr aux)).
Proof.
  intros Hp. unfold st_add. rewrite Hp. destruct (st_kind s) eqn:Hk.
  - destruct (extract_rule fact false) as [rule|e|w|] eqn:Er.
    2:{ exists AC_noop. cbn [fst snd]. split; [apply add_fields_eqp; auto using eqp_refl|].
        split; [exact Hk|eauto]. }
    2-3: unfold extract_rule in Er; destruct (jget "rule" fact) as [[]|]; discriminate.
    destruct (add_hook_err s fact) as [e|] eqn:Eh.
    + exists AC_noop. cbn [fst snd]. split; [|split; [exact Hk|eauto]].
      apply add_fields_eqp; try reflexivity.
      destruct rule as [r|]; [|apply eqp_refl].
      destruct (is_scheduled r); [apply eqp_refl|].
      destruct (st_add_mem_idx s id fact) as [s' e'] eqn:E.
      apply st_add_mem_idx_spec in E. destruct E as (s2 & He & Hs').
      destruct He as (H1 & H2 & H3 & H4 & H5 & H6 & H7 & H8).
      unfold eqp. destruct e'; subst s'; cbn; repeat split; auto.
    + destruct (st_add_mem_idx s id fact) as [s1 [e|]] eqn:E.
      * apply st_add_mem_idx_spec in E. destruct E as (s2 & He & ->).
        exists AC_noop. cbn [fst snd]. split; [apply add_fields_eqp; auto|split; [exact Hk|eauto]].
      * apply st_add_mem_idx_spec in E. destruct E as (s2 & He & ->).
        destruct He as (H1 & H2 & H3 & H4 & H5 & H6 & H7 & H8).
        unfold store_call.
        cbn [st_fail st_calls set_facts set_tindex].
        rewrite H6, H7. fold (will_fail s).
        destruct (will_fail s) eqn:Ew.
        -- exists AC_idx_fail. cbn [fst snd]. split; [|repeat split; auto].
           unfold add_fields. cbn. rewrite Hk, H2, H3. repeat split; auto; congruence.
        -- exists AC_idx_ok. cbn [fst snd]. split; [|repeat split; auto].
           unfold add_fields. cbn. rewrite Hk, H2, H3, H4. repeat split; auto; congruence.
  - destruct (add_hook_err s fact) as [e|] eqn:Eh.
    + exists AC_lin_hook. cbn [fst snd]. split; [|split; [exact Hk|eauto]].
      apply add_fields_eqp; auto using eqp_refl.
    + unfold store_call. fold (will_fail s).
      destruct (will_fail s) eqn:Ew.
      * exists AC_lin_fail. cbn [fst snd]. split; [|repeat split; auto].
        unfold add_fields. cbn. rewrite Hk. repeat split; auto.
      * exists AC_lin_ok. cbn [fst snd]. split; [|repeat split; auto].
        unfold add_fields. cbn. rewrite Hk. repeat split; auto.
Qed.

(** * The effect of clear *)

Lemma st_clear_shape s :
  let s' := fst (st_clear s) in
  st_kind s' = st_kind s /\ st_hooks s' = st_hooks s /\ st_fail s' = st_fail s /\
  st_calls s' = S (st_calls s) /\
  (if will_fail s
   then snd (st_clear s) = Err "storage" /\ st_store s' = st_store s /\
        match st_kind s with
        | Indexed => st_facts s' = st_facts s /\ st_tindex s' = st_tindex s
        | Linear => st_facts s' = [] /\ st_tindex s' = st_tindex s
        end
   else snd (st_clear s) = Ok tt /\ st_store s' = [] /\ st_facts s' = [] /\
        match st_kind s with Indexed => st_tindex s' = [] | Linear => st_tindex s' = st_tindex s end).
Proof.
  unfold st_clear, store_call. fold (will_fail s).
  destruct (st_kind s) eqn:Hk; destruct (will_fail s); cbn; rewrite ?Hk; repeat split; auto.
Qed.
