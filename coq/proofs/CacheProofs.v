(** C17 - proofs of the statements of proofs/CacheSpec.v about the location
    cache model (theories/Cache.v). *)
From Coq Require Import Lia.
From Verif Require Import Json Outcome Cache AssocLemmas CacheSpec.

(** * Sequential part *)

(** ** Running from a state *)

Fixpoint crun_from (cf : cconf) (s : csys) (h : list creq) : csys * list cobs :=
  match h with
  | [] => (s, [])
  | q :: r => let '(s1, o) := crequest cf s q in
              let '(s2, os) := crun_from cf s1 r in (s2, o :: os)
  end.

Lemma crun_fold cf h : forall s out,
  fold_left (fun acc q => let '(s, out) := acc in
                          let '(s', o) := crequest cf s q in (s', (out ++ [o])%list)) h (s, out)
  = (fst (crun_from cf s h), (out ++ snd (crun_from cf s h))%list).
Proof.
  induction h as [|q r IH]; intros s out; cbn [fold_left crun_from].
  - cbn. rewrite app_nil_r. reflexivity.
  - destruct (crequest cf s q) as [s1 o] eqn:E. rewrite IH.
    destruct (crun_from cf s1 r) as [s2 os]. cbn. rewrite <- app_assoc. reflexivity.
Qed.

Lemma crun_eq cf h : crun cf h = crun_from cf csys0 h.
Proof. unfold crun. rewrite crun_fold. destruct (crun_from cf csys0 h); reflexivity. Qed.

Lemma crun_from_app cf h1 : forall s h2,
  crun_from cf s (h1 ++ h2) =
  (fst (crun_from cf (fst (crun_from cf s h1)) h2),
   (snd (crun_from cf s h1) ++ snd (crun_from cf (fst (crun_from cf s h1)) h2))%list).
Proof.
  induction h1 as [|q r IH]; intros s h2; cbn [app crun_from].
  - cbn. destruct (crun_from cf s h2); reflexivity.
  - destruct (crequest cf s q) as [s1 o]. rewrite IH.
    destruct (crun_from cf s1 r) as [s2 os]. cbn. reflexivity.
Qed.

(** induction over reachable states *)
Lemma creachable_ind cf (P : csys -> Prop) :
  P csys0 -> (forall s q, P s -> P (fst (crequest cf s q))) ->
  forall s, creachable cf s -> P s.
Proof.
  intros H0 Hstep s [h ->]. rewrite crun_eq.
  induction h as [|q r IH] using rev_ind.
  - exact H0.
  - rewrite crun_from_app. cbn [fst crun_from].
    destruct (crequest cf (fst (crun_from cf csys0 r)) q) as [s1 o] eqn:E. cbn [fst].
    specialize (Hstep _ q IH). rewrite E in Hstep. exact Hstep.
Qed.

(** ** The pieces of a request *)

Definition cached_of (cf : cconf) : bool :=
  negb (match cf_ttl cf with Some 0 => true | _ => false end) || cf_pending cf.

Definition exp0_of (cf : cconf) (now : Z) : option Z :=
  match cf_ttl cf with None => None | Some d => Some (now + d) end.

Definition blocked_of (cf : cconf) (s : csys) (name : string) (check : bool) : bool :=
  check && cf_check cf && negb (mem_str name (cs_created s)).

(** Open of an entry that holds an instance: the caller is counted *)
Lemma copen_hit cf s name check now e i :
  alookup name (cs_cache s) = Some e -> ce_inst e = Some i ->
  copen cf s name check now =
  (set_cache s (ainsert name (mkEntry (ce_expires e) (S (ce_pending e)) (Some i)) (cs_cache s)), Ok i).
Proof.
  intros He Hi. unfold copen, expire. rewrite He. cbn. rewrite Hi. reflexivity.
Qed.

(** Open without an entry: a new entry whose first user is the caller; it
    stays in the map (if entries are cached at all) whether the load succeeds
    or not *)
Lemma copen_absent cf s name check now :
  alookup name (cs_cache s) = None ->
  copen cf s name check now =
  if blocked_of cf s name check then
    ((if cached_of cf
      then set_cache (set_cache s (ainsert name (mkEntry (exp0_of cf now) 1 None) (cs_cache s)))
                     (ainsert name (mkEntry (exp0_of cf now) 1 None)
                              (ainsert name (mkEntry (exp0_of cf now) 1 None) (cs_cache s)))
      else s), Err "notfound")
  else
    let i := cs_next s in
    let exp := match alookup name (cs_cache_ttl s) with Some ms => Some (now + ms) | None => exp0_of cf now end in
    (mkCsys (if cached_of cf
             then ainsert name (mkEntry exp 1 (Some i))
                          (ainsert name (mkEntry (exp0_of cf now) 1 None) (cs_cache s))
             else cs_cache s)
            (S i) ((name, i) :: cs_loads s) (cs_ver s) ((i, ver_of s name) :: cs_mem s)
            (cs_created s) (cs_cache_ttl s), Ok i).
Proof.
  intros He. unfold copen, expire. rewrite He.
  change (negb (match cf_ttl cf with Some 0 => true | _ => false end) || cf_pending cf) with (cached_of cf).
  change (match cf_ttl cf with None => None | Some d => Some (now + d) end) with (exp0_of cf now).
  unfold blocked_of. cbv zeta.
  destruct (cached_of cf); unfold entry_get; cbn [ce_inst cs_created set_cache];
    destruct (check && cf_check cf && negb (mem_str name (cs_created s))); reflexivity.
Qed.

Definition live_of (e : centry) (now : Z) : bool :=
  match ce_expires e with None => true | Some t => now <? t end.

Definition loaded_of (e : centry) : bool :=
  match ce_inst e with Some _ => true | None => false end.

(** Release keeps the entry while somebody else uses it, or if it holds an instance whose time is not up *)
Definition keep_of (e : centry) (now : Z) : bool :=
  (0 <? Nat.pred (ce_pending e))%nat || (loaded_of e && live_of e now).

Lemma crelease_eq s name now :
  crelease s name now =
  match alookup name (cs_cache s) with
  | None => s
  | Some e => if keep_of e now
              then set_cache s (ainsert name (mkEntry (ce_expires e) (Nat.pred (ce_pending e)) (ce_inst e)) (cs_cache s))
              else set_cache s (aremove name (cs_cache s))
  end.
Proof.
  unfold crelease, expire, keep_of, loaded_of, live_of. destruct (alookup name (cs_cache s)) as [e|]; [|reflexivity].
  cbn [ce_pending ce_inst ce_expires].
  destruct ((0 <? Nat.pred (ce_pending e))%nat ||
            (match ce_inst e with Some _ => true | None => false end &&
             match ce_expires e with None => true | Some t => now <? t end)); reflexivity.
Qed.

Lemma crelease_fields s name now :
  cs_next (crelease s name now) = cs_next s /\ cs_loads (crelease s name now) = cs_loads s /\
  cs_ver (crelease s name now) = cs_ver s /\ cs_mem (crelease s name now) = cs_mem s /\
  cs_created (crelease s name now) = cs_created s /\ cs_cache_ttl (crelease s name now) = cs_cache_ttl s.
Proof.
  rewrite crelease_eq. destruct (alookup name (cs_cache s)) as [e|]; [destruct (keep_of e now)|]; cbn; auto 10.
Qed.

Lemma crelease_lookup s name now n :
  alookup n (cs_cache (crelease s name now)) =
  if String.eqb n name then
    match alookup name (cs_cache s) with
    | Some e => if keep_of e now then Some (mkEntry (ce_expires e) (Nat.pred (ce_pending e)) (ce_inst e)) else None
    | None => None
    end
  else alookup n (cs_cache s).
Proof.
  rewrite crelease_eq. destruct (alookup name (cs_cache s)) as [e|] eqn:He.
  - destruct (keep_of e now); cbn [cs_cache set_cache].
    + rewrite alookup_ainsert. reflexivity.
    + rewrite alookup_aremove. reflexivity.
  - destruct (String.eqb_spec n name) as [->|Hne]; [exact He|reflexivity].
Qed.

(** a surviving entry is an old entry with the same instance and expiry *)
Lemma crelease_lookup_some s name now n e' :
  alookup n (cs_cache (crelease s name now)) = Some e' ->
  exists e, alookup n (cs_cache s) = Some e /\ ce_inst e' = ce_inst e /\ ce_expires e' = ce_expires e.
Proof.
  rewrite crelease_lookup. destruct (String.eqb_spec n name) as [->|Hne].
  - destruct (alookup name (cs_cache s)) as [e|]; [|discriminate].
    destruct (keep_of e now); [|discriminate]. intros [= <-]. exists e. auto.
  - intros H. exists e'. auto.
Qed.

(** the last user's Release: the entry stays iff it holds an instance whose time is not up *)
Lemma keep_of_last e now : ce_pending e = 1%nat -> keep_of e now = loaded_of e && live_of e now.
Proof. intros H. unfold keep_of. rewrite H. reflexivity. Qed.

(** the use of the instance between Open and Release *)
Definition cuse (s1 : csys) (q : creq) (i : nat) : csys :=
  match cq_kind q with
  | KRead => s1
  | KWrite => bump s1 (cq_name q) i
  | KCreate =>
      let s' := bump s1 (cq_name q) i in
      mkCsys (cs_cache s') (cs_next s') (cs_loads s') (cs_ver s') (cs_mem s')
             (if mem_str (cq_name q) (cs_created s') then cs_created s' else cq_name q :: cs_created s')
             (cs_cache_ttl s')
  | KSetCacheTTL ms =>
      let s' := bump s1 (cq_name q) i in
      mkCsys (cs_cache s') (cs_next s') (cs_loads s') (cs_ver s') (cs_mem s') (cs_created s')
             (ainsert (cq_name q) ms (cs_cache_ttl s'))
  end.

Definition check_of (q : creq) : bool := match cq_kind q with KCreate => false | _ => true end.

Lemma crequest_eq cf s q :
  crequest cf s q =
  match copen cf s (cq_name q) (check_of q) (cq_now q) with
  | (s1, Ok i) => (crelease (cuse s1 q i) (cq_name q) (cq_now q),
                   mkCobs (Ok i) (negb (Nat.eqb (mem_of s1 i) (ver_of s1 (cq_name q)))))
  | (s1, r) => (crelease s1 (cq_name q) (cq_now q), mkCobs r false)
  end.
Proof. reflexivity. Qed.

Lemma cuse_fields s1 q i :
  cs_cache (cuse s1 q i) = cs_cache s1 /\ cs_next (cuse s1 q i) = cs_next s1 /\
  cs_loads (cuse s1 q i) = cs_loads s1.
Proof. unfold cuse, bump. destruct (cq_kind q); cbn; auto. Qed.

Lemma ver_of_bump s name i n :
  ver_of (bump s name i) n = if String.eqb n name then S (ver_of s name) else ver_of s n.
Proof. unfold ver_of at 1. unfold bump. cbn [cs_ver]. rewrite alookup_ainsert. destruct (String.eqb n name); reflexivity. Qed.

Lemma mem_of_bump s name i j :
  mem_of (bump s name i) j = if Nat.eqb i j then S (ver_of s name) else mem_of s j.
Proof. unfold mem_of, bump. cbn [cs_mem nlookup]. destruct (Nat.eqb i j); reflexivity. Qed.

(** what the use does to versions: nothing (read) or a write-through bump *)
Lemma cuse_versions s1 q i :
  (cq_kind q = KRead /\ forall n j, ver_of (cuse s1 q i) n = ver_of s1 n /\ mem_of (cuse s1 q i) j = mem_of s1 j) \/
  (forall n j, ver_of (cuse s1 q i) n = ver_of (bump s1 (cq_name q) i) n /\
               mem_of (cuse s1 q i) j = mem_of (bump s1 (cq_name q) i) j).
Proof.
  unfold cuse. destruct (cq_kind q); [left; split; [reflexivity|auto] | right; intros; split; reflexivity ..].
Qed.

(** ** The invariant *)

(** between requests: every entry holds an instance and nobody uses it *)
Record Inv (s : csys) : Prop := mkInv {
  inv_loaded : forall n e, alookup n (cs_cache s) = Some e -> exists i, ce_inst e = Some i;
  inv_idle : forall n e, alookup n (cs_cache s) = Some e -> ce_pending e = 0%nat;
  inv_logged : forall n e i, alookup n (cs_cache s) = Some e -> ce_inst e = Some i -> In (n, i) (cs_loads s);
  inv_fresh : forall n i, In (n, i) (cs_loads s) -> (i < cs_next s)%nat;
  inv_owner : forall n1 n2 i, In (n1, i) (cs_loads s) -> In (n2, i) (cs_loads s) -> n1 = n2;
  inv_sync : forall n e i, alookup n (cs_cache s) = Some e -> ce_inst e = Some i -> mem_of s i = ver_of s n;
}.

(** inside a request for [name] (between its Open and its Release): the
    entry of [name], if there is one, has exactly one user and may hold no
    instance (the Open failed) *)
Record MInv (name : string) (s : csys) : Prop := mkMInv {
  m_loaded : forall n e, alookup n (cs_cache s) = Some e -> n <> name -> exists i, ce_inst e = Some i;
  m_idle : forall n e, alookup n (cs_cache s) = Some e -> n <> name -> ce_pending e = 0%nat;
  m_one : forall e, alookup name (cs_cache s) = Some e -> ce_pending e = 1%nat;
  m_logged : forall n e i, alookup n (cs_cache s) = Some e -> ce_inst e = Some i -> In (n, i) (cs_loads s);
  m_fresh : forall n i, In (n, i) (cs_loads s) -> (i < cs_next s)%nat;
  m_owner : forall n1 n2 i, In (n1, i) (cs_loads s) -> In (n2, i) (cs_loads s) -> n1 = n2;
  m_sync : forall n e i, alookup n (cs_cache s) = Some e -> ce_inst e = Some i -> mem_of s i = ver_of s n;
}.

Lemma Inv0 : Inv csys0.
Proof. split; cbn; intros; try discriminate; contradiction. Qed.

Lemma Inv_release s name now : MInv name s -> Inv (crelease s name now).
Proof.
  intros [H1 H0 Hone H2 H3 H4 H5].
  destruct (crelease_fields s name now) as (Fn & Fl & Fv & Fm & _ & _).
  assert (Hver : forall n, ver_of (crelease s name now) n = ver_of s n) by (intros; unfold ver_of; rewrite Fv; reflexivity).
  assert (Hmem : forall j, mem_of (crelease s name now) j = mem_of s j) by (intros; unfold mem_of; rewrite Fm; reflexivity).
  assert (Hl : forall n e', alookup n (cs_cache (crelease s name now)) = Some e' ->
               ce_pending e' = 0%nat /\ exists i, ce_inst e' = Some i).
  { intros n e'. rewrite crelease_lookup. destruct (String.eqb_spec n name) as [->|Hne].
    - destruct (alookup name (cs_cache s)) as [e|] eqn:He; [|discriminate].
      rewrite (keep_of_last e now (Hone _ eq_refl)).
      destruct (loaded_of e) eqn:Hld; [|discriminate]. destruct (live_of e now); [|discriminate].
      intros [= <-]. cbn [ce_pending ce_inst]. rewrite (Hone _ eq_refl). split; [reflexivity|].
      unfold loaded_of in Hld. destruct (ce_inst e) as [i|]; [eauto|discriminate].
    - intros He'. split; eauto. }
  split.
  - intros n e' He'. apply Hl in He'. tauto.
  - intros n e' He'. apply Hl in He'. tauto.
  - intros n e' i He' Hi'. apply crelease_lookup_some in He' as (e & He & Hi & _). rewrite Fl. rewrite Hi in Hi'. eauto.
  - intros n i. rewrite Fl, Fn. apply H3.
  - intros n1 n2 i. rewrite Fl. apply H4.
  - intros n e' i He' Hi'. apply crelease_lookup_some in He' as (e & He & Hi & _). rewrite Hi in Hi'.
    rewrite Hver, Hmem. eauto.
Qed.

(** after Open: the mid-request invariant, and after a successful Open the
    served instance is the logged, current, cached one *)
Lemma Inv_open cf s name check now :
  Inv s ->
  MInv name (fst (copen cf s name check now)) /\
  forall i, snd (copen cf s name check now) = Ok i ->
    In (name, i) (cs_loads (fst (copen cf s name check now))) /\
    mem_of (fst (copen cf s name check now)) i = ver_of (fst (copen cf s name check now)) name /\
    (forall e, alookup name (cs_cache (fst (copen cf s name check now))) = Some e -> ce_inst e = Some i).
Proof.
  intros [H1 H0 H2 H3 H4 H5].
  destruct (alookup name (cs_cache s)) as [e|] eqn:He.
  - destruct (H1 _ _ He) as [i Hi]. rewrite (copen_hit cf s name check now e i He Hi). cbn [fst snd].
    assert (Hl : forall n e', alookup n (cs_cache (set_cache s (ainsert name (mkEntry (ce_expires e) (S (ce_pending e)) (Some i)) (cs_cache s)))) = Some e' ->
                 (n = name /\ e' = mkEntry (ce_expires e) (S (ce_pending e)) (Some i)) \/
                 (n <> name /\ alookup n (cs_cache s) = Some e')).
    { intros n e'. cbn [cs_cache set_cache]. rewrite alookup_ainsert.
      destruct (String.eqb_spec n name) as [->|Hne].
      - intros [= <-]. left. auto.
      - intros H. right. auto. }
    split; [split|].
    + intros n e' He' Hne. apply Hl in He' as [[-> _]|[_ He']]; [congruence|eauto].
    + intros n e' He' Hne. apply Hl in He' as [[-> _]|[_ He']]; [congruence|eauto].
    + intros e' He'. apply Hl in He' as [[_ ->]|[Hne _]]; [|congruence]. cbn [ce_pending]. rewrite (H0 _ _ He). reflexivity.
    + intros n e' i' He' Hi'. cbn [cs_loads set_cache]. apply Hl in He' as [[-> ->]|[_ He']]; [|eauto].
      cbn [ce_inst] in Hi'. injection Hi' as <-. eauto.
    + exact H3.
    + exact H4.
    + intros n e' i' He' Hi'. change (mem_of s i' = ver_of s n). apply Hl in He' as [[-> ->]|[_ He']]; [|eauto].
      cbn [ce_inst] in Hi'. injection Hi' as <-. eauto.
    + intros i' [= <-]. split; [|split].
      * cbn [cs_loads set_cache]. eauto.
      * change (mem_of s i = ver_of s name). eauto.
      * intros e'. cbn [cs_cache set_cache]. rewrite alookup_ainsert_same. intros [= <-]. reflexivity.
  - rewrite (copen_absent cf s name check now He).
    destruct (blocked_of cf s name check).
    + cbn [fst snd]. split; [|intros i; discriminate].
      set (E := mkEntry (exp0_of cf now) 1 None).
      set (s1 := if cached_of cf then _ else s).
      assert (Hf : cs_loads s1 = cs_loads s /\ cs_next s1 = cs_next s /\ cs_ver s1 = cs_ver s /\ cs_mem s1 = cs_mem s).
      { subst s1. destruct (cached_of cf); cbn; auto. }
      destruct Hf as (Fl & Fn & Fv & Fm).
      assert (Hl : forall n e', alookup n (cs_cache s1) = Some e' ->
                   (n = name /\ e' = E) \/ (n <> name /\ alookup n (cs_cache s) = Some e')).
      { intros n e'. subst s1. destruct (cached_of cf); cbn [cs_cache set_cache].
        - rewrite !alookup_ainsert. destruct (String.eqb_spec n name) as [->|Hne].
          + intros [= <-]. left. auto.
          + intros H. right. auto.
        - destruct (String.eqb_spec n name) as [->|Hne]; [rewrite He; discriminate|]. intros H. right. auto. }
      assert (Hver : forall n, ver_of s1 n = ver_of s n) by (intros; unfold ver_of; rewrite Fv; reflexivity).
      assert (Hmem : forall j, mem_of s1 j = mem_of s j) by (intros; unfold mem_of; rewrite Fm; reflexivity).
      split; rewrite ?Fl, ?Fn.
      * intros n e' He' Hne. apply Hl in He' as [[-> _]|[_ He']]; [congruence|eauto].
      * intros n e' He' Hne. apply Hl in He' as [[-> _]|[_ He']]; [congruence|eauto].
      * intros e' He'. apply Hl in He' as [[_ ->]|[Hne _]]; [reflexivity|congruence].
      * intros n e' i He' Hi'. apply Hl in He' as [[_ ->]|[_ He']]; [discriminate|eauto].
      * exact H3.
      * exact H4.
      * intros n e' i He' Hi'. rewrite Hver, Hmem. apply Hl in He' as [[_ ->]|[_ He']]; [discriminate|eauto].
    + cbv zeta. cbn [fst snd].
      set (exp := match alookup name (cs_cache_ttl s) with Some ms => Some (now + ms) | None => exp0_of cf now end).
      set (c' := if cached_of cf then _ else _).
      assert (Hl : forall n e', alookup n c' = Some e' ->
                   (n = name /\ e' = mkEntry exp 1 (Some (cs_next s))) \/ (n <> name /\ alookup n (cs_cache s) = Some e')).
      { intros n e'. subst c'. destruct (String.eqb_spec n name) as [->|Hne].
        - destruct (cached_of cf).
          + rewrite alookup_ainsert_same. intros [= <-]. left. auto.
          + rewrite He. discriminate.
        - destruct (cached_of cf); [rewrite !alookup_ainsert_other by exact Hne|]; auto. }
      assert (Hmem : forall j, (j < cs_next s)%nat ->
                mem_of (mkCsys c' (S (cs_next s)) ((name, cs_next s) :: cs_loads s) (cs_ver s)
                               ((cs_next s, ver_of s name) :: cs_mem s) (cs_created s) (cs_cache_ttl s)) j = mem_of s j).
      { intros j Hj. unfold mem_of. cbn [cs_mem nlookup]. destruct (Nat.eqb_spec (cs_next s) j); [lia|reflexivity]. }
      split; [split|]; cbn [cs_cache cs_loads cs_next].
      * intros n e' He' Hne. apply Hl in He' as [[-> _]|[_ He']]; [congruence|eauto].
      * intros n e' He' Hne. apply Hl in He' as [[-> _]|[_ He']]; [congruence|eauto].
      * intros e' He'. apply Hl in He' as [[_ ->]|[Hne _]]; [reflexivity|congruence].
      * intros n e' i He' Hi'. apply Hl in He' as [[-> ->]|[_ He']].
        -- cbn [ce_inst] in Hi'. injection Hi' as <-. left. reflexivity.
        -- right. eauto.
      * intros n i [[= <- <-]|Hin]; [lia|]. apply H3 in Hin. lia.
      * intros n1 n2 i [E1|Hin1] [E2|Hin2].
        -- congruence.
        -- injection E1 as <- <-. apply H3 in Hin2. lia.
        -- injection E2 as <- <-. apply H3 in Hin1. lia.
        -- eauto.
      * intros n e' i He' Hi'. apply Hl in He' as [[-> ->]|[Hne He']].
        -- cbn [ce_inst] in Hi'. injection Hi' as <-. unfold mem_of. cbn [cs_mem nlookup]. rewrite Nat.eqb_refl. reflexivity.
        -- rewrite Hmem by (eapply H3, H2; eauto). change (mem_of s i = ver_of s n). eauto.
      * intros i [= <-]. split; [left; reflexivity|split].
        -- unfold mem_of. cbn [cs_mem nlookup]. rewrite Nat.eqb_refl. reflexivity.
        -- intros e' He'. apply Hl in He' as [[_ ->]|[Hne _]]; [reflexivity|congruence].
Qed.

Lemma Inv_use s1 q i :
  MInv (cq_name q) s1 -> In (cq_name q, i) (cs_loads s1) ->
  (forall e, alookup (cq_name q) (cs_cache s1) = Some e -> ce_inst e = Some i) ->
  MInv (cq_name q) (cuse s1 q i).
Proof.
  intros [H1 H0 Hone H2 H3 H4 H5] Hin Hslot.
  destruct (cuse_fields s1 q i) as (Fc & Fn & Fl).
  split; rewrite ?Fc, ?Fn, ?Fl; auto.
  intros n e i' He Hi'.
  destruct (cuse_versions s1 q i) as [[_ Hv]|Hv].
  - destruct (Hv n i') as [-> ->]. eauto.
  - destruct (Hv n i') as [-> ->]. rewrite ver_of_bump, mem_of_bump.
    destruct (String.eqb_spec n (cq_name q)) as [->|Hne].
    + rewrite (Hslot _ He) in Hi'. injection Hi' as <-. rewrite Nat.eqb_refl. reflexivity.
    + destruct (Nat.eqb_spec i i') as [<-|Hni]; [|eauto].
      exfalso. apply Hne. eapply H4; eauto.
Qed.

(** one request: the invariant is kept and the answer is not stale *)
Lemma Inv_request cf s q :
  Inv s -> Inv (fst (crequest cf s q)) /\ co_stale (snd (crequest cf s q)) = false.
Proof.
  intros HI. rewrite crequest_eq.
  destruct (Inv_open cf s (cq_name q) (check_of q) (cq_now q) HI) as [HI1 Hpost].
  destruct (copen cf s (cq_name q) (check_of q) (cq_now q)) as [s1 r]. cbn [fst snd] in *.
  destruct r as [i| | |]; cbn [fst snd co_stale]; try (split; [apply Inv_release; exact HI1|reflexivity]).
  destruct (Hpost i eq_refl) as (Hin & Hsync & Hslot).
  split.
  - apply Inv_release, Inv_use; assumption.
  - rewrite Hsync, Nat.eqb_refl. reflexivity.
Qed.

Lemma Inv_reachable cf s : creachable cf s -> Inv s.
Proof.
  apply creachable_ind.
  - exact Inv0.
  - intros s0 q HI. apply Inv_request. exact HI.
Qed.

Lemma run_never_stale cf h : forall s, Inv s -> none_stale (snd (crun_from cf s h)).
Proof.
  induction h as [|q r IH]; intros s HI o; cbn [crun_from].
  - cbn. contradiction.
  - destruct (Inv_request cf s q HI) as [HI1 Hst].
    destruct (crequest cf s q) as [s1 o1]. cbn [fst snd] in *.
    specialize (IH s1 HI1). destruct (crun_from cf s1 r) as [s2 os]. cbn [snd] in *.
    intros [<-|Hin]; [exact Hst|apply IH; exact Hin].
Qed.

Theorem cache_never_stale_any_history : cache_never_stale_any_history_statement.
Proof. intros cf h. rewrite crun_eq. apply run_never_stale, Inv0. Qed.

Theorem cache_never_stale : cache_never_stale_statement.
Proof. intros cf h _. apply cache_never_stale_any_history. Qed.

(** ** 3. Existence check *)

Lemma creachable_step cf s q : creachable cf s -> creachable cf (fst (crequest cf s q)).
Proof.
  intros [h ->]. exists (h ++ [q])%list. rewrite !crun_eq, crun_from_app. cbn [fst crun_from].
  destruct (crequest cf (fst (crun_from cf csys0 h)) q). reflexivity.
Qed.

Lemma copen_cases cf s name check now :
  Inv s ->
  (exists e i, alookup name (cs_cache s) = Some e /\ ce_inst e = Some i /\
     copen cf s name check now =
     (set_cache s (ainsert name (mkEntry (ce_expires e) 1 (Some i)) (cs_cache s)), Ok i)) \/
  (alookup name (cs_cache s) = None /\ blocked_of cf s name check = true /\
     copen cf s name check now =
     ((if cached_of cf
       then set_cache (set_cache s (ainsert name (mkEntry (exp0_of cf now) 1 None) (cs_cache s)))
                      (ainsert name (mkEntry (exp0_of cf now) 1 None)
                               (ainsert name (mkEntry (exp0_of cf now) 1 None) (cs_cache s)))
       else s), Err "notfound")) \/
  (alookup name (cs_cache s) = None /\ blocked_of cf s name check = false /\
     copen cf s name check now =
     (mkCsys (if cached_of cf
              then ainsert name (mkEntry (match alookup name (cs_cache_ttl s) with
                                          | Some ms => Some (now + ms) | None => exp0_of cf now end)
                                         1 (Some (cs_next s)))
                           (ainsert name (mkEntry (exp0_of cf now) 1 None) (cs_cache s))
              else cs_cache s)
             (S (cs_next s)) ((name, cs_next s) :: cs_loads s) (cs_ver s)
             ((cs_next s, ver_of s name) :: cs_mem s) (cs_created s) (cs_cache_ttl s), Ok (cs_next s))).
Proof.
  intros HI. destruct (alookup name (cs_cache s)) as [e|] eqn:He.
  - left. destruct (inv_loaded s HI _ _ He) as [i Hi]. exists e, i. split; [reflexivity|split; [exact Hi|]].
    rewrite (copen_hit cf s name check now e i He Hi). rewrite (inv_idle s HI _ _ He). reflexivity.
  - right. rewrite (copen_absent cf s name check now He).
    destruct (blocked_of cf s name check); [left|right]; auto.
Qed.

(** in the cache only if created (when existence is checked) *)
Definition EInv (cf : cconf) (s : csys) : Prop :=
  cf_check cf = true -> forall n e, alookup n (cs_cache s) = Some e -> mem_str n (cs_created s) = true.

Lemma request_outcome cf s q :
  Inv s -> EInv cf s ->
  let s' := fst (crequest cf s q) in
  if blocked_of cf s (cq_name q) (check_of q) then
    snd (crequest cf s q) = mkCobs (Err "notfound") false /\
    cs_next s' = cs_next s /\ cs_loads s' = cs_loads s /\ cs_ver s' = cs_ver s /\ cs_mem s' = cs_mem s /\
    cs_created s' = cs_created s /\ cs_cache_ttl s' = cs_cache_ttl s /\
    alookup (cq_name q) (cs_cache s') = None /\
    (forall n, n <> cq_name q -> alookup n (cs_cache s') = alookup n (cs_cache s))
  else
    exists i s1, copen cf s (cq_name q) (check_of q) (cq_now q) = (s1, Ok i) /\
      cs_ver s1 = cs_ver s /\ cs_created s1 = cs_created s /\ cs_cache_ttl s1 = cs_cache_ttl s /\
      s' = crelease (cuse s1 q i) (cq_name q) (cq_now q) /\
      co_result (snd (crequest cf s q)) = Ok i /\
      (forall n, n <> cq_name q -> alookup n (cs_cache s1) = alookup n (cs_cache s)).
Proof.
  intros HI HE s'. subst s'. rewrite crequest_eq.
  destruct (copen_cases cf s (cq_name q) (check_of q) (cq_now q) HI)
    as [(e & i & He & Hi & Heq)|[(He & Hb & Heq)|(He & Hb & Heq)]]; rewrite Heq; cbn [fst snd co_result].
  - assert (Hb : blocked_of cf s (cq_name q) (check_of q) = false).
    { unfold blocked_of. destruct (cf_check cf) eqn:Hc; [|rewrite Bool.andb_false_r; reflexivity].
      rewrite (HE Hc _ _ He). rewrite Bool.andb_false_r. reflexivity. }
    rewrite Hb. eexists _, _. split; [reflexivity|]. cbn [cs_ver cs_created cs_cache_ttl cs_cache set_cache].
    repeat split. intros n Hne. apply alookup_ainsert_other. exact Hne.
  - rewrite Hb.
    match goal with |- context [crelease ?s0 _ _] => set (s1 := s0) end.
    destruct (crelease_fields s1 (cq_name q) (cq_now q)) as (Fn & Fl & Fv & Fm & Fc & Ft).
    rewrite Fn, Fl, Fv, Fm, Fc, Ft.
    assert (Hs1 : cs_next s1 = cs_next s /\ cs_loads s1 = cs_loads s /\ cs_ver s1 = cs_ver s /\ cs_mem s1 = cs_mem s /\
                  cs_created s1 = cs_created s /\ cs_cache_ttl s1 = cs_cache_ttl s).
    { subst s1. destruct (cached_of cf); cbn; auto 10. }
    destruct Hs1 as (-> & -> & -> & -> & -> & ->). repeat split.
    + rewrite crelease_lookup, String.eqb_refl. subst s1. destruct (cached_of cf); cbn [cs_cache set_cache].
      * rewrite alookup_ainsert_same. reflexivity.
      * rewrite He. reflexivity.
    + intros n Hne. rewrite crelease_lookup. apply String.eqb_neq in Hne as Hne'. rewrite Hne'.
      subst s1. destruct (cached_of cf); cbn [cs_cache set_cache]; [rewrite !alookup_ainsert_other by exact Hne|]; reflexivity.
  - rewrite Hb. eexists _, _. split; [reflexivity|]. cbn [cs_ver cs_created cs_cache_ttl cs_cache].
    repeat split. intros n Hne.
    destruct (cached_of cf); [rewrite !alookup_ainsert_other by exact Hne|]; reflexivity.
Qed.

Lemma cuse_created_mono s1 q i n :
  mem_str n (cs_created s1) = true -> mem_str n (cs_created (cuse s1 q i)) = true.
Proof.
  unfold cuse, bump. destruct (cq_kind q); cbn [cs_created]; auto.
  intros H. destruct (mem_str (cq_name q) (cs_created s1)); [exact H|]. cbn [mem_str]. rewrite H. apply Bool.orb_true_r.
Qed.

Lemma cuse_create s1 q i :
  cq_kind q = KCreate -> mem_str (cq_name q) (cs_created (cuse s1 q i)) = true.
Proof.
  unfold cuse, bump. intros ->. cbn [cs_created].
  destruct (mem_str (cq_name q) (cs_created s1)) eqn:E; [exact E|]. cbn [mem_str]. rewrite String.eqb_refl. reflexivity.
Qed.

Lemma cuse_created_same s1 q i : cq_kind q <> KCreate -> cs_created (cuse s1 q i) = cs_created s1.
Proof. unfold cuse, bump. destruct (cq_kind q); cbn [cs_created]; congruence. Qed.

Lemma EInv_request cf s q : Inv s -> EInv cf s -> EInv cf (fst (crequest cf s q)).
Proof.
  intros HI HE Hc n e' He'.
  pose proof (request_outcome cf s q HI HE) as Hout. cbv zeta in Hout.
  destruct (blocked_of cf s (cq_name q) (check_of q)) eqn:Hb.
  - destruct Hout as (_ & _ & _ & _ & _ & Fc & _ & Hnone & Hother). rewrite Fc.
    destruct (String.eqb_spec n (cq_name q)) as [->|Hne]; [congruence|].
    rewrite Hother in He' by exact Hne. eapply HE; eauto.
  - destruct Hout as (i & s1 & Hop & Fv & Fc & Ft & Hs' & _ & Hother). rewrite Hs' in He' |- *.
    destruct (crelease_fields (cuse s1 q i) (cq_name q) (cq_now q)) as (_ & _ & _ & _ & Fc' & _). rewrite Fc'.
    apply crelease_lookup_some in He' as (e & He & _).
    destruct (cuse_fields s1 q i) as (Fcache & _). rewrite Fcache in He.
    destruct (String.eqb_spec n (cq_name q)) as [->|Hne].
    + destruct (cq_kind q) eqn:Hk; [ | |apply cuse_create; exact Hk| ];
        (apply cuse_created_mono; rewrite Fc;
         unfold blocked_of, check_of in Hb; rewrite Hk, Hc in Hb; cbn in Hb;
         destruct (mem_str (cq_name q) (cs_created s)); [reflexivity|discriminate]).
    + apply cuse_created_mono. rewrite Fc. rewrite Hother in He by exact Hne. eapply HE; eauto.
Qed.

Lemma EInv_reachable cf s : creachable cf s -> Inv s /\ EInv cf s.
Proof.
  apply (creachable_ind cf (fun s => Inv s /\ EInv cf s)).
  - split; [exact Inv0|]. intros _ n e. cbn. discriminate.
  - intros s0 q [HI HE]. split; [apply Inv_request; exact HI|apply EInv_request; assumption].
Qed.

Theorem existence_check_no_create : existence_check_no_create_statement.
Proof.
  intros cf s name k t Hr Hc Hk Hnc s'. subst s'.
  destruct (EInv_reachable cf s Hr) as [HI HE].
  pose proof (request_outcome cf s (mkCreq name k t) HI HE) as Hout. cbv zeta in Hout. cbn [cq_name] in Hout.
  assert (Hb : blocked_of cf s name (check_of (mkCreq name k t)) = true).
  { unfold blocked_of, check_of. cbn [cq_kind]. rewrite Hc, Hnc. destruct k; try reflexivity. congruence. }
  rewrite Hb in Hout. destruct Hout as (Ho & Fn & Fl & Fv & _ & Fc & Ft & Hnone & _). auto 10.
Qed.

Theorem created_succeeds : created_succeeds_statement.
Proof.
  intros cf s name k t Hr Hcr.
  destruct (EInv_reachable cf s Hr) as [HI HE].
  pose proof (request_outcome cf s (mkCreq name k t) HI HE) as Hout. cbv zeta in Hout. cbn [cq_name] in Hout.
  assert (Hb : blocked_of cf s name (check_of (mkCreq name k t)) = false).
  { unfold blocked_of. rewrite Hcr. apply Bool.andb_false_r. }
  rewrite Hb in Hout. destruct Hout as (i & s1 & _ & _ & _ & _ & _ & Ho & _). unfold ok_of. rewrite Ho. reflexivity.
Qed.

Theorem create_creates : create_creates_statement.
Proof.
  intros cf s name t Hr.
  destruct (EInv_reachable cf s Hr) as [HI HE].
  pose proof (request_outcome cf s (mkCreq name KCreate t) HI HE) as Hout. cbv zeta in Hout. cbn [cq_name] in Hout.
  change (blocked_of cf s name (check_of (mkCreq name KCreate t))) with false in Hout.
  destruct Hout as (i & s1 & _ & _ & _ & _ & Hs' & Ho & _). split.
  - unfold ok_of. rewrite Ho. reflexivity.
  - rewrite Hs'. destruct (crelease_fields (cuse s1 (mkCreq name KCreate t) i) name t) as (_ & _ & _ & _ & Fc' & _).
    cbn [cq_name cq_now]. rewrite Fc'. apply (cuse_create s1 (mkCreq name KCreate t) i). reflexivity.
Qed.

Theorem create_then_succeeds : create_then_succeeds_statement.
Proof.
  intros cf s name k t t' Hr. apply created_succeeds.
  - apply creachable_step. exact Hr.
  - apply create_creates. exact Hr.
Qed.

Theorem no_check_succeeds : no_check_succeeds_statement.
Proof.
  intros cf s name k t Hr Hc.
  destruct (EInv_reachable cf s Hr) as [HI HE].
  pose proof (request_outcome cf s (mkCreq name k t) HI HE) as Hout. cbv zeta in Hout. cbn [cq_name] in Hout.
  assert (Hb : blocked_of cf s name (check_of (mkCreq name k t)) = false).
  { unfold blocked_of. rewrite Hc. rewrite Bool.andb_false_r. reflexivity. }
  rewrite Hb in Hout. destruct Hout as (i & s1 & _ & _ & Fc & _ & Hs' & Ho & _). split.
  - unfold ok_of. rewrite Ho. reflexivity.
  - intros Hk. rewrite Hs'. destruct (crelease_fields (cuse s1 (mkCreq name k t) i) name t) as (_ & _ & _ & _ & Fc' & _).
    cbn [cq_name cq_now]. rewrite Fc'. rewrite cuse_created_same by exact Hk. exact Fc.
Qed.

(** * Concurrent first requests *)

Lemma conc_run_ind reuse cached (P : cconc -> Prop) n sched :
  P (conc_init n) -> (forall k j, P k -> P (conc_step reuse cached k j)) -> P (conc_run reuse cached n sched).
Proof.
  intros H0 Hstep. unfold conc_run. generalize (conc_init n) H0. induction sched as [|j r IH]; intros k Hk; cbn [fold_left].
  - exact Hk.
  - apply IH, Hstep, Hk.
Qed.

(** replacing client [j] *)
Lemma set_client_split k j old cl :
  nth_error (k_clients k) j = Some old ->
  exists l1 l2, k_clients k = (l1 ++ old :: l2)%list /\ set_client k j cl = (l1 ++ cl :: l2)%list.
Proof.
  intros H. apply nth_error_split in H as (l1 & l2 & Heq & Hlen). exists l1, l2. split; [exact Heq|].
  unfold set_client. rewrite Heq. subst j.
  rewrite firstn_app, firstn_all, Nat.sub_diag. cbn [firstn]. rewrite app_nil_r.
  rewrite skipn_app, skipn_all2 by lia. replace (S (length l1) - length l1)%nat with 1%nat by lia. reflexivity.
Qed.

(** the shape of a step: nothing, or client [j] (at pc 0 or 1) is replaced *)
Inductive step_shape (reuse cached : bool) (k : cconc) (j : nat) : cconc -> Prop :=
| shape_none : step_shape reuse cached k j k
| shape_A old : nth_error (k_clients k) j = Some old -> cc_pc old = 0%nat ->
    step_shape reuse cached k j (conc_stepA reuse cached k j)
| shape_B old ei : nth_error (k_clients k) j = Some old -> cc_pc old = 1%nat -> cc_entry old = Some ei ->
    step_shape reuse cached k j (conc_stepB k j ei).

Lemma conc_step_shape reuse cached k j : step_shape reuse cached k j (conc_step reuse cached k j).
Proof.
  unfold conc_step. destruct (nth_error (k_clients k) j) as [old|] eqn:Hj; [|constructor].
  destruct (Nat.eqb_spec (cc_pc old) 0) as [H0|H0]; [eapply shape_A; eauto|].
  destruct (Nat.eqb_spec (cc_pc old) 1) as [H1|H1]; [|constructor].
  destruct (cc_entry old) as [ei|] eqn:He; [eapply shape_B; eauto|constructor].
Qed.

(** ** with the repair: one load, one shared instance *)

Definition RInv (k : cconc) : Prop :=
  (k_entries k = [] /\ k_slot k = None /\ k_loads k = 0%nat /\
   Forall (fun c => cc_pc c = 0%nat) (k_clients k)) \/
  (k_entries k = [None] /\ k_slot k = Some 0%nat /\ k_loads k = 0%nat /\
   Forall (fun c => cc_pc c = 0%nat \/ (cc_pc c = 1%nat /\ cc_entry c = Some 0%nat)) (k_clients k)) \/
  (k_entries k = [Some 0%nat] /\ k_slot k = Some 0%nat /\ k_loads k = 1%nat /\
   Forall (fun c => cc_pc c = 0%nat \/ (cc_pc c = 1%nat /\ cc_entry c = Some 0%nat) \/
                    (cc_pc c = 2%nat /\ cc_got c = Some 0%nat)) (k_clients k)).

Lemma Forall_replace {A} (P Q : A -> Prop) l1 old cl l2 :
  Forall P (l1 ++ old :: l2) -> (forall x, P x -> Q x) -> Q cl -> Forall Q (l1 ++ cl :: l2).
Proof.
  intros H HPQ Hcl. apply Forall_app in H as [H1 H2]. inversion H2 as [|? ? _ H3]; subst.
  apply Forall_app. split; [|constructor; [exact Hcl|]]; eapply Forall_impl; eauto.
Qed.

Lemma Forall_mid {A} (P : A -> Prop) l1 x l2 : Forall P (l1 ++ x :: l2) -> P x.
Proof. intros H. apply Forall_app in H as [_ H]. inversion H; assumption. Qed.

Lemma RInv_step k j : RInv k -> RInv (conc_step true true k j).
Proof.
  intros HR. destruct (conc_step_shape true true k j) as [|old Hj Hpc|old ei Hj Hpc He]; [exact HR| |].
  - (* first section *)
    unfold conc_stepA.
    destruct (set_client_split k j old (mkClient 1 (Some (length (k_entries k))) None) Hj) as (l1 & l2 & Hcl & Hset1).
    destruct HR as [(Hen & Hsl & Hlo & Hall)|[(Hen & Hsl & Hlo & Hall)|(Hen & Hsl & Hlo & Hall)]];
      rewrite Hsl, ?Hen; cbn [nth length app].
    + right; left. cbn [k_entries k_slot k_loads k_clients]. repeat split; try assumption.
      rewrite Hen in Hset1. cbn [length] in Hset1. rewrite Hset1. rewrite Hcl in Hall.
      eapply Forall_replace; [exact Hall| |]; cbn; auto.
    + right; left. cbn [k_entries k_slot k_loads k_clients]. repeat split; try assumption.
      destruct (set_client_split k j old (mkClient 1 (Some 0%nat) None) Hj) as (l1' & l2' & Hcl' & Hset').
      rewrite Hset'. rewrite Hcl' in Hall. eapply Forall_replace; [exact Hall| |]; cbn; auto.
    + right; right. cbn [k_entries k_slot k_loads k_clients]. repeat split; try assumption.
      destruct (set_client_split k j old (mkClient 2 (Some 0%nat) (Some 0%nat)) Hj) as (l1' & l2' & Hcl' & Hset').
      rewrite Hset'. rewrite Hcl' in Hall. eapply Forall_replace; [exact Hall| |]; cbn; auto.
  - (* second section *)
    unfold conc_stepB.
    destruct HR as [(Hen & Hsl & Hlo & Hall)|[(Hen & Hsl & Hlo & Hall)|(Hen & Hsl & Hlo & Hall)]].
    + exfalso. apply nth_error_In in Hj. rewrite Forall_forall in Hall. rewrite (Hall _ Hj) in Hpc. discriminate.
    + assert (Hei : ei = 0%nat).
      { apply nth_error_In in Hj. rewrite Forall_forall in Hall. destruct (Hall _ Hj) as [H|[_ H]]; congruence. }
      subst ei. rewrite Hen, Hlo. cbn [nth]. right; right. cbn [k_entries k_slot k_loads k_clients].
      repeat split; try assumption.
      destruct (set_client_split k j old (mkClient 2 (Some 0%nat) (Some 0%nat)) Hj) as (l1' & l2' & Hcl' & Hset').
      rewrite Hset'. rewrite Hcl' in Hall. eapply Forall_replace; [exact Hall| |]; cbn; tauto.
    + assert (Hei : ei = 0%nat).
      { apply nth_error_In in Hj. rewrite Forall_forall in Hall. destruct (Hall _ Hj) as [H|[[_ H]|[H _]]]; congruence. }
      subst ei. rewrite Hen. cbn [nth]. right; right. cbn [k_entries k_slot k_loads k_clients].
      repeat split; try assumption.
      destruct (set_client_split k j old (mkClient 2 (Some 0%nat) (Some 0%nat)) Hj) as (l1' & l2' & Hcl' & Hset').
      rewrite Hset'. rewrite Hcl' in Hall. eapply Forall_replace; [exact Hall| |]; cbn; auto.
Qed.

Lemma RInv_init n : RInv (conc_init n).
Proof.
  left. cbn. repeat split. apply Forall_forall. intros c Hc. apply repeat_spec in Hc. subst c. reflexivity.
Qed.

Lemma clients_length reuse cached n sched : length (k_clients (conc_run reuse cached n sched)) = n.
Proof.
  apply conc_run_ind.
  - cbn. apply repeat_length.
  - intros k j Hk. destruct (conc_step_shape reuse cached k j) as [|old Hj Hpc|old ei Hj Hpc He]; [exact Hk| |].
    + assert (Hlen : forall cl, length (set_client k j cl) = n).
      { intros cl. destruct (set_client_split k j old cl Hj) as (l1 & l2 & Hcl & Hset). rewrite Hset, <- Hk, Hcl, !app_length. reflexivity. }
      unfold conc_stepA. destruct (k_slot k); [destruct (nth n0 (k_entries k) None)|]; [|destruct reuse|]; cbn [k_clients]; apply Hlen.
    + assert (Hlen : forall cl, length (set_client k j cl) = n).
      { intros cl. destruct (set_client_split k j old cl Hj) as (l1 & l2 & Hcl & Hset). rewrite Hset, <- Hk, Hcl, !app_length. reflexivity. }
      unfold conc_stepB. destruct (nth ei (k_entries k) None); cbn [k_clients]; apply Hlen.
Qed.

Theorem single_load_with_reuse : single_load_with_reuse_statement.
Proof.
  intros n sched Hn Hdone.
  assert (HR : RInv (conc_run true true n sched)) by (apply conc_run_ind; [apply RInv_init|apply RInv_step]).
  pose proof (clients_length true true n sched) as Hlen.
  unfold all_done in Hdone. rewrite forallb_forall in Hdone.
  set (K := conc_run true true n sched) in *.
  assert (Hc0 : exists c0, In c0 (k_clients K)).
  { destruct (k_clients K); [cbn in Hlen; lia|eexists; left; reflexivity]. }
  destruct Hc0 as [c0 Hin0]. pose proof (Hdone _ Hin0) as H0. apply Nat.eqb_eq in H0.
  destruct HR as [(Hen & Hsl & Hlo & Hall)|[(Hen & Hsl & Hlo & Hall)|(Hen & Hsl & Hlo & Hall)]];
    rewrite Forall_forall in Hall.
  - specialize (Hall _ Hin0). congruence.
  - destruct (Hall _ Hin0) as [H|[H _]]; congruence.
  - split; [exact Hlo|]. exists 0%nat. intros cl Hin.
    specialize (Hdone _ Hin). apply Nat.eqb_eq in Hdone.
    destruct (Hall _ Hin) as [H|[[H _]|[_ H]]]; [congruence|congruence|exact H].
Qed.

Lemma single_load_refuted_counterexample :
  let k := conc_run false true 2 [0; 1; 0; 1]%nat in
  all_done k = true /\ k_loads k = 2%nat /\
  map cc_got (k_clients k) = [Some 0%nat; Some 1%nat].
Proof. vm_compute. repeat split; reflexivity. Qed.

(** the refutation as the negation of the statement for the code as it is *)
Lemma single_load_without_reuse_false :
  ~ (forall n sched, (n >= 1)%nat -> all_done (conc_run false true n sched) = true ->
       k_loads (conc_run false true n sched) = 1%nat /\ exists i, got_all (conc_run false true n sched) i).
Proof.
  intros H. destruct (H 2%nat [0; 1; 0; 1]%nat) as [Hl _]; [lia|vm_compute; reflexivity|]. vm_compute in Hl. discriminate.
Qed.

(** ** at most one load per client, whatever the variant *)

Definition count2 (l : list cclient) : nat := length (filter (fun c => Nat.eqb (cc_pc c) 2) l).

Lemma count2_mid l1 c l2 :
  count2 (l1 ++ c :: l2) = (count2 l1 + (if Nat.eqb (cc_pc c) 2 then 1 else 0) + count2 l2)%nat.
Proof.
  unfold count2. rewrite filter_app, app_length. cbn [filter]. destruct (Nat.eqb (cc_pc c) 2); cbn [length]; lia.
Qed.

Lemma count2_le l : (count2 l <= length l)%nat.
Proof. unfold count2. induction l as [|c r IH]; cbn; [lia|]. destruct (Nat.eqb (cc_pc c) 2); cbn; lia. Qed.

Lemma loads_le_done reuse cached n sched :
  (k_loads (conc_run reuse cached n sched) <= count2 (k_clients (conc_run reuse cached n sched)))%nat.
Proof.
  apply conc_run_ind.
  - cbn. lia.
  - intros k j Hk. destruct (conc_step_shape reuse cached k j) as [|old Hj Hpc|old ei Hj Hpc He]; [exact Hk| |].
    + assert (Hc : forall cl, (k_loads k <= count2 (set_client k j cl))%nat).
      { intros cl. destruct (set_client_split k j old cl Hj) as (l1 & l2 & Hcl & Hset).
        rewrite Hset. rewrite Hcl in Hk. rewrite count2_mid in *. rewrite Hpc in Hk. cbn in Hk.
        destruct (Nat.eqb (cc_pc cl) 2); lia. }
      unfold conc_stepA. destruct (k_slot k); [destruct (nth n0 (k_entries k) None)|]; [|destruct reuse|];
        cbn [k_clients k_loads]; apply Hc.
    + assert (Hc : forall e g, (S (k_loads k) <= count2 (set_client k j (mkClient 2 e g)))%nat).
      { intros e g. destruct (set_client_split k j old (mkClient 2 e g) Hj) as (l1 & l2 & Hcl & Hset).
        rewrite Hset. rewrite Hcl in Hk. rewrite count2_mid in *. rewrite Hpc in Hk. cbn in Hk. cbn. lia. }
      unfold conc_stepB. destruct (nth ei (k_entries k) None); cbn [k_clients k_loads]; [|apply Hc].
      specialize (Hc (Some ei) (Some n0)). lia.
Qed.

Theorem loads_bounded : loads_bounded_statement.
Proof.
  intros reuse cached n sched.
  pose proof (loads_le_done reuse cached n sched) as H1.
  pose proof (count2_le (k_clients (conc_run reuse cached n sched))) as H2.
  rewrite clients_length in H2. lia.
Qed.

(** ** not cached (TTL Never without CachePending): every client loads its own instance *)

From Coq Require Import Permutation.

Lemma NoDup_mid {A} (a : A) l l' : NoDup (l ++ a :: l') <-> ~ In a (l ++ l') /\ NoDup (l ++ l').
Proof.
  split.
  - intros H. split; [apply NoDup_remove_2; exact H|eapply NoDup_remove_1; exact H].
  - intros [Hn Hd]. eapply Permutation_NoDup; [apply Permutation_middle|]. constructor; assumption.
Qed.

Lemma set_entry_split (l : list (option nat)) i v :
  (i < length l)%nat ->
  exists l1 x l2, l = (l1 ++ x :: l2)%list /\ length l1 = i /\ set_entry l i v = (l1 ++ v :: l2)%list.
Proof.
  intros Hi. destruct (nth_split l None Hi) as (l1 & l2 & Heq & Hlen).
  exists l1, (nth i l None), l2. split; [exact Heq|split; [exact Hlen|]].
  unfold set_entry. rewrite Heq at 1 2. subst i.
  rewrite firstn_app, firstn_all, Nat.sub_diag. cbn [firstn]. rewrite app_nil_r.
  rewrite skipn_app, skipn_all2 by lia. replace (S (length l1) - length l1)%nat with 1%nat by lia. reflexivity.
Qed.

Lemma set_entry_length (l : list (option nat)) i v : (i < length l)%nat -> length (set_entry l i v) = length l.
Proof.
  intros Hi. destruct (set_entry_split l i v Hi) as (l1 & x & l2 & Heq & _ & Hset). rewrite Hset, Heq, !app_length. reflexivity.
Qed.

Lemma set_entry_nth_other (l : list (option nat)) i v j :
  (i < length l)%nat -> j <> i -> nth j (set_entry l i v) None = nth j l None.
Proof.
  intros Hi Hne. destruct (set_entry_split l i v Hi) as (l1 & x & l2 & Heq & Hlen & Hset). rewrite Hset, Heq.
  destruct (Nat.lt_ge_cases j (length l1)) as [Hlt|Hge].
  - rewrite !app_nth1 by exact Hlt. reflexivity.
  - rewrite !app_nth2 by exact Hge. destruct (j - length l1)%nat as [|m] eqn:E; [lia|reflexivity].
Qed.

Definition pend (l : list cclient) : list nat :=
  flat_map (fun c => if Nat.eqb (cc_pc c) 1 then match cc_entry c with Some e => [e] | None => [] end else []) l.

Definition gots (l : list cclient) : list nat :=
  flat_map (fun c => if Nat.eqb (cc_pc c) 2 then match cc_got c with Some i => [i] | None => [] end else []) l.

Definition client_ok (E : list (option nat)) (L : nat) (c : cclient) : Prop :=
  cc_pc c = 0%nat \/
  (cc_pc c = 1%nat /\ exists ei, cc_entry c = Some ei /\ (ei < length E)%nat /\ nth ei E None = None) \/
  (cc_pc c = 2%nat /\ exists i, cc_got c = Some i /\ (i < L)%nat).

Record UInv (k : cconc) : Prop := mkUInv {
  u_slot : k_slot k = None;
  u_cl : Forall (client_ok (k_entries k) (k_loads k)) (k_clients k);
  u_pend : NoDup (pend (k_clients k));
  u_gots : NoDup (gots (k_clients k));
  u_loads : k_loads k = count2 (k_clients k);
}.

Lemma pend_mid l1 c l2 :
  pend (l1 ++ c :: l2) =
  (pend l1 ++ (if Nat.eqb (cc_pc c) 1 then match cc_entry c with Some e => [e] | None => [] end else []) ++ pend l2)%list.
Proof. unfold pend. rewrite flat_map_app. reflexivity. Qed.

Lemma gots_mid l1 c l2 :
  gots (l1 ++ c :: l2) =
  (gots l1 ++ (if Nat.eqb (cc_pc c) 2 then match cc_got c with Some i => [i] | None => [] end else []) ++ gots l2)%list.
Proof. unfold gots. rewrite flat_map_app. reflexivity. Qed.

Lemma pend_In l e : In e (pend l) <-> exists c, In c l /\ cc_pc c = 1%nat /\ cc_entry c = Some e.
Proof.
  unfold pend. rewrite in_flat_map. split.
  - intros (c & Hc & Hin). exists c. split; [exact Hc|].
    destruct (Nat.eqb_spec (cc_pc c) 1) as [H1|H1]; [|contradiction].
    destruct (cc_entry c) as [e'|]; [|contradiction]. destruct Hin as [<-|[]]. auto.
  - intros (c & Hc & H1 & He). exists c. split; [exact Hc|]. rewrite H1, He. left. reflexivity.
Qed.

Lemma gots_In l i : In i (gots l) <-> exists c, In c l /\ cc_pc c = 2%nat /\ cc_got c = Some i.
Proof.
  unfold gots. rewrite in_flat_map. split.
  - intros (c & Hc & Hin). exists c. split; [exact Hc|].
    destruct (Nat.eqb_spec (cc_pc c) 2) as [H1|H1]; [|contradiction].
    destruct (cc_got c) as [e'|]; [|contradiction]. destruct Hin as [<-|[]]. auto.
  - intros (c & Hc & H1 & He). exists c. split; [exact Hc|]. rewrite H1, He. left. reflexivity.
Qed.

Lemma pend_bound E L l e : Forall (client_ok E L) l -> In e (pend l) -> (e < length E)%nat.
Proof.
  intros Hall Hin. apply pend_In in Hin as (c & Hc & H1 & He). rewrite Forall_forall in Hall.
  destruct (Hall _ Hc) as [H|[(_ & ei & Hei & Hlt & _)|[H _]]]; congruence.
Qed.

Lemma gots_bound E L l i : Forall (client_ok E L) l -> In i (gots l) -> (i < L)%nat.
Proof.
  intros Hall Hin. apply gots_In in Hin as (c & Hc & H1 & He). rewrite Forall_forall in Hall.
  destruct (Hall _ Hc) as [H|[[H _]|(_ & i' & Hi' & Hlt)]]; congruence.
Qed.

Lemma UInv_step reuse k j : UInv k -> UInv (conc_step reuse false k j).
Proof.
  intros [U1 U2 U3 U4 U5].
  destruct (conc_step_shape reuse false k j) as [|old Hj Hpc|old ei Hj Hpc He]; [split; assumption| |].
  - (* first section: a fresh entry that nobody else can see *)
    unfold conc_stepA. rewrite U1.
    destruct (set_client_split k j old (mkClient 1 (Some (length (k_entries k))) None) Hj) as (l1 & l2 & Hcl & Hset).
    rewrite Hcl in U2, U3, U4, U5.
    split; cbn [k_slot k_entries k_loads k_clients]; rewrite ?Hset.
    + reflexivity.
    + eapply Forall_replace; [exact U2| |].
      * intros x [H|[(H1 & e & He & Hlt & Hn)|H]]; [left; exact H| |right; right; exact H].
        right; left. split; [exact H1|]. exists e. rewrite app_length, app_nth1 by exact Hlt. cbn. repeat split; [exact He|lia|exact Hn].
      * right; left. split; [reflexivity|]. exists (length (k_entries k)). cbn [cc_entry].
        rewrite app_length, app_nth2, Nat.sub_diag by lia. cbn. repeat split; lia.
    + rewrite pend_mid in *. rewrite Hpc in U3. cbn [Nat.eqb app] in U3. cbn [cc_pc cc_entry Nat.eqb app].
      apply NoDup_mid. split; [|exact U3].
      intros Hin. assert (Hin' : In (length (k_entries k)) (pend (l1 ++ old :: l2))).
      { rewrite pend_mid, Hpc. cbn [Nat.eqb app]. exact Hin. }
      apply (pend_bound _ _ _ _ U2) in Hin'. lia.
    + rewrite gots_mid in *. rewrite Hpc in U4. cbn [Nat.eqb app] in U4. cbn [cc_pc Nat.eqb app]. exact U4.
    + rewrite count2_mid in *. rewrite Hpc in U5. cbn [cc_pc Nat.eqb] in *. exact U5.
  - (* second section: the client's own entry is not loaded yet *)
    destruct (set_client_split k j old (mkClient 2 (Some ei) (Some (k_loads k))) Hj) as (l1 & l2 & Hcl & Hset).
    rewrite Hcl in U2, U3, U4, U5.
    destruct (Forall_mid _ _ _ _ U2) as [H|[(_ & ei' & Hei' & Hlt & Hnone)|[H _]]]; [congruence| |congruence].
    assert (ei' = ei) by congruence. subst ei'. clear Hei'.
    unfold conc_stepB. rewrite Hnone.
    pose proof U3 as U3'. rewrite pend_mid, Hpc, He in U3'. cbn [Nat.eqb app] in U3'.
    apply NoDup_mid in U3' as [Hfresh U3'].
    split; cbn [k_slot k_entries k_loads k_clients]; rewrite ?Hset.
    + exact U1.
    + assert (Hkeep : forall l, Forall (client_ok (k_entries k) (k_loads k)) l -> ~ In ei (pend l) ->
                      Forall (client_ok (set_entry (k_entries k) ei (Some (k_loads k))) (S (k_loads k))) l).
      { intros l Hall Hnin. rewrite Forall_forall in *. intros x Hx.
        destruct (Hall _ Hx) as [H|[(H1 & e & Hex & Hlte & Hn)|(H2 & i & Hi & Hlti)]].
        - left; exact H.
        - right; left. split; [exact H1|]. exists e. rewrite set_entry_length by exact Hlt.
          assert (e <> ei). { intros ->. apply Hnin. apply pend_In. exists x. auto. }
          rewrite set_entry_nth_other by assumption. auto.
        - right; right. split; [exact H2|]. exists i. split; [exact Hi|lia]. }
      apply Forall_app in U2 as [U2a U2b]. inversion U2b as [|? ? _ U2c]; subst.
      apply Forall_app. split; [|constructor].
      * apply Hkeep; [exact U2a|]. intros Hin. apply Hfresh, in_or_app. left; exact Hin.
      * right; right. split; [reflexivity|]. exists (k_loads k). cbn. split; [reflexivity|lia].
      * apply Hkeep; [exact U2c|]. intros Hin. apply Hfresh, in_or_app. right; exact Hin.
    + rewrite pend_mid. cbn [cc_pc Nat.eqb app]. exact U3'.
    + rewrite gots_mid in *. rewrite Hpc in U4. cbn [Nat.eqb app] in U4. cbn [cc_pc cc_got Nat.eqb app].
      apply NoDup_mid. split; [|exact U4].
      intros Hin. assert (Hin' : In (k_loads k) (gots (l1 ++ old :: l2))).
      { rewrite gots_mid, Hpc. cbn [Nat.eqb app]. exact Hin. }
      apply (gots_bound _ _ _ _ U2) in Hin'. lia.
    + rewrite count2_mid in *. rewrite Hpc in U5. cbn [cc_pc Nat.eqb] in *. lia.
Qed.

Lemma UInv_init n : UInv (conc_init n).
Proof.
  assert (H0 : forall c, In c (repeat (mkClient 0 None None) n) -> c = mkClient 0 None None) by (intros c; apply repeat_spec).
  split; cbn [conc_init k_slot k_entries k_loads k_clients].
  - reflexivity.
  - apply Forall_forall. intros c Hc. rewrite (H0 _ Hc). left. reflexivity.
  - induction n; cbn; [constructor|]. apply IHn. intros c Hc. apply H0. right. exact Hc.
  - induction n; cbn; [constructor|]. apply IHn. intros c Hc. apply H0. right. exact Hc.
  - induction n; cbn; [reflexivity|]. apply IHn. intros c Hc. apply H0. right. exact Hc.
Qed.

Lemma gots_all_done E L l :
  Forall (client_ok E L) l -> Forall (fun c => cc_pc c = 2%nat) l -> NoDup (gots l) ->
  count2 l = length l /\ Forall (fun cl => exists i, cc_got cl = Some i) l /\ NoDup (map cc_got l).
Proof.
  induction l as [|c r IH]; intros Hok Hdone Hnd.
  - cbn. repeat split; constructor.
  - inversion Hok as [|? ? Hc Hok']; subst. inversion Hdone as [|? ? Hc2 Hdone']; subst.
    destruct Hc as [H|[[H _]|(_ & i & Hi & _)]]; try congruence.
    change (gots (c :: r)) with (gots ([] ++ c :: r)) in Hnd. rewrite gots_mid, Hc2, Hi in Hnd. cbn in Hnd.
    inversion Hnd as [|? ? Hnin Hnd']; subst.
    destruct (IH Hok' Hdone' Hnd') as (IH1 & IH2 & IH3).
    split; [|split].
    + change (c :: r) with ([] ++ c :: r)%list. rewrite count2_mid, Hc2. cbn. lia.
    + constructor; [eauto|exact IH2].
    + cbn [map]. constructor; [|exact IH3]. rewrite Hi. intros Hin. apply in_map_iff in Hin as (c' & Hg & Hc').
      apply Hnin. apply gots_In. exists c'. rewrite Forall_forall in Hdone'. auto.
Qed.

Theorem uncached_loads_each : uncached_loads_each_statement.
Proof.
  intros reuse n sched Hdone.
  assert (HU : UInv (conc_run reuse false n sched)) by (apply conc_run_ind; [apply UInv_init|intros; apply UInv_step; assumption]).
  pose proof (clients_length reuse false n sched) as Hlen.
  destruct HU as [U1 U2 U3 U4 U5].
  assert (Hall : Forall (fun c => cc_pc c = 2%nat) (k_clients (conc_run reuse false n sched))).
  { unfold all_done in Hdone. rewrite forallb_forall in Hdone. apply Forall_forall. intros c Hc. apply Nat.eqb_eq, Hdone, Hc. }
  destruct (gots_all_done _ _ _ U2 Hall U4) as (H1 & H2 & H3).
  repeat split; try assumption. rewrite U5, H1. exact Hlen.
Qed.

(** * 2. Through the cache = operating the location directly *)

Definition TRel (s : csys) (d : dsys) : Prop :=
  cs_ver s = d_ver d /\ cs_created s = d_created d /\ cs_cache_ttl s = d_cache_ttl d.

Lemma step_transparent cf s d q :
  Inv s -> EInv cf s -> TRel s d ->
  TRel (fst (crequest cf s q)) (fst (drequest (cf_check cf) d q)) /\
  ok_of (snd (crequest cf s q)) = snd (drequest (cf_check cf) d q).
Proof.
  intros HI HE (Tv & Tc & Tt).
  pose proof (request_outcome cf s q HI HE) as Hout. cbv zeta in Hout.
  destruct (blocked_of cf s (cq_name q) (check_of q)) eqn:Hb.
  - destruct Hout as (Ho & _ & _ & Fv & _ & Fc & Ft & _). rewrite Ho. unfold TRel. rewrite Fv, Fc, Ft.
    unfold blocked_of, check_of in Hb. unfold drequest. rewrite <- Tc.
    destruct (cq_kind q); cbn [andb] in Hb; try discriminate; rewrite Hb; cbn; auto.
  - destruct Hout as (i & s1 & Hop & Fv & Fc & Ft & Hs' & Ho & _). rewrite Hs'.
    destruct (crelease_fields (cuse s1 q i) (cq_name q) (cq_now q)) as (_ & _ & Rv & _ & Rc & Rt).
    unfold TRel, ok_of. rewrite Rv, Rc, Rt, Ho.
    assert (Hver : ver_of s1 (cq_name q) = dver_of d (cq_name q)) by (unfold ver_of, dver_of; rewrite Fv, Tv; reflexivity).
    unfold blocked_of, check_of in Hb. unfold drequest, cuse, bump. rewrite <- Tc.
    destruct (cq_kind q); cbn [andb] in Hb; rewrite ?Hb;
      cbn [fst snd cs_ver cs_created cs_cache_ttl d_ver d_created d_cache_ttl];
      rewrite ?Hver, ?Fv, ?Fc, ?Ft, ?Tv, ?Tc, ?Tt; auto.
Qed.

Lemma run_transparent cf h : forall s d,
  Inv s -> EInv cf s -> TRel s d ->
  TRel (fst (crun_from cf s h)) (fst (drun_from (cf_check cf) d h)) /\
  map ok_of (snd (crun_from cf s h)) = snd (drun_from (cf_check cf) d h).
Proof.
  induction h as [|q r IH]; intros s d HI HE HT; cbn [crun_from drun_from].
  - cbn. auto.
  - destruct (step_transparent cf s d q HI HE HT) as [HT1 Hok].
    pose proof (Inv_request cf s q HI) as [HI1 _]. pose proof (EInv_request cf s q HI HE) as HE1.
    destruct (crequest cf s q) as [s1 o]. destruct (drequest (cf_check cf) d q) as [d1 b]. cbn [fst snd] in *.
    specialize (IH s1 d1 HI1 HE1 HT1).
    destruct (crun_from cf s1 r) as [s2 os]. destruct (drun_from (cf_check cf) d1 r) as [d2 bs]. cbn [fst snd map] in *.
    destruct IH as [IH1 IH2]. split; [exact IH1|]. rewrite Hok, IH2. reflexivity.
Qed.

Theorem cache_transparent : cache_transparent_statement.
Proof.
  intros cf h.
  assert (HE0 : EInv cf csys0) by (intros _ n e; cbn; discriminate).
  destruct (run_transparent cf h csys0 dsys0 Inv0 HE0) as [(Tv & Tc & Tt) Hok]; [repeat split|].
  rewrite crun_eq. unfold drun. repeat split; try assumption.
  rewrite <- crun_eq. apply cache_never_stale_any_history.
Qed.

Theorem results_independent_of_ttl : results_independent_of_ttl_statement.
Proof.
  intros cf1 cf2 h Hc _.
  destruct (cache_transparent cf1 h) as (V1 & C1 & T1 & O1 & S1).
  destruct (cache_transparent cf2 h) as (V2 & C2 & T2 & O2 & S2).
  change (fun o => match co_result o with Ok _ => true | _ => false end) with ok_of.
  rewrite O1, O2, C1, C2, V1, V2, T1, T2, Hc. repeat split; assumption.
Qed.

(** * 4. Forever loads once; Never reloads on every request *)

Definition live_exp (x : option Z) (now : Z) : bool :=
  match x with None => true | Some t => now <? t end.

Lemma cuse_cache_ttl_other s1 q i n :
  n <> cq_name q -> alookup n (cs_cache_ttl (cuse s1 q i)) = alookup n (cs_cache_ttl s1).
Proof.
  intros Hne. unfold cuse, bump. destruct (cq_kind q); cbn [cs_cache_ttl]; try reflexivity.
  apply alookup_ainsert_other. exact Hne.
Qed.

(** one request, by cases, seen through lookups *)
Lemma request_cases cf s q :
  Inv s ->
  let name := cq_name q in
  let now := cq_now q in
  let s' := fst (crequest cf s q) in
  let o := snd (crequest cf s q) in
  (forall n, n <> name -> alookup n (cs_cache s') = alookup n (cs_cache s) /\
                          alookup n (cs_cache_ttl s') = alookup n (cs_cache_ttl s)) /\
  ((exists e i, alookup name (cs_cache s) = Some e /\ ce_inst e = Some i /\
      o = mkCobs (Ok i) false /\ cs_next s' = cs_next s /\ cs_loads s' = cs_loads s /\
      alookup name (cs_cache s') =
        if live_exp (ce_expires e) now then Some (mkEntry (ce_expires e) 0 (Some i)) else None) \/
   (alookup name (cs_cache s) = None /\ blocked_of cf s name (check_of q) = true /\
      o = mkCobs (Err "notfound") false /\ cs_next s' = cs_next s /\ cs_loads s' = cs_loads s /\
      cs_cache_ttl s' = cs_cache_ttl s /\ alookup name (cs_cache s') = None) \/
   (alookup name (cs_cache s) = None /\ blocked_of cf s name (check_of q) = false /\
      o = mkCobs (Ok (cs_next s)) false /\ cs_next s' = S (cs_next s) /\
      cs_loads s' = (name, cs_next s) :: cs_loads s /\
      alookup name (cs_cache s') =
        let exp := match alookup name (cs_cache_ttl s) with Some ms => Some (now + ms) | None => exp0_of cf now end in
        if cached_of cf && live_exp exp now then Some (mkEntry exp 0 (Some (cs_next s))) else None)).
Proof.
  intros HI name now s' o. subst name now s' o.
  pose proof (Inv_request cf s q HI) as [_ Hst].
  rewrite crequest_eq in *.
  destruct (copen_cases cf s (cq_name q) (check_of q) (cq_now q) HI)
    as [(e & i & He & Hi & Heq)|[(He & Hb & Heq)|(He & Hb & Heq)]]; rewrite Heq in *; cbn [fst snd co_stale] in *.
  - match goal with |- context [crelease (cuse ?s0 _ _) _ _] => set (s1 := s0) in * end.
    destruct (crelease_fields (cuse s1 q i) (cq_name q) (cq_now q)) as (Fn & Fl & _ & _ & _ & Ft).
    destruct (cuse_fields s1 q i) as (Uc & Un & Ul).
    split.
    + intros n Hne. rewrite crelease_lookup, Ft, Uc. apply String.eqb_neq in Hne as Hne'. rewrite Hne'.
      rewrite cuse_cache_ttl_other by exact Hne. subst s1. cbn [cs_cache set_cache cs_cache_ttl].
      split; [apply alookup_ainsert_other; exact Hne|reflexivity].
    + left. exists e, i. rewrite Fn, Fl, Un, Ul, Hst. repeat split; try assumption.
      rewrite crelease_lookup, String.eqb_refl, Uc. subst s1. cbn [cs_cache set_cache].
      rewrite alookup_ainsert_same. reflexivity.
  - match goal with |- context [crelease ?s0 _ _] => set (s1 := s0) in * end.
    destruct (crelease_fields s1 (cq_name q) (cq_now q)) as (Fn & Fl & _ & _ & _ & Ft).
    assert (Hs1 : cs_next s1 = cs_next s /\ cs_loads s1 = cs_loads s /\ cs_cache_ttl s1 = cs_cache_ttl s).
    { subst s1. destruct (cached_of cf); cbn; auto. }
    destruct Hs1 as (Sn & Sl & St).
    split.
    + intros n Hne. apply String.eqb_neq in Hne as Hne'. rewrite crelease_lookup, Ft, Hne', St.
      split; [|reflexivity]. subst s1. destruct (cached_of cf); cbn [cs_cache set_cache];
        [rewrite !alookup_ainsert_other by exact Hne|]; reflexivity.
    + right; left. rewrite Fn, Fl, Ft, Sn, Sl, St. repeat split; try assumption.
      rewrite crelease_lookup, String.eqb_refl. subst s1. destruct (cached_of cf); cbn [cs_cache set_cache].
      * rewrite alookup_ainsert_same. reflexivity.
      * rewrite He. reflexivity.
  - match goal with |- context [crelease (cuse ?s0 _ _) _ _] => set (s1 := s0) in * end.
    destruct (crelease_fields (cuse s1 q (cs_next s)) (cq_name q) (cq_now q)) as (Fn & Fl & _ & _ & _ & Ft).
    destruct (cuse_fields s1 q (cs_next s)) as (Uc & Un & Ul).
    split.
    + intros n Hne. rewrite crelease_lookup, Ft, Uc. apply String.eqb_neq in Hne as Hne'. rewrite Hne'.
      rewrite cuse_cache_ttl_other by exact Hne. subst s1. cbn [cs_cache cs_cache_ttl].
      split; [|reflexivity]. destruct (cached_of cf); [rewrite !alookup_ainsert_other by exact Hne|]; reflexivity.
    + right; right. rewrite Fn, Fl, Un, Ul, Hst. repeat split; try assumption.
      rewrite crelease_lookup, String.eqb_refl, Uc. subst s1. cbn [cs_cache]. cbv zeta.
      destruct (cached_of cf); cbn [andb].
      * rewrite alookup_ainsert_same. reflexivity.
      * rewrite He. reflexivity.
Qed.

(** ** Forever *)

Lemma loads_of_cons name n i l :
  loads_of name ((n, i) :: l) = ((if String.eqb n name then 1 else 0) + loads_of name l)%nat.
Proof. unfold loads_of. cbn [filter fst]. destruct (String.eqb n name); reflexivity. Qed.

Lemma loads_of_In name i l : In (name, i) l -> (1 <= loads_of name l)%nat.
Proof.
  induction l as [|[n j] r IH]; [contradiction|]. rewrite loads_of_cons. intros [[= -> ->]|Hin].
  - rewrite String.eqb_refl. lia.
  - specialize (IH Hin). lia.
Qed.

Lemma loads_of_unique name i1 i2 l :
  (loads_of name l <= 1)%nat -> In (name, i1) l -> In (name, i2) l -> i1 = i2.
Proof.
  induction l as [|[n j] r IH]; [contradiction|]. rewrite loads_of_cons. intros Hle H1 H2.
  destruct (String.eqb_spec n name) as [->|Hne].
  - destruct H1 as [[= ->]|H1]; [|apply loads_of_In in H1; lia].
    destruct H2 as [[= ->]|H2]; [reflexivity|apply loads_of_In in H2; lia].
  - destruct H1 as [[= E _]|H1]; [congruence|]. destruct H2 as [[= E _]|H2]; [congruence|].
    apply IH; [lia|assumption..].
Qed.

Definition FInv (s : csys) : Prop :=
  forall name,
    match alookup name (cs_cache s) with
    | None => loads_of name (cs_loads s) = 0%nat /\ alookup name (cs_cache_ttl s) = None
    | Some e => ce_expires e = None /\ exists i, ce_inst e = Some i /\
                loads_of name (cs_loads s) = 1%nat /\ In (name, i) (cs_loads s)
    end.

Lemma FInv_request cf s q :
  cf_ttl cf = None -> Inv s -> FInv s ->
  FInv (fst (crequest cf s q)) /\
  incl (cs_loads s) (cs_loads (fst (crequest cf s q))) /\
  (forall i, co_result (snd (crequest cf s q)) = Ok i -> In (cq_name q, i) (cs_loads (fst (crequest cf s q)))).
Proof.
  intros Httl HI HF.
  pose proof (request_cases cf s q HI) as Hc. cbv zeta in Hc. destruct Hc as [Hother Hc].
  assert (Hcached : cached_of cf = true) by (unfold cached_of; rewrite Httl; reflexivity).
  assert (Hexp0 : forall now, exp0_of cf now = None) by (intros; unfold exp0_of; rewrite Httl; reflexivity).
  destruct Hc as [(e & i & He & Hi & Ho & Fn & Fl & Hl)|[(He & Hb & Ho & Fn & Fl & Ft & Hl)|(He & Hb & Ho & Fn & Fl & Hl)]].
  - (* hit *)
    pose proof (HF (cq_name q)) as HFn. rewrite He in HFn. destruct HFn as (Hexp & i' & Hi' & Hcnt & Hin).
    assert (i' = i) by congruence. subst i'.
    rewrite Hexp in Hl. cbn [live_exp] in Hl.
    split; [|split].
    + intros n. destruct (String.eqb_spec n (cq_name q)) as [->|Hne].
      * rewrite Hl, Fl. cbn. eauto.
      * destruct (Hother n Hne) as [-> ->]. rewrite Fl. apply HF.
    + rewrite Fl. apply incl_refl.
    + rewrite Ho, Fl. cbn. intros i' [= <-]. exact Hin.
  - (* refused *)
    pose proof (HF (cq_name q)) as HFn. rewrite He in HFn. destruct HFn as (Hcnt & Httl0).
    split; [|split].
    + intros n. destruct (String.eqb_spec n (cq_name q)) as [->|Hne].
      * rewrite Hl, Fl, Ft. auto.
      * destruct (Hother n Hne) as [-> ->]. rewrite Fl. apply HF.
    + rewrite Fl. apply incl_refl.
    + rewrite Ho. cbn. discriminate.
  - (* load *)
    pose proof (HF (cq_name q)) as HFn. rewrite He in HFn. destruct HFn as (Hcnt & Httl0).
    rewrite Httl0, Hexp0, Hcached in Hl. cbn in Hl.
    split; [|split].
    + intros n. destruct (String.eqb_spec n (cq_name q)) as [->|Hne].
      * rewrite Hl, Fl, loads_of_cons, String.eqb_refl, Hcnt. cbn. split; [reflexivity|]. eexists. repeat split. left; reflexivity.
      * destruct (Hother n Hne) as [-> ->]. rewrite Fl, loads_of_cons.
        assert (Hne' : String.eqb (cq_name q) n = false) by (apply String.eqb_neq; congruence). rewrite Hne'. cbn [Nat.add].
        specialize (HF n). destruct (alookup n (cs_cache s)) as [e|]; [|exact HF].
        destruct HF as (H1 & i & H2 & H3 & H4). split; [exact H1|]. exists i. repeat split; try assumption. right; exact H4.
    + rewrite Fl. apply incl_tl, incl_refl.
    + rewrite Ho, Fl. cbn. intros i' [= <-]. left; reflexivity.
Qed.

Lemma forever_run cf h :
  cf_ttl cf = None -> forall s, Inv s -> FInv s ->
  FInv (fst (crun_from cf s h)) /\
  incl (cs_loads s) (cs_loads (fst (crun_from cf s h))) /\
  (forall k q o i, nth_error h k = Some q -> nth_error (snd (crun_from cf s h)) k = Some o -> co_result o = Ok i ->
                   In (cq_name q, i) (cs_loads (fst (crun_from cf s h)))).
Proof.
  intros Httl. induction h as [|q r IH]; intros s HI HF; cbn [crun_from].
  - cbn [fst snd]. split; [exact HF|split; [apply incl_refl|]]. intros [|k]; discriminate.
  - destruct (FInv_request cf s q Httl HI HF) as (HF1 & Hincl & Hsrv).
    pose proof (Inv_request cf s q HI) as [HI1 _].
    destruct (crequest cf s q) as [s1 o1]. cbn [fst snd] in *.
    destruct (IH s1 HI1 HF1) as (HF2 & Hincl2 & Hsrv2).
    destruct (crun_from cf s1 r) as [s2 os]. cbn [fst snd] in *.
    split; [exact HF2|split].
    + eapply incl_tran; eassumption.
    + intros [|k] q' o' i; cbn [nth_error].
      * intros [= <-] [= <-] Hi. apply Hincl2, Hsrv, Hi.
      * apply Hsrv2.
Qed.

Theorem forever_loads_once : forever_loads_once_statement.
Proof.
  intros cf h Httl s obs. subst s obs. rewrite crun_eq.
  assert (HF0 : FInv csys0) by (intros n; cbn; auto).
  destruct (forever_run cf h Httl csys0 Inv0 HF0) as (HF & _ & Hsrv).
  assert (Hle : forall name, (loads_of name (cs_loads (fst (crun_from cf csys0 h))) <= 1)%nat).
  { intros name. specialize (HF name). destruct (alookup name (cs_cache (fst (crun_from cf csys0 h)))).
    - destruct HF as (_ & i & _ & -> & _). lia.
    - destruct HF as [-> _]. lia. }
  split; [exact Hle|split; [exact Hsrv|]].
  intros k1 k2 q1 q2 o1 o2 i1 i2 Hq1 Ho1 Hi1 Hq2 Ho2 Hi2 Hname.
  pose proof (Hsrv _ _ _ _ Hq1 Ho1 Hi1) as H1. pose proof (Hsrv _ _ _ _ Hq2 Ho2 Hi2) as H2. rewrite Hname in H1.
  eapply loads_of_unique; [apply Hle|exact H1|exact H2].
Qed.

(** ** Never *)

Lemma request_cache_ttl cf s q :
  Inv s ->
  cs_cache_ttl (fst (crequest cf s q)) = cs_cache_ttl s \/
  exists ms, cq_kind q = KSetCacheTTL ms /\
             cs_cache_ttl (fst (crequest cf s q)) = ainsert (cq_name q) ms (cs_cache_ttl s).
Proof.
  intros HI. rewrite crequest_eq.
  destruct (copen_cases cf s (cq_name q) (check_of q) (cq_now q) HI)
    as [(e & i & He & Hi & Heq)|[(He & Hb & Heq)|(He & Hb & Heq)]]; rewrite Heq; cbn [fst].
  - match goal with |- context [crelease ?s0 _ _] => destruct (crelease_fields s0 (cq_name q) (cq_now q)) as (_ & _ & _ & _ & _ & ->) end.
    unfold cuse, bump. destruct (cq_kind q); cbn [cs_cache_ttl set_cache]; eauto.
  - match goal with |- context [crelease ?s0 _ _] => destruct (crelease_fields s0 (cq_name q) (cq_now q)) as (_ & _ & _ & _ & _ & ->) end.
    left. destruct (cached_of cf); reflexivity.
  - match goal with |- context [crelease ?s0 _ _] => destruct (crelease_fields s0 (cq_name q) (cq_now q)) as (_ & _ & _ & _ & _ & ->) end.
    unfold cuse, bump. destruct (cq_kind q); cbn [cs_cache_ttl]; eauto.
Qed.

Definition NInv (s : csys) : Prop := forall name, alookup name (cs_cache s) = None.

Definition NP (cf : cconf) (s : csys) : Prop :=
  cf_pending cf = false \/ forall name ms, alookup name (cs_cache_ttl s) = Some ms -> ms <= 0.

Definition qok (q : creq) : bool := match cq_kind q with KSetCacheTTL ms => ms <=? 0 | _ => true end.

Lemma never_request cf s q :
  cf_ttl cf = Some 0 -> Inv s -> NInv s -> NP cf s -> (cf_pending cf = false \/ qok q = true) ->
  let s' := fst (crequest cf s q) in
  let o := snd (crequest cf s q) in
  NInv s' /\ NP cf s' /\
  (forall n, loads_of n (cs_loads s') =
             ((if String.eqb (cq_name q) n && ok_of o then 1 else 0) + loads_of n (cs_loads s))%nat) /\
  match co_result o with
  | Ok i => i = cs_next s /\ cs_next s' = S (cs_next s)
  | _ => cs_next s' = cs_next s
  end.
Proof.
  intros Httl HI HN HP Hq s' o. subst s' o.
  assert (HP' : NP cf (fst (crequest cf s q))).
  { destruct HP as [HP|HP]; [left; exact HP|]. destruct Hq as [Hq|Hq]; [left; exact Hq|]. right.
    destruct (request_cache_ttl cf s q HI) as [->|(ms & Hk & ->)]; [exact HP|].
    intros name ms'. rewrite alookup_ainsert. destruct (String.eqb name (cq_name q)); [|apply HP].
    intros [= <-]. unfold qok in Hq. rewrite Hk in Hq. apply Z.leb_le. exact Hq. }
  pose proof (request_cases cf s q HI) as Hc. cbv zeta in Hc. destruct Hc as [Hother Hc].
  destruct Hc as [(e & i & He & _)|[(He & Hb & Ho & Fn & Fl & Ft & Hl)|(He & Hb & Ho & Fn & Fl & Hl)]].
  - rewrite HN in He. discriminate.
  - split; [|split; [exact HP'|split]].
    + intros n. destruct (String.eqb_spec n (cq_name q)) as [->|Hne]; [exact Hl|].
      destruct (Hother n Hne) as [-> _]. apply HN.
    + intros n. rewrite Ho, Fl. unfold ok_of. cbn. rewrite Bool.andb_false_r. reflexivity.
    + rewrite Ho. cbn. exact Fn.
  - assert (Hdead : alookup (cq_name q) (cs_cache (fst (crequest cf s q))) = None).
    { rewrite Hl. cbv zeta.
      assert (Hcached : cached_of cf = cf_pending cf) by (unfold cached_of; rewrite Httl; reflexivity).
      rewrite Hcached. destruct (cf_pending cf) eqn:Hpend; [|reflexivity]. cbn [andb].
      destruct HP as [HP|HP]; [congruence|].
      destruct (alookup (cq_name q) (cs_cache_ttl s)) as [ms|] eqn:Hms.
      - apply HP in Hms. cbn [live_exp]. replace (cq_now q <? cq_now q + ms) with false; [reflexivity|].
        symmetry. apply Z.ltb_ge. lia.
      - unfold exp0_of. rewrite Httl. cbn [live_exp]. replace (cq_now q <? cq_now q + 0) with false; [reflexivity|].
        symmetry. apply Z.ltb_ge. lia. }
    split; [|split; [exact HP'|split]].
    + intros n. destruct (String.eqb_spec n (cq_name q)) as [->|Hne]; [exact Hdead|].
      destruct (Hother n Hne) as [-> _]. apply HN.
    + intros n. rewrite Ho, Fl, loads_of_cons. unfold ok_of. cbn. rewrite Bool.andb_true_r. reflexivity.
    + rewrite Ho. cbn. auto.
Qed.

Lemma never_run cf h :
  cf_ttl cf = Some 0 -> (cf_pending cf = false \/ no_pos_setttl h = true) ->
  forall s, Inv s -> NInv s -> NP cf s ->
  NInv (fst (crun_from cf s h)) /\
  (forall n, loads_of n (cs_loads (fst (crun_from cf s h))) =
             (succ_count n h (snd (crun_from cf s h)) + loads_of n (cs_loads s))%nat) /\
  NoDup (served (snd (crun_from cf s h))) /\
  (forall i, In i (served (snd (crun_from cf s h))) -> (cs_next s <= i)%nat) /\
  (cs_next s <= cs_next (fst (crun_from cf s h)))%nat.
Proof.
  intros Httl. induction h as [|q r IH]; intros Hh s HI HN HP; cbn [crun_from].
  - cbn. repeat split; [exact HN|constructor|contradiction|lia].
  - assert (Hq : cf_pending cf = false \/ qok q = true).
    { destruct Hh as [Hh|Hh]; [left; exact Hh|right]. cbn [no_pos_setttl forallb] in Hh. apply andb_prop in Hh as [Hh _]. exact Hh. }
    assert (Hr : cf_pending cf = false \/ no_pos_setttl r = true).
    { destruct Hh as [Hh|Hh]; [left; exact Hh|right]. cbn [no_pos_setttl forallb] in Hh. apply andb_prop in Hh as [_ Hh]. exact Hh. }
    pose proof (never_request cf s q Httl HI HN HP Hq) as Hstep. cbv zeta in Hstep.
    destruct Hstep as (HN1 & HP1 & Hcnt & Hnext).
    pose proof (Inv_request cf s q HI) as [HI1 _].
    destruct (crequest cf s q) as [s1 o1]. cbn [fst snd] in *.
    destruct (IH Hr s1 HI1 HN1 HP1) as (HN2 & Hcnt2 & Hnd & Hlow & Hmono).
    destruct (crun_from cf s1 r) as [s2 os]. cbn [fst snd] in *.
    split; [exact HN2|split; [|split; [|split]]].
    + intros n. rewrite Hcnt2, Hcnt. cbn [succ_count]. lia.
    + cbn [served]. unfold ok_of in *. destruct (co_result o1) as [i| | |]; try exact Hnd.
      destruct Hnext as [-> Hn1]. constructor; [|exact Hnd]. intros Hin. apply Hlow in Hin. lia.
    + cbn [served]. destruct (co_result o1) as [i| | |]; try (intros i' Hin; apply Hlow in Hin; lia).
      destruct Hnext as [-> Hn1]. intros i' [<-|Hin]; [lia|]. apply Hlow in Hin. lia.
    + destruct (co_result o1) as [i| | |]; lia.
Qed.

Theorem never_reloads_every_request : never_reloads_every_request_statement.
Proof.
  intros cf h Httl Hh s obs. subst s obs. rewrite crun_eq.
  assert (HN0 : NInv csys0) by (intros n; reflexivity).
  assert (HP0 : NP cf csys0) by (right; intros n ms; cbn; discriminate).
  destruct (never_run cf h Httl Hh csys0 Inv0 HN0 HP0) as (HN & Hcnt & Hnd & _ & _).
  split; [|split; [exact Hnd|exact HN]].
  intros name. rewrite Hcnt. cbn. lia.
Qed.

(** * 6. An instance in use is never replaced: all schedules of N clients that
    open, use and release one location *)

Lemma lrun_ind cf (P : lsys -> Prop) n sched :
  P (linit n) -> (forall k ev, P k -> P (lstep cf k ev)) -> P (lrun cf n sched).
Proof.
  intros H0 Hstep. unfold lrun. generalize (linit n) H0. induction sched as [|ev r IH]; intros k Hk; cbn [fold_left].
  - exact Hk.
  - apply IH, Hstep, Hk.
Qed.

Lemma lrun_app cf n s1 s2 : lrun cf n (s1 ++ s2) = fold_left (lstep cf) s2 (lrun cf n s1).
Proof. unfold lrun. apply fold_left_app. Qed.

Lemma lset_split {A} (l : list A) j old v :
  nth_error l j = Some old ->
  exists l1 l2, l = (l1 ++ old :: l2)%list /\ length l1 = j /\ lset l j v = (l1 ++ v :: l2)%list.
Proof.
  intros H. apply nth_error_split in H as (l1 & l2 & Heq & Hlen). exists l1, l2. split; [exact Heq|split; [exact Hlen|]].
  unfold lset. rewrite Heq. subst j.
  rewrite firstn_app, firstn_all, Nat.sub_diag. cbn [firstn]. rewrite app_nil_r.
  rewrite skipn_app, skipn_all2 by lia. replace (S (length l1) - length l1)%nat with 1%nat by lia. reflexivity.
Qed.

Lemma lset_nth_split {A} (l : list A) i v d :
  (i < length l)%nat ->
  exists l1 l2, l = (l1 ++ nth i l d :: l2)%list /\ length l1 = i /\ lset l i v = (l1 ++ v :: l2)%list.
Proof.
  intros Hi. apply lset_split. apply nth_error_nth'. exact Hi.
Qed.

Lemma lset_length {A} (l : list A) i v : (i < length l)%nat -> length (lset l i v) = length l.
Proof.
  intros Hi. destruct (lset_nth_split l i v v Hi) as (l1 & l2 & Heq & _ & Hset).
  rewrite Hset. apply (f_equal (@length A)) in Heq. rewrite Heq, !app_length. reflexivity.
Qed.

Lemma lset_nth_same {A} (l : list A) i v d : (i < length l)%nat -> nth i (lset l i v) d = v.
Proof.
  intros Hi. destruct (lset_nth_split l i v d Hi) as (l1 & l2 & _ & Hlen & Hset).
  rewrite Hset, app_nth2 by lia. rewrite Hlen, Nat.sub_diag. reflexivity.
Qed.

Lemma lusers_mid l1 c l2 :
  lusers (l1 ++ c :: l2) = (lusers l1 + (if luser c then 1 else 0) + lusers l2)%nat.
Proof.
  unfold lusers. rewrite filter_app, app_length. cbn [filter]. destruct (luser c); cbn [length]; lia.
Qed.

Lemma lusers_zero l : lusers l = 0%nat -> Forall (fun c => c = LIdle) l.
Proof.
  induction l as [|c r IH]; intros H; [constructor|].
  change (c :: r) with ([] ++ c :: r)%list in H. rewrite lusers_mid in H. cbn in H.
  destruct c; cbn in H; try lia. constructor; [reflexivity|apply IH; lia].
Qed.

Lemma lusers_idle l : Forall (fun c => c = LIdle) l -> lusers l = 0%nat.
Proof.
  induction 1 as [|c r Hc _ IH]; [reflexivity|].
  change (c :: r) with ([] ++ c :: r)%list. rewrite lusers_mid, IH, Hc. reflexivity.
Qed.

Ltac lsimp :=
  unfold lwith_clients, lwith_cache, lentry_at, lmem_of;
  cbn [l_slot l_entries l_clients l_mem l_store l_reads l_now l_prop l_next].

(** what a client may be doing while the map holds entry [ei] with instance [inst] *)
Definition client_on (ei : nat) (inst : option nat) (c : lpc) : Prop :=
  match c with
  | LIdle => True
  | LOpening e' => e' = ei
  | LFailed e' => e' = ei
  | LHolding e' i => e' = ei /\ inst = Some i
  end.

(** the invariant of the counting protocol: every client that is between its
    Open and its Release works on THE entry of the map; that entry's Pending is
    their number; who holds an instance holds the entry's; that instance
    contains every acknowledged write *)
Definition LSlot (k : lsys) : Prop :=
  match l_slot k with
  | None => Forall (fun c => c = LIdle) (l_clients k)
  | Some ei =>
      (ei < length (l_entries k))%nat /\
      le_pending (lentry_at k ei) = lusers (l_clients k) /\
      Forall (client_on ei (le_inst (lentry_at k ei))) (l_clients k) /\
      (forall i, le_inst (lentry_at k ei) = Some i -> lmem_of k i = l_store k)
  end.

Definition LReads (k : lsys) : Prop :=
  forall j seen acked, In (j, seen, acked) (l_reads k) -> seen = acked.

Definition LInv (k : lsys) : Prop := LSlot k /\ LReads k.

Lemma LInv_init n : LInv (linit n).
Proof.
  split.
  - unfold LSlot. cbn. apply Forall_forall. intros c Hc. apply repeat_spec in Hc. exact Hc.
  - intros j seen acked. cbn. contradiction.
Qed.

(** a client between Open and Release: the map holds its entry *)
Lemma LSlot_user k j c :
  LSlot k -> nth_error (l_clients k) j = Some c -> luser c = true ->
  exists ei, l_slot k = Some ei /\ (ei < length (l_entries k))%nat /\
    le_pending (lentry_at k ei) = lusers (l_clients k) /\
    Forall (client_on ei (le_inst (lentry_at k ei))) (l_clients k) /\
    (forall i, le_inst (lentry_at k ei) = Some i -> lmem_of k i = l_store k) /\
    client_on ei (le_inst (lentry_at k ei)) c.
Proof.
  unfold LSlot. intros HS Hj Hu. apply nth_error_In in Hj as Hin.
  destruct (l_slot k) as [ei|].
  - destruct HS as (H1 & H2 & H3 & H4). exists ei. repeat split; try assumption.
    rewrite Forall_forall in H3. apply H3. exact Hin.
  - rewrite Forall_forall in HS. rewrite (HS _ Hin) in Hu. discriminate.
Qed.

Lemma LSlot_holds k j i :
  LSlot k -> lholds k j i -> lslot_inst k = Some i /\ lmem_of k i = l_store k.
Proof.
  intros HS [e1 Hj]. destruct (LSlot_user k j _ HS Hj eq_refl) as (ei & Hs & _ & _ & _ & Hm & [_ Hi]).
  unfold lslot_inst. rewrite Hs. split; [exact Hi|apply Hm; exact Hi].
Qed.

Definition stable (k k' : lsys) : Prop :=
  forall i, lslot_inst k = Some i -> l_slot k' = None \/ lslot_inst k' = Some i.

Lemma stable_same k k' :
  l_slot k' = l_slot k -> (forall ei, l_slot k = Some ei -> le_inst (lentry_at k' ei) = le_inst (lentry_at k ei)) ->
  stable k k'.
Proof.
  intros Hs He i Hi. right. unfold lslot_inst in *. rewrite Hs. destruct (l_slot k) as [ei|]; [|discriminate].
  rewrite He by reflexivity. exact Hi.
Qed.

(** Release by a client that is between its Open and its Release *)
Lemma LSlot_release cf k j c :
  lrepaired cf -> LSlot k -> nth_error (l_clients k) j = Some c -> luser c = true ->
  LSlot (lrelease cf k j) /\ stable k (lrelease cf k j) /\ l_reads (lrelease cf k j) = l_reads k.
Proof.
  intros [Hcnt Hcached] HS Hj Hu.
  destruct (LSlot_user k j c HS Hj Hu) as (ei & Hs & Hlt & Hp & Hall & Hm & _).
  unfold lrelease. rewrite Hs, Hcnt. unfold lentry_at, lmem_of in *.
  set (e := nth ei (l_entries k) lentry0) in *.
  set (e' := mkLentry (le_expires e) (Nat.pred (le_pending e)) (le_inst e)).
  destruct (lset_split (l_clients k) j c LIdle Hj) as (l1 & l2 & Hcl & _ & Hset).
  assert (Hp' : Nat.pred (le_pending e) = lusers (l1 ++ LIdle :: l2)%list).
  { rewrite Hp, Hcl, !lusers_mid, Hu. cbn. lia. }
  match goal with |- context [if ?b then Some ei else None] => destruct b eqn:Hlive end; lsimp; rewrite Hset.
  - split; [|split; [|reflexivity]].
    + unfold LSlot. lsimp.
      rewrite lset_nth_same by exact Hlt. rewrite lset_length by exact Hlt.
      split; [exact Hlt|split; [exact Hp'|split]]; cbn [le_inst e'].
      * rewrite Hcl in Hall. eapply Forall_replace; [exact Hall|auto|exact I].
      * exact Hm.
    + apply stable_same; lsimp; [symmetry; exact Hs|].
      intros ei' Hei'. rewrite Hs in Hei'. injection Hei' as <-.
      rewrite lset_nth_same by exact Hlt. reflexivity.
  - split; [|split; [|reflexivity]].
    + unfold LSlot. lsimp.
      apply Bool.orb_false_iff in Hlive as [Hz _]. apply Nat.ltb_ge in Hz. cbn [le_pending e'] in Hz.
      apply lusers_zero. lia.
    + intros i _. left. reflexivity.
Qed.

Lemma LInv_step cf k ev :
  lrepaired cf -> LInv k -> LInv (lstep cf k ev) /\ stable k (lstep cf k ev).
Proof.
  intros Hrep [HS HR].
  assert (Hsame : LInv k /\ stable k k) by (split; [split; assumption|intros i Hi; right; exact Hi]).
  destruct Hrep as [Hcnt Hcached]. pose proof (conj Hcnt Hcached : lrepaired cf) as Hrep.
  destruct ev as [j|j|j|j|d|p]; cbn [lstep].
  - (* a critical section of client j *)
    destruct (nth_error (l_clients k) j) as [c|] eqn:Hj; [|exact Hsame].
    destruct c as [|e1|e1 i1|e1].
    + (* Open, first section *)
      unfold lopen1.
      destruct (l_slot k) as [ei|] eqn:Hs.
      * unfold LSlot in HS. rewrite Hs in HS. destruct HS as (Hlt & Hp & Hall & Hm).
        rewrite Hcnt. unfold lentry_at, lmem_of in *.
        set (e := nth ei (l_entries k) lentry0) in *.
        set (c' := match le_inst e with Some i => LHolding ei i | None => LOpening ei end).
        destruct (lset_split (l_clients k) j LIdle c' Hj) as (l1 & l2 & Hcl & _ & Hset).
        assert (Hu' : luser c' = true) by (subst c'; destruct (le_inst e); reflexivity).
        split; [split|].
        -- unfold LSlot. lsimp.
           rewrite lset_nth_same by exact Hlt. rewrite lset_length by exact Hlt. rewrite Hset.
           split; [exact Hlt|split; [|split]]; cbn [le_pending le_inst].
           ++ rewrite Hp, Hcl, !lusers_mid, Hu'. cbn. lia.
           ++ rewrite Hcl in Hall. eapply Forall_replace; [exact Hall|auto|].
              subst c'. destruct (le_inst e) as [i|]; cbn; auto.
           ++ exact Hm.
        -- exact HR.
        -- apply stable_same; lsimp; [symmetry; exact Hs|].
           intros ei' Hei'. rewrite Hs in Hei'. injection Hei' as <-.
           rewrite lset_nth_same by exact Hlt. reflexivity.
      * unfold LSlot in HS. rewrite Hs in HS. rewrite Hcnt, Hcached.
        set (ei := length (l_entries k)).
        set (e := mkLentry _ 1 None).
        destruct (lset_split (l_clients k) j LIdle (LOpening ei) Hj) as (l1 & l2 & Hcl & _ & Hset).
        rewrite Hcl in HS. apply Forall_app in HS as [HS1 HS2]. inversion HS2 as [|? ? _ HS3]; subst.
        split; [split|].
        -- unfold LSlot. lsimp.
           rewrite app_nth2 by (subst ei; lia). subst ei. rewrite Nat.sub_diag. cbn [nth]. rewrite Hset.
           split; [rewrite app_length; cbn; lia|split; [|split]]; cbn [le_pending le_inst e].
           ++ rewrite lusers_mid, (lusers_idle _ HS1), (lusers_idle _ HS3). reflexivity.
           ++ apply Forall_app. split; [|constructor; [reflexivity|]].
              ** eapply Forall_impl; [|exact HS1]. intros x ->. exact I.
              ** eapply Forall_impl; [|exact HS3]. intros x ->. exact I.
           ++ intros i Hi. discriminate.
        -- exact HR.
        -- intros i Hi. unfold lslot_inst in Hi. rewrite Hs in Hi. discriminate.
    + (* Open, second section: Get *)
      destruct (LSlot_user k j _ HS Hj eq_refl) as (ei & Hs & Hlt & Hp & Hall & Hm & Hon).
      cbn [client_on] in Hon. subst e1.
      unfold lopen2. unfold lentry_at, lmem_of in *. set (e := nth ei (l_entries k) lentry0) in *.
      destruct (le_inst e) as [i|] eqn:Hi.
      * destruct (lset_split (l_clients k) j (LOpening ei) (LHolding ei i) Hj) as (l1 & l2 & Hcl & _ & Hset).
        split; [split|].
        -- unfold LSlot. lsimp. rewrite Hs. fold e. rewrite Hi, Hset.
           split; [exact Hlt|split; [|split]].
           ++ rewrite Hp, Hcl, !lusers_mid. reflexivity.
           ++ rewrite Hcl in Hall. eapply Forall_replace; [exact Hall|auto|]. cbn. auto.
           ++ exact Hm.
        -- exact HR.
        -- apply stable_same; [reflexivity|]. intros; reflexivity.
      * destruct (lset_split (l_clients k) j (LOpening ei) (LHolding ei (l_next k)) Hj) as (l1 & l2 & Hcl & _ & Hset).
        split; [split|].
        -- unfold LSlot. lsimp. rewrite Hs.
           rewrite lset_nth_same by exact Hlt. rewrite lset_length by exact Hlt. rewrite Hset.
           split; [exact Hlt|split; [|split]]; cbn [le_pending le_inst].
           ++ rewrite Hp, Hcl, !lusers_mid. reflexivity.
           ++ rewrite Hcl in Hall. eapply Forall_replace; [exact Hall| |cbn; auto].
              intros x Hx. destruct x; cbn in *; auto. destruct Hx as [_ Hx]. discriminate.
           ++ intros i [= <-]. cbn [ilookup]. rewrite Nat.eqb_refl. reflexivity.
        -- exact HR.
        -- intros i Hi'. unfold lslot_inst, lentry_at in Hi'. rewrite Hs in Hi'. fold e in Hi'. congruence.
    + (* Release after a successful Open *)
      destruct (LSlot_release cf k j _ Hrep HS Hj eq_refl) as (H1 & H2 & H3).
      split; [split; [exact H1|]|exact H2]. unfold LReads. rewrite H3. exact HR.
    + (* Release after a failed Open *)
      destruct (LSlot_release cf k j _ Hrep HS Hj eq_refl) as (H1 & H2 & H3).
      split; [split; [exact H1|]|exact H2]. unfold LReads. rewrite H3. exact HR.
  - (* a load fails *)
    destruct (nth_error (l_clients k) j) as [[|e1|e1 i1|e1]|] eqn:Hj; try exact Hsame.
    destruct (le_inst (lentry_at k e1)) as [i|] eqn:Hi; [exact Hsame|].
    destruct (LSlot_user k j _ HS Hj eq_refl) as (ei & Hs & Hlt & Hp & Hall & Hm & Hon).
    cbn [client_on] in Hon. subst e1. unfold lentry_at, lmem_of in *.
    destruct (lset_split (l_clients k) j (LOpening ei) (LFailed ei) Hj) as (l1 & l2 & Hcl & _ & Hset).
    split; [split|].
    + unfold LSlot. lsimp. rewrite Hs. rewrite Hset.
      split; [exact Hlt|split; [|split]].
      * rewrite Hp, Hcl, !lusers_mid. reflexivity.
      * rewrite Hcl in Hall. eapply Forall_replace; [exact Hall|auto|]. cbn. auto.
      * exact Hm.
    + exact HR.
    + apply stable_same; [reflexivity|]. intros; reflexivity.
  - (* a read *)
    destruct (nth_error (l_clients k) j) as [[|e1|e1 i1|e1]|] eqn:Hj; try exact Hsame.
    destruct (LSlot_holds k j i1 HS (ex_intro _ e1 Hj)) as [_ Hcur].
    split; [split|].
    + exact HS.
    + intros j' seen acked. lsimp. intros [[= <- <- <-]|Hin]; [exact Hcur|eapply HR; exact Hin].
    + apply stable_same; [reflexivity|]. intros; reflexivity.
  - (* a write *)
    destruct (nth_error (l_clients k) j) as [[|e1|e1 i1|e1]|] eqn:Hj; try exact Hsame.
    destruct (LSlot_user k j _ HS Hj eq_refl) as (ei & Hs & Hlt & Hp & Hall & Hm & Hon).
    cbn [client_on] in Hon. destruct Hon as [-> Hi1]. unfold lentry_at, lmem_of in *.
    split; [split|].
    + unfold LSlot. lsimp. rewrite Hs.
      split; [exact Hlt|split; [exact Hp|split; [exact Hall|]]].
      intros i Hi. assert (i = i1) by congruence. subst i.
      cbn [ilookup]. rewrite Nat.eqb_refl. rewrite (Hm _ Hi1). reflexivity.
    + exact HR.
    + apply stable_same; [reflexivity|]. intros; reflexivity.
  - (* the clock moves *)
    split; [split; [exact HS|exact HR]|]. apply stable_same; [reflexivity|]. intros; reflexivity.
  - (* !cacheTTL changes *)
    split; [split; [exact HS|exact HR]|]. apply stable_same; [reflexivity|]. intros; reflexivity.
Qed.

Lemma LInv_run cf n sched : lrepaired cf -> LInv (lrun cf n sched).
Proof.
  intros Hrep. apply lrun_ind; [apply LInv_init|]. intros k ev Hk. apply (LInv_step cf k ev Hrep Hk).
Qed.

Theorem in_use_instance_never_replaced : in_use_instance_never_replaced_statement.
Proof.
  intros cf n sched j i Hrep Hh.
  pose proof (LInv_run cf n sched Hrep) as HI.
  destruct (LSlot_holds _ j i (proj1 HI) Hh) as [Hslot _].
  split; [exact Hslot|].
  intros ev j' i' Hh'.
  destruct (LInv_step cf _ ev Hrep HI) as [HI' Hst].
  destruct (LSlot_holds _ j' i' (proj1 HI') Hh') as [Hslot' _].
  destruct (Hst i Hslot) as [Hnone|Hsame].
  - unfold lslot_inst in Hslot'. rewrite Hnone in Hslot'. discriminate.
  - congruence.
Qed.

Theorem overlapping_requests_share_one_instance : overlapping_requests_share_one_instance_statement.
Proof.
  intros cf n sched j1 i1 j2 i2 Hrep H1 H2.
  pose proof (LInv_run cf n sched Hrep) as [HS _].
  destruct (LSlot_holds _ _ _ HS H1) as [E1 _]. destruct (LSlot_holds _ _ _ HS H2) as [E2 _]. congruence.
Qed.

Theorem held_write_acknowledged : held_write_acknowledged_statement.
Proof.
  intros cf k j i [ei Hj] k'. subst k'. cbn [lstep]. rewrite Hj. lsimp.
  repeat split. cbn [ilookup]. rewrite Nat.eqb_refl. reflexivity.
Qed.

Lemma lstep_store_grows cf k ev : exists l, l_store (lstep cf k ev) = (l ++ l_store k)%list.
Proof.
  destruct ev as [j|j|j|j|d|p]; cbn [lstep].
  - destruct (nth_error (l_clients k) j) as [[|e1|e1 i1|e1]|]; try (exists []; reflexivity).
    + unfold lopen1. destruct (l_slot k); exists []; reflexivity.
    + unfold lopen2. destruct (le_inst (lentry_at k e1)); exists []; reflexivity.
    + unfold lrelease. destruct (l_slot k); exists []; reflexivity.
    + unfold lrelease. destruct (l_slot k); exists []; reflexivity.
  - destruct (nth_error (l_clients k) j) as [[|e1|e1 i1|e1]|]; try (exists []; reflexivity).
    destruct (le_inst (lentry_at k e1)); exists []; reflexivity.
  - destruct (nth_error (l_clients k) j) as [[|e1|e1 i1|e1]|]; exists []; reflexivity.
  - destruct (nth_error (l_clients k) j) as [[|e1|e1 i1|e1]|]; try (exists []; reflexivity).
    exists [length (l_store k)]. reflexivity.
  - exists []. reflexivity.
  - exists []. reflexivity.
Qed.

Lemma lrun_store_grows cf later : forall k, exists l, l_store (fold_left (lstep cf) later k) = (l ++ l_store k)%list.
Proof.
  induction later as [|ev r IH]; intros k; cbn [fold_left].
  - exists []. reflexivity.
  - destruct (IH (lstep cf k ev)) as [l1 H1]. destruct (lstep_store_grows cf k ev) as [l2 H2].
    exists (l1 ++ l2)%list. rewrite H1, H2, app_assoc. reflexivity.
Qed.

Theorem held_instance_is_current : held_instance_is_current_statement.
Proof.
  intros cf n sched Hrep k. subst k. pose proof (LInv_run cf n sched Hrep) as [HS HR]. split.
  - intros j i Hh. apply (LSlot_holds _ _ _ HS Hh).
  - exact HR.
Qed.

Theorem acknowledged_write_visible_to_later_open : acknowledged_write_visible_to_later_open_statement.
Proof.
  intros cf n sched later w Hrep Hw k. subst k.
  assert (Hst : In w (l_store (lrun cf n (sched ++ later)))).
  { rewrite lrun_app. destruct (lrun_store_grows cf later (lrun cf n sched)) as [l ->]. apply in_or_app. right. exact Hw. }
  split; [exact Hst|].
  intros j i Hh. destruct (held_instance_is_current cf n (sched ++ later)%list Hrep) as [Hcur _].
  rewrite (Hcur j i Hh). exact Hst.
Qed.

Theorem pending_counts_users : pending_counts_users_statement.
Proof.
  intros cf n sched ei Hrep Hs. pose proof (LInv_run cf n sched Hrep) as [HS _].
  unfold LSlot in HS. rewrite Hs in HS. tauto.
Qed.

(** ** The Pending boolean of the earlier code (finding D60) *)

(** TTL 1 ms, two clients.  Client 0 opens the location (entry 0, instance 0);
    client 1 opens it too (the same entry and instance); 5 ms pass; client 0
    releases: the flag is cleared although client 1 still uses the instance,
    the entry's time is up, it leaves the map.  Client 0's next request finds
    nothing and loads instance 1 from storage.  Client 1 now writes through
    instance 0 (acknowledged, in storage) - and client 0, reading instance 1
    afterwards, does not see the write; nor does any later request, which the
    map serves with instance 1. *)
Definition d60_conf (count : bool) : lconf := mkLconf (Some 1) true count.
Definition d60_sched : list levent :=
  [LStep 0; LStep 0; LStep 1; LTick 5; LStep 0; LStep 0; LStep 0; LWrite 1; LRead 0; LStep 1; LStep 1]%nat.

Lemma boolean_pending_counterexample :
  let k := lrun (d60_conf false) 2 (firstn 9 d60_sched) in
  l_clients k = [LHolding 1 1; LHolding 0 0]%nat /\          (* two instances of the location in use *)
  l_next k = 2%nat /\                                         (* loaded twice *)
  l_store k = [0%nat] /\                                      (* the acknowledged write *)
  lmem_of k 0 = [0%nat] /\ lmem_of k 1 = [] /\                (* is in the orphaned instance only *)
  l_reads k = [(0%nat, [], [0%nat])] /\                       (* a read that misses it *)
  lslot_inst k = Some 1%nat /\                                (* and the map serves the other instance *)
  let k' := lrun (d60_conf false) 2 d60_sched in              (* also to the writer's next request *)
  l_clients k' = [LHolding 1 1; LHolding 1 1]%nat /\ lmem_of k' 1 = [] /\ l_store k' = [0%nat].
Proof. vm_compute. repeat split; reflexivity. Qed.

(** the refutation as the negation of the statements for the boolean protocol *)
Lemma boolean_pending_replaces_instance_in_use :
  ~ (forall n sched j1 i1 j2 i2,
       lholds (lrun (d60_conf false) n sched) j1 i1 -> lholds (lrun (d60_conf false) n sched) j2 i2 -> i1 = i2) /\
  ~ (forall n sched later w, In w (l_store (lrun (d60_conf false) n sched)) ->
       forall j i, lholds (lrun (d60_conf false) n (sched ++ later)) j i ->
                   In w (lmem_of (lrun (d60_conf false) n (sched ++ later)) i)).
Proof.
  split.
  - intros H. specialize (H 2%nat (firstn 9 d60_sched) 0%nat 1%nat 1%nat 0%nat).
    assert (E : 1%nat = 0%nat); [|discriminate].
    apply H; [exists 1%nat|exists 0%nat]; vm_compute; reflexivity.
  - intros H. specialize (H 2%nat (firstn 8 d60_sched) (skipn 8 d60_sched) 0%nat).
    assert (E : In 0%nat (lmem_of (lrun (d60_conf false) 2 (firstn 8 d60_sched ++ skipn 8 d60_sched)) 1)).
    { apply (H ltac:(vm_compute; left; reflexivity) 0%nat). exists 1%nat. vm_compute. reflexivity. }
    vm_compute in E. exact E.
Qed.

(** CachePending with a positive !cacheTTL: the property overrides TTL Never
    (the third request is served by the instance of the second) *)
Lemma never_pending_cachettl_counterexample :
  let cf := mkConf (Some 0) true false in
  let h := [mkCreq "a" (KSetCacheTTL 1000) 0; mkCreq "a" KRead 0; mkCreq "a" KRead 5] in
  times_mono h /\
  map ok_of (snd (crun cf h)) = [true; true; true] /\
  served (snd (crun cf h)) = [0; 1; 1]%nat /\
  loads_of "a" (cs_loads (fst (crun cf h))) = 2%nat /\
  succ_count "a" h (snd (crun cf h)) = 3%nat.
Proof. vm_compute. repeat split; reflexivity. Qed.

(** * 6. Examples: the hypotheses are satisfiable, the conclusions are not vacuous *)

Module CacheExamples.
  (** two locations with creates, writes, reads and a !cacheTTL property, and
      a third location that is never created *)
  Definition hist : list creq :=
    [ mkCreq "a" KRead 0; mkCreq "a" KCreate 1; mkCreq "a" KWrite 2; mkCreq "b" KCreate 2;
      mkCreq "a" KRead 3; mkCreq "b" (KSetCacheTTL 5) 4; mkCreq "b" KRead 5; mkCreq "b" KWrite 7;
      mkCreq "b" KRead 20; mkCreq "a" KRead 21; mkCreq "c" KWrite 22 ].

  Definition cf_never : cconf := mkConf (Some 0) false true.
  Definition cf_never_pending : cconf := mkConf (Some 0) true true.
  Definition cf_1ms : cconf := mkConf (Some 1) true true.
  Definition cf_forever : cconf := mkConf None true true.

  Definition pattern : list bool := [false; true; true; true; true; true; true; true; true; true; false].
  Definition fresh (obs : list cobs) : bool := forallb (fun o => negb (co_stale o)) obs.

  Example hist_mono : times_mono hist.
  Proof. vm_compute. reflexivity. Qed.

  Example hist_direct :
    drun true hist = (mkDsys [("a", 2%nat); ("b", 3%nat)] ["b"; "a"] [("b", 5)], pattern).
  Proof. vm_compute. reflexivity. Qed.

  Example hist_never :
    map ok_of (snd (crun cf_never hist)) = pattern /\ fresh (snd (crun cf_never hist)) = true /\
    served (snd (crun cf_never hist)) = [0; 1; 2; 3; 4; 5; 6; 7; 8]%nat /\
    cs_ver (fst (crun cf_never hist)) = [("a", 2%nat); ("b", 3%nat)] /\
    cs_created (fst (crun cf_never hist)) = ["b"; "a"] /\ cs_cache (fst (crun cf_never hist)) = [].
  Proof. vm_compute. repeat split; reflexivity. Qed.

  (** CachePending and b's !cacheTTL of 5 ms: b's instance 5 serves three requests *)
  Example hist_never_pending :
    map ok_of (snd (crun cf_never_pending hist)) = pattern /\ fresh (snd (crun cf_never_pending hist)) = true /\
    served (snd (crun cf_never_pending hist)) = [0; 1; 2; 3; 4; 5; 5; 5; 6]%nat /\
    cs_ver (fst (crun cf_never_pending hist)) = [("a", 2%nat); ("b", 3%nat)] /\
    cs_created (fst (crun cf_never_pending hist)) = ["b"; "a"].
  Proof. vm_compute. repeat split; reflexivity. Qed.

  Example hist_1ms :
    map ok_of (snd (crun cf_1ms hist)) = pattern /\ fresh (snd (crun cf_1ms hist)) = true /\
    served (snd (crun cf_1ms hist)) = [0; 0; 1; 2; 1; 3; 3; 3; 2]%nat /\
    cs_ver (fst (crun cf_1ms hist)) = [("a", 2%nat); ("b", 3%nat)] /\
    cs_created (fst (crun cf_1ms hist)) = ["b"; "a"].
  Proof. vm_compute. repeat split; reflexivity. Qed.

  Example hist_forever :
    map ok_of (snd (crun cf_forever hist)) = pattern /\ fresh (snd (crun cf_forever hist)) = true /\
    served (snd (crun cf_forever hist)) = [0; 0; 1; 0; 1; 1; 1; 1; 0]%nat /\
    cs_loads (fst (crun cf_forever hist)) = [("b", 1%nat); ("a", 0%nat)] /\
    cs_ver (fst (crun cf_forever hist)) = [("a", 2%nat); ("b", 3%nat)] /\
    cs_created (fst (crun cf_forever hist)) = ["b"; "a"].
  Proof. vm_compute. repeat split; reflexivity. Qed.

  (** the never-created location leaves nothing behind *)
  Example hist_uncreated :
    alookup "c" (cs_cache (fst (crun cf_forever hist))) = None /\
    mem_str "c" (cs_created (fst (crun cf_forever hist))) = false /\
    alookup "c" (cs_ver (fst (crun cf_forever hist))) = None.
  Proof. vm_compute. repeat split; reflexivity. Qed.

  (** times going backwards and a negative !cacheTTL change which instances
      serve, not what is observed *)
  Definition odd : list creq :=
    [ mkCreq "a" KCreate 100; mkCreq "a" (KSetCacheTTL (-7)) 50; mkCreq "a" KWrite 10;
      mkCreq "a" KRead 200; mkCreq "a" KRead 0 ].

  Example odd_history :
    times_monob odd = false /\
    map ok_of (snd (crun cf_1ms odd)) = [true; true; true; true; true] /\
    fresh (snd (crun cf_1ms odd)) = true /\
    served (snd (crun cf_1ms odd)) = [0; 0; 0; 0; 1]%nat /\
    cs_ver (fst (crun cf_1ms odd)) = cs_ver (fst (crun cf_never odd)).
  Proof. vm_compute. repeat split; reflexivity. Qed.

  (** an observation about expiry: it is only evaluated at Release, so an
      instance is served once more after its TTL has passed (TTL 1 ms, loaded
      at 0, still serving at 1000; dropped at that Release; reloaded at 1001).
      It is not stale: writes are write-through. *)
  Example expired_entry_served_once :
    let h := [mkCreq "a" KCreate 0; mkCreq "a" KRead 1000; mkCreq "a" KRead 1001] in
    served (snd (crun cf_1ms h)) = [0; 0; 1]%nat /\ fresh (snd (crun cf_1ms h)) = true.
  Proof. vm_compute. repeat split; reflexivity. Qed.

  (** concurrent first requests, three clients *)
  Example conc_three_repaired :
    let k := conc_run true true 3 [0; 1; 2; 2; 0; 1; 7]%nat in
    all_done k = true /\ k_loads k = 1%nat /\ map cc_got (k_clients k) = [Some 0; Some 0; Some 0]%nat.
  Proof. vm_compute. repeat split; reflexivity. Qed.

  Example conc_three_as_is :
    let k := conc_run false true 3 [0; 1; 2; 2; 0; 1; 7]%nat in
    all_done k = true /\ k_loads k = 3%nat /\ map cc_got (k_clients k) = [Some 1; Some 2; Some 0]%nat.
  Proof. vm_compute. repeat split; reflexivity. Qed.

  (** the life of an entry under the counting protocol (TTL 1 ms, two clients) *)
  Example repaired_conf : lrepaired (d60_conf true).
  Proof. split; reflexivity. Qed.

  (** the situation of D60: client 0 releases after the TTL while client 1
      still holds the instance; client 0's next request gets the SAME instance,
      and its read sees client 1's write *)
  Definition overlap_sched : list levent :=
    [LStep 0; LStep 0; LStep 1; LTick 5; LStep 0; LStep 0; LWrite 1; LRead 0]%nat.

  Example overlap_counting :
    let k := lrun (d60_conf true) 2 overlap_sched in
    l_clients k = [LHolding 0 0; LHolding 0 0]%nat /\ l_next k = 1%nat /\
    le_pending (lentry_at k 0) = 2%nat /\ l_store k = [0%nat] /\ lmem_of k 0 = [0%nat] /\
    l_reads k = [(0%nat, [0%nat], [0%nat])].
  Proof. vm_compute. repeat split; reflexivity. Qed.

  (** when the last user has released it, the entry (its time is up) leaves the
      map, and the next Open reloads from storage - with the write *)
  Example overlap_then_reload :
    let k := lrun (d60_conf true) 2 (overlap_sched ++ [LStep 0; LStep 1; LStep 1; LStep 1]%nat)%list in
    l_clients k = [LIdle; LHolding 1 1]%nat /\ l_next k = 2%nat /\ lmem_of k 1 = [0%nat] /\
    le_pending (lentry_at k 0) = 0%nat /\ le_pending (lentry_at k 1) = 1%nat.
  Proof. vm_compute. repeat split; reflexivity. Qed.

  (** a failed Open leaves no count and no entry behind *)
  Example failed_open_leaves_nothing :
    let k := lrun (d60_conf true) 1 [LStep 0; LFail 0; LStep 0]%nat in
    l_clients k = [LIdle] /\ l_slot k = None /\ l_next k = 0%nat /\ le_pending (lentry_at k 0) = 0%nat.
  Proof. vm_compute. repeat split; reflexivity. Qed.

  (** a failed Open while another request waits for the same entry: the
      waiter loads through that entry, the failed request's Release takes only
      its own count *)
  Example failed_open_with_waiter :
    let k := lrun (d60_conf true) 2 [LStep 0; LStep 1; LFail 0; LStep 1; LTick 9; LStep 0]%nat in
    l_clients k = [LIdle; LHolding 0 0]%nat /\ l_slot k = Some 0%nat /\ le_pending (lentry_at k 0) = 1%nat.
  Proof. vm_compute. repeat split; reflexivity. Qed.
End CacheExamples.
