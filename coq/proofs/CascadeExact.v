(** C08 support, part 3: the linear state without expired facts and storage
    failures: a removal never errs and removes exactly the closure. *)
From Coq Require Import Lia.
From Verif Require Import Json Outcome Match PatIndex State MatchLemmas1 CascadeSpec CascadeLemmas1.

(** * The search is pure when nothing is expired *)

Fixpoint pure_hits (F : list (string * json)) (x : string) (ids : list string)
  : list (string * list bindings) :=
  match ids with
  | [] => []
  | id :: r =>
      match alookup id F with
      | None => pure_hits F x r
      | Some fact =>
          match core_match (dw_pattern x) fact [] with
          | Ok (b :: bss) => (id, b :: bss) :: pure_hits F x r
          | _ => pure_hits F x r
          end
      end
  end.

Lemma pure_hits_In F x j : forall ids,
  In j (map fst (pure_hits F x ids)) <->
  In j ids /\ exists fact, alookup j F = Some fact /\ dw_hit x fact = true.
Proof.
  induction ids as [|id ids IH]; cbn [pure_hits].
  - cbn. tauto.
  - destruct (alookup id F) as [fact|] eqn:Hp.
    + assert (Hhit : dw_hit x fact = match core_match (dw_pattern x) fact [] with Ok (_ :: _) => true | _ => false end).
      { unfold dw_hit. destruct (core_match (dw_pattern x) fact []) as [[|]| | |]; reflexivity. }
      destruct (core_match (dw_pattern x) fact []) as [[|b bss]| | |];
        cbn [map fst In]; rewrite IH; split;
        try (intros [H1 H2]; split; [right; exact H1|exact H2]);
        try (intros [[H1|H1] (f & H2 & H3)]; [subst j; rewrite Hp in H2; inversion H2; subst f; congruence|eauto]).
      * intros [H|[H1 H2]]; [subst j; split; [left; reflexivity|eauto]|split; [right; exact H1|exact H2]].
      * intros [[H1|H1] H2]; [left; exact H1|right; split; auto].
    + rewrite IH. cbn [In]. split.
      * intros [H1 H2]; split; [right; exact H1|exact H2].
      * intros [[H1|H1] (f & H2 & H3)]; [subst j; congruence|eauto].
Qed.

Lemma search_ids_pure s x now :
  no_expired s now ->
  forall ids acc,
    search_ids s ids (dw_pattern x) now acc =
    (s, Ok (rev acc ++ pure_hits (st_facts s) x ids)%list).
Proof.
  intros Hne. induction ids as [|id ids IH]; intros acc; cbn [search_ids pure_hits].
  - rewrite app_nil_r. reflexivity.
  - destruct (alookup id (st_facts s)) as [fact|] eqn:Hp; [|apply IH].
    unfold expire. rewrite (Hne id fact Hp).
    destruct (core_match_dw_ok x fact) as [r Hr]. rewrite Hr.
    destruct r as [|b bss]; [apply IH|].
    rewrite IH. cbn [rev]. rewrite <- app_assoc. reflexivity.
Qed.

Lemma search_state_pure s x now :
  st_kind s = Linear -> no_expired s now ->
  exists found,
    search_state s (dw_pattern x) now = (s, Ok found) /\
    forall j, In j (map fst found) <->
              exists fact, alookup j (st_facts s) = Some fact /\ dw_hit x fact = true.
Proof.
  intros Hk Hne. unfold search_state. rewrite Hk.
  rewrite search_ids_pure by exact Hne. eexists. split; [reflexivity|].
  intros j. cbn [rev app]. rewrite pure_hits_In. split.
  - intros [_ H]. exact H.
  - intros (f & H1 & H2). split; [eapply alookup_In_keys; eauto|eauto].
Qed.

(** * Never an error *)

Definition lin_ok (s : state) (now : Z) : Prop :=
  st_kind s = Linear /\ st_fail s = None /\ no_expired s now.

Definition ok_or_oof {A} (o : outcome A) : Prop :=
  match o with Ok _ | OutOfFuel => True | _ => False end.

Lemma no_expired_aremove s now id F :
  no_expired s now -> (forall j f, alookup j F = Some f -> alookup j (st_facts s) = Some f) ->
  forall j f, alookup j (aremove id F) = Some f -> fact_expired f now = false.
Proof.
  intros Hne HF j f H. rewrite alookup_aremove in H.
  destruct (String.eqb j id); [discriminate|]. eapply Hne. apply HF. exact H.
Qed.

Section OkGen.
  Variable rem_rec : state -> string -> Z -> state * outcome bool.
  Variable now : Z.
  Hypothesis Hrec : forall s j, lin_ok s now ->
    lin_ok (fst (rem_rec s j now)) now /\ ok_or_oof (snd (rem_rec s j now)).

  Lemma rem_list_ok skip : forall ids s, lin_ok s now ->
    lin_ok (fst (rem_list rem_rec s ids skip now)) now /\
    ok_or_oof (snd (rem_list rem_rec s ids skip now)).
  Proof.
    induction ids as [|j ids IH]; intros s Hs; cbn [rem_list].
    - split; [exact Hs|exact I].
    - destruct (skipped skip j); [apply IH; exact Hs|].
      destruct (Hrec s j Hs) as [H1 H2].
      destruct (rem_rec s j now) as [s1 o]. cbn [fst snd] in *.
      destruct o; try contradiction; [apply IH; exact H1|split; [exact H1|exact I]].
  Qed.

  Lemma rem_body_ok s id : lin_ok s now ->
    lin_ok (fst (rem_body rem_rec s id now)) now /\ ok_or_oof (snd (rem_body rem_rec s id now)).
  Proof.
    intros (Hk & Hf & Hne). unfold rem_body. rewrite Hk. unfold store_call. rewrite Hf.
    cbv zeta.
    match goal with |- context [delete_dependencies rem_rec ?x id now] => set (s3 := x) end.
    match goal with |- context [Ok ?h] => generalize h; intros had end.
    assert (Hs3 : lin_ok s3 now).
    { unfold lin_ok, s3. cbn [st_kind st_fail set_facts set_store].
      repeat split; auto. unfold no_expired. cbn [st_facts set_facts set_store].
      eapply no_expired_aremove; eauto. }
    unfold delete_dependencies.
    destruct Hs3 as (Hk3 & Hf3 & Hne3).
    destruct (search_state_pure s3 id now Hk3 Hne3) as (found & Hsearch & _).
    rewrite Hsearch.
    match goal with |- context [rem_list rem_rec s3 ?ids ?skip now] =>
      destruct (rem_list_ok skip ids s3) as [H1 H2]; [repeat split; auto|];
      destruct (rem_list rem_rec s3 ids skip now) as [s6 o] end.
    cbn [fst snd] in *. destruct o; try contradiction; cbn [fst snd]; auto.
  Qed.
End OkGen.

Lemma rem_fuel_ok now : forall fuel s id, lin_ok s now ->
  lin_ok (fst (rem_fuel fuel s id now)) now /\ ok_or_oof (snd (rem_fuel fuel s id now)).
Proof.
  induction fuel as [|f IH]; intros s id Hs; cbn [rem_fuel].
  - split; [exact Hs|exact I].
  - apply rem_body_ok; auto.
Qed.

(** * Exactly the closure *)

(** (no condition on the ids: the repaired deleteDependencies checks its
    candidates literally, D14) *)
Definition good (s : state) (now : Z) : Prop :=
  st_kind s = Linear /\ st_fail s = None /\ no_expired s now.

(** [s'] is [s] with the ids of [D] removed from memory and from the storage. *)
Definition Rm (s : state) (D : list string) (s' : state) : Prop :=
  st_kind s' = st_kind s /\ st_fail s' = st_fail s /\
  (forall j, alookup j (st_facts s') = if mem_str j D then None else alookup j (st_facts s)) /\
  (forall j, alookup j (st_store s') = if mem_str j D then None else alookup j (st_store s)).

Definition Closed (s : state) (D : list string) : Prop :=
  forall y j fact, In y D -> alookup j (st_facts s) = Some fact -> dw_names fact y = true -> In j D.

Definition Post (s : state) (x : string) (s' : state) (had : bool) : Prop :=
  had = (match alookup x (st_facts s) with Some _ => true | None => false end) /\
  exists D, In x D /\ (forall d, In d D -> Clo s x d) /\ Closed s D /\ Rm s D s'.

Lemma mem_str_app j a b : mem_str j (a ++ b)%list = mem_str j a || mem_str j b.
Proof. induction a as [|x a IH]; cbn [mem_str app]; auto. rewrite IH, orb_assoc. reflexivity. Qed.

Lemma Rm_sub s D s' j f : Rm s D s' -> alookup j (st_facts s') = Some f -> alookup j (st_facts s) = Some f.
Proof. intros (_ & _ & H & _) Hj. rewrite H in Hj. destruct (mem_str j D); congruence. Qed.

Lemma Rm_good s D s' now : good s now -> Rm s D s' -> good s' now.
Proof.
  intros (Hk & Hf & Hne) HR. pose proof HR as (Hk' & Hf' & HF & _).
  repeat split; try congruence.
  intros j f Hj. eapply Hne. eapply Rm_sub; eauto.
Qed.

Lemma Rm_trans s D1 s1 D2 s2 : Rm s D1 s1 -> Rm s1 D2 s2 -> Rm s (D1 ++ D2) s2.
Proof.
  intros (Hk1 & Hf1 & HF1 & HS1) (Hk2 & Hf2 & HF2 & HS2).
  repeat split; try congruence.
  - intros j. rewrite HF2, HF1, mem_str_app. destruct (mem_str j D1), (mem_str j D2); reflexivity.
  - intros j. rewrite HS2, HS1, mem_str_app. destruct (mem_str j D1), (mem_str j D2); reflexivity.
Qed.

Lemma Clo_mono s1 s a b :
  (forall j f, alookup j (st_facts s1) = Some f -> alookup j (st_facts s) = Some f) ->
  Clo s1 a b -> Clo s a b.
Proof.
  intros Hsub H. induction H as [|x j fact H IH Hj Hn].
  - constructor.
  - eapply Clo_dep; eauto.
Qed.

Lemma Clo_trans s a b c : Clo s a b -> Clo s b c -> Clo s a c.
Proof.
  intros Hab Hbc. induction Hbc as [|x j fact H IH Hj Hn].
  - exact Hab.
  - eapply Clo_dep; eauto.
Qed.

Lemma Closed_Clo s D x j : Closed s D -> In x D -> Clo s x j -> In j D.
Proof.
  intros Hc Hx H. induction H as [|y j fact H IH Hj Hn]; auto.
  eapply Hc; eauto.
Qed.

(** the targets of the cascade of [x] are exactly the stored facts that name
    [x] literally, whatever [x] looks like: the search finds them all
    ([dw_names_hit]) and the literal check drops the others *)
Lemma targets_exact s x (found : list (string * list bindings)) :
  (forall j, In j (map fst found) <->
             exists fact, alookup j (st_facts s) = Some fact /\ dw_hit x fact = true) ->
  forall j, In j (dw_targets s x (map fst found)) <->
            exists fact, alookup j (st_facts s) = Some fact /\ dw_names fact x = true.
Proof.
  intros Hfound j. rewrite dw_targets_In. split.
  - intros [_ H]. exact H.
  - intros (fact & Hp & Hn). split; [|eauto].
    apply Hfound. exists fact. split; [exact Hp|]. apply dw_names_hit. exact Hn.
Qed.

Section ExactGen.
  Variable rem_rec : state -> string -> Z -> state * outcome bool.
  Variable now : Z.
  Hypothesis Hspec : forall s j s' had, good s now ->
    rem_rec s j now = (s', Ok had) -> Post s j s' had.

  Lemma rem_list_exact s0 skip : forall ids sc Dacc s',
    good sc now -> Rm s0 Dacc sc ->
    rem_list rem_rec sc ids skip now = (s', Ok tt) ->
    exists D', Rm s0 (Dacc ++ D') s' /\
      (forall j, In j ids -> skipped skip j = false -> In j D') /\
      (forall d, In d D' -> exists j, In j ids /\ Clo s0 j d) /\
      (forall y j fact, In y D' -> alookup j (st_facts s0) = Some fact ->
                        dw_names fact y = true -> In j (Dacc ++ D')).
  Proof.
    induction ids as [|j ids IH]; intros sc Dacc s' Hg HR Hrl; cbn [rem_list] in Hrl.
    - inversion Hrl; subst s'. exists []. rewrite app_nil_r.
      split; [exact HR|]. repeat split; intros; cbn [In] in *; contradiction.
    - destruct (skipped skip j) eqn:Ej.
      + destruct (IH sc Dacc s' Hg HR Hrl) as (D' & H1 & H2 & H3 & H4).
        exists D'. split; [exact H1|]. repeat split; auto.
        * intros j0 [Hj0|Hj0] Hne; [congruence|auto].
        * intros d Hd. destruct (H3 d Hd) as (j0 & Hj0 & Hc). exists j0. split; [right|]; auto.
      + destruct (rem_rec sc j now) as [s1 o] eqn:Er.
        destruct o as [b| | |]; try discriminate.
        destruct (Hspec sc j s1 b Hg Er) as (_ & Dj & Hj1 & Hj2 & Hj3 & Hj4).
        assert (Hg1 : good s1 now) by (eapply Rm_good; eauto).
        assert (HR1 : Rm s0 (Dacc ++ Dj) s1) by (eapply Rm_trans; eauto).
        destruct (IH s1 (Dacc ++ Dj)%list s' Hg1 HR1 Hrl) as (D'' & H1 & H2 & H3 & H4).
        exists (Dj ++ D'')%list. rewrite app_assoc. split; [exact H1|]. repeat split; auto.
        * intros j0 [Hj0|Hj0] Hne; apply in_or_app; [left; subst; auto|right; auto].
        * intros d Hd. apply in_app_or in Hd. destruct Hd as [Hd|Hd].
          -- exists j. split; [left; auto|]. eapply Clo_mono; [|apply Hj2; exact Hd].
             intros j0 f. eapply Rm_sub; eauto.
          -- destruct (H3 d Hd) as (j0 & Hj0 & Hc). exists j0. split; [right|]; auto.
        * intros y j0 fact Hy Hp Hn. apply in_app_or in Hy. destruct Hy as [Hy|Hy]; [|eauto].
          apply in_or_app. destruct (mem_str j0 Dacc) eqn:Em.
          -- left. apply in_or_app. left. apply mem_str_In. exact Em.
          -- left. apply in_or_app. right.
             destruct HR as (_ & _ & HF & _). specialize (HF j0). rewrite Em, Hp in HF.
             eapply Hj3; eauto.
  Qed.

  Lemma rem_body_exact s x s' had :
    good s now ->
    rem_body rem_rec s x now = (s', Ok had) -> Post s x s' had.
  Proof.
    intros Hg Hb. pose proof Hg as (Hk & Hf & Hne).
    unfold rem_body in Hb. rewrite Hk in Hb. unfold store_call in Hb. rewrite Hf in Hb.
    cbv zeta in Hb.
    match type of Hb with context [delete_dependencies rem_rec ?y x now] => set (s3 := y) in * end.
    assert (HR3 : Rm s [x] s3).
    { unfold Rm, s3. cbn [st_kind st_fail st_facts st_store set_facts set_store mem_str].
      repeat split; auto; intros j; rewrite alookup_aremove, orb_false_r; reflexivity. }
    assert (Hg3 : good s3 now) by (eapply Rm_good; eauto).
    pose proof Hg3 as (Hk3 & Hf3 & Hne3).
    unfold delete_dependencies in Hb. rewrite Hk3 in Hb.
    destruct (search_state_pure s3 x now Hk3 Hne3) as (found & Hsearch & Hfound0).
    rewrite Hsearch in Hb.
    pose proof (targets_exact s3 x found Hfound0) as Hfound.
    destruct (rem_list rem_rec s3 (dw_targets s3 x (map fst found)) (Some x) now) as [s6 o] eqn:Erl.
    destruct o as [[]| | |]; try discriminate.
    inversion Hb; subst s6. clear Hb.
    destruct (rem_list_exact s (Some x) _ s3 [x] s' Hg3 HR3 Erl) as (D' & R1 & R2 & R3 & R4).
    split.
    { cbn [st_facts set_store]. reflexivity. }
    change ([x] ++ D')%list with (x :: D') in *. exists (x :: D').
    assert (Hfound_clo : forall j, In j (dw_targets s3 x (map fst found)) -> Clo s x j).
    { intros j Hj. apply Hfound in Hj. destruct Hj as (f & Hp & Hh).
      eapply Clo_dep; [apply Clo_root| |exact Hh]. exact (Rm_sub _ _ _ _ _ HR3 Hp). }
    split; [left; reflexivity|]. split; [|split; [|exact R1]].
    - intros d [Hd|Hd]; [subst; constructor|].
      destruct (R3 d Hd) as (j & Hj & Hc). eapply Clo_trans; eauto.
    - intros y j fact [Hy|Hy] Hp Hn; [|exact (R4 y j fact Hy Hp Hn)].
      subst y. destruct (String.eqb j x) eqn:Ej.
      + apply String.eqb_eq in Ej. subst j. left; reflexivity.
      + right. apply R2.
        * apply Hfound. exists fact. split; [|exact Hn].
          destruct HR3 as (_ & _ & HF & _). rewrite HF. cbn [mem_str]. rewrite Ej. exact Hp.
        * cbn [skipped]. exact Ej.
  Qed.
End ExactGen.

Lemma rem_fuel_exact now : forall fuel s x s' had,
  good s now ->
  rem_fuel fuel s x now = (s', Ok had) -> Post s x s' had.
Proof.
  induction fuel as [|f IH]; intros s x s' had Hg H; cbn [rem_fuel] in H.
  - discriminate.
  - eapply rem_body_exact; eauto.
Qed.
