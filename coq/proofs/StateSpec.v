(** Statements for C02 (fact search is exact behind the inverted index). *)
From Verif Require Import Json Outcome Match PatIndex State.

(** Superset invariant of the inverted index: every term of every stored fact
    points back to the fact's id.  (Overwrites leave stale entries; they are
    harmless because every candidate is re-matched.) *)
Definition Idx_sup (s : state) : Prop :=
  forall id fact t, alookup id (st_facts s) = Some fact ->
                    In t (extract_terms fact) -> In id (ti_ids (st_tindex s) t).

(** Association lists of the state are sorted (so alookup/ainsert/aremove behave as maps). *)
Definition st_wf (s : state) : Prop :=
  sorted_keys (map fst (st_facts s)) = true /\
  sorted_keys (map fst (st_tindex s)) = true /\
  sorted_keys (map fst (st_store s)) = true.

(** Operations of the state API. *)
Inductive sop :=
| SAdd (given : string) (x : json) (fresh : string) (aux : option Z)
| SRem (id : string)
| SGet (id : string)
| SSearch (pattern : json)
| SFind (event : json)
| SClear.

Definition sstep (s : state) (o : sop * Z) : state :=
  let '(op, now) := o in
  match op with
  | SAdd given x fresh aux => fst (st_add s given x now fresh aux)
  | SRem id => fst (st_Rem s id now)
  | SGet id => fst (st_get s id now)
  | SSearch p => fst (st_search s p now)
  | SFind ev => fst (st_find_rules s ev now)
  | SClear => fst (st_clear s)
  end.

Definition reachable (k : skind) (hooks : bool) (fail : option nat) (ops : list (sop * Z)) : state :=
  fold_left sstep ops (set_fail (empty_state k hooks) fail).

(** (1) the invariant holds in every reachable state, for every history,
    including histories with one failing storage call *)
Definition idx_sup_reachable_statement : Prop :=
  forall hooks fail ops, let s := reachable Indexed hooks fail ops in st_wf s /\ Idx_sup s.

Fixpoint no_propvar (p : json) : bool :=
  match p with
  | JObj kvs => forallb (fun kv => negb (is_var (fst kv)) && no_propvar (snd kv)) kvs
  | JArr l => forallb no_propvar l
  | _ => true
  end.

(** (2) key lemma: a pattern without property variables that lays over a fact
    has all its terms among the fact's terms *)
Definition terms_subset_statement : Prop :=
  forall p fact b, no_propvar p = true -> wf_json p = true -> wf_json fact = true ->
    lay (lay_fuel p) b p fact = true ->
    forall t, In t (extract_terms p) -> In t (extract_terms fact).

Definition no_expired (s : state) (now : Z) : Prop :=
  forall id fact, alookup id (st_facts s) = Some fact -> fact_expired fact now = false.

Definition as_linear (s : state) : state :=
  mkState Linear (st_facts s) (st_tindex s) (st_pindex s) (st_store s) (st_hooks s) (st_calls s) (st_fail s) (st_amb s) (st_pending s).

(** (3) search exactness: in a state satisfying the invariant in which nothing
    has expired (and no purge is pending: true between any two operations,
    see [pending_empty_reachable_statement]), the indexed search returns exactly what the index-free
    (linear) search returns over the same fact map, provided the pattern has
    at least one term, matching raises no error on the stored facts (true on
    the matcher's fragment), and every fact the pattern matches contains the
    pattern's terms (discharged by (2) + matcher soundness). *)
Definition search_exact_statement : Prop :=
  forall s pattern now,
    st_kind s = Indexed -> st_wf s -> Idx_sup s -> no_expired s now ->
    st_pending s = [] ->
    extract_terms pattern <> [] ->
    (forall id fact, alookup id (st_facts s) = Some fact ->
        exists bss, core_match pattern fact [] = Ok bss) ->
    (forall id fact bss, alookup id (st_facts s) = Some fact ->
        core_match pattern fact [] = Ok bss -> bss <> [] ->
        forall t, In t (extract_terms pattern) -> In t (extract_terms fact)) ->
    exists r1 r2,
      st_search s pattern now = (s, r1) /\
      st_search (as_linear s) pattern now = (as_linear s, r2) /\
      match r1, r2 with
      | Ok f1, Ok f2 => forall x, In x f1 <-> In x f2
      | _, _ => False
      end.

(** No purge is left pending by an operation: the list of noted ids is empty
    in every reachable state (whatever the storage does). *)
Definition pending_empty_reachable_statement : Prop :=
  forall k hooks fail ops, st_pending (reachable k hooks fail ops) = [].

(** (4) get returns the value last written: after a successful add under id,
    get returns exactly the prepared fact, until a later add/rem of that id,
    a cascade or an expiry removes it; stated as: get agrees with the fact map *)
Definition get_exact_statement : Prop :=
  forall s id now,
    st_wf s -> st_pending s = [] ->
    match alookup id (st_facts s) with
    | Some fact => fact_expired fact now = false -> st_get s id now = (s, Ok fact)
    | None => st_get s id now = (s, Err "notfound")
    end.

(** (5) ids supplied by the caller are kept; an omitted id is the fresh one;
    a successful add is immediately visible *)
Definition add_visible_statement : Prop :=
  forall s given x now fresh aux s' id,
    st_wf s -> st_add s given x now fresh aux = (s', Ok id) ->
    (id_props (jO x) = [] -> id = if String.eqb given "" then fresh else given) /\
    exists fact, prepare_fact given x now fresh aux = Ok (id, fact) /\
                 alookup id (st_facts s') = Some fact /\
                 alookup id (st_store s') = Some fact /\
                 (forall j, j <> id -> alookup j (st_facts s') = alookup j (st_facts s)).
