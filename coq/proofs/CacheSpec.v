(** C17 - definitions and statements about the location cache model
    (theories/Cache.v).  Definitions and [..._statement : Prop] only; the
    theorems are in proofs/CacheProofs.v. *)
From Coq Require Import Lia.
From Verif Require Import Json Outcome Cache.

(** ** Histories *)

(** request times are non-decreasing *)
Fixpoint times_monob (h : list creq) : bool :=
  match h with
  | [] => true
  | q :: r => match r with
              | [] => true
              | q' :: _ => (cq_now q <=? cq_now q') && times_monob r
              end
  end.
Definition times_mono (h : list creq) : Prop := times_monob h = true.

(** no request sets the !cacheTTL property to a positive duration *)
Definition no_pos_setttl (h : list creq) : bool :=
  forallb (fun q => match cq_kind q with KSetCacheTTL ms => ms <=? 0 | _ => true end) h.

(** ** Observations *)

Definition ok_of (o : cobs) : bool := match co_result o with Ok _ => true | _ => false end.

Definition none_stale (obs : list cobs) : Prop := forall o, In o obs -> co_stale o = false.

(** the instances that served the successful requests, in order *)
Fixpoint served (obs : list cobs) : list nat :=
  match obs with
  | [] => []
  | o :: r => match co_result o with Ok i => i :: served r | _ => served r end
  end.

(** number of loads of [name] in a load log *)
Definition loads_of (name : string) (l : list (string * nat)) : nat :=
  length (filter (fun p => String.eqb (fst p) name) l).

(** number of successful requests to [name] *)
Fixpoint succ_count (name : string) (h : list creq) (obs : list cobs) : nat :=
  match h, obs with
  | q :: h', o :: obs' =>
      (if String.eqb (cq_name q) name && ok_of o then 1 else 0) + succ_count name h' obs'
  | _, _ => 0
  end%nat.

(** ** Operating the location directly (no cache, no instances): the storage
    version, the created marker and the !cacheTTL property; a request succeeds
    unless existence is checked and the location was never created. *)

Record dsys := mkDsys {
  d_ver : list (string * nat);
  d_created : list string;
  d_cache_ttl : list (string * Z);
}.

Definition dsys0 : dsys := mkDsys [] [] [].

Definition dver_of (d : dsys) (name : string) : nat :=
  match alookup name (d_ver d) with Some v => v | None => O end.

Definition drequest (check : bool) (d : dsys) (q : creq) : dsys * bool :=
  let name := cq_name q in
  let v := S (dver_of d name) in
  match cq_kind q with
  | KCreate =>
      (mkDsys (ainsert name v (d_ver d))
              (if mem_str name (d_created d) then d_created d else name :: d_created d)
              (d_cache_ttl d), true)
  | k =>
      if check && negb (mem_str name (d_created d)) then (d, false)
      else (match k with
            | KRead => d
            | KSetCacheTTL ms => mkDsys (ainsert name v (d_ver d)) (d_created d) (ainsert name ms (d_cache_ttl d))
            | _ => mkDsys (ainsert name v (d_ver d)) (d_created d) (d_cache_ttl d)
            end, true)
  end.

Fixpoint drun_from (check : bool) (d : dsys) (h : list creq) : dsys * list bool :=
  match h with
  | [] => (d, [])
  | q :: r => let '(d1, b) := drequest check d q in
              let '(d2, bs) := drun_from check d1 r in (d2, b :: bs)
  end.

Definition drun (check : bool) (h : list creq) : dsys * list bool := drun_from check dsys0 h.

(** ** 1. The cache never serves state that misses an acknowledged write.
    Nothing is assumed about the history: request times may go backwards and
    !cacheTTL may be negative. *)
Definition cache_never_stale_any_history_statement : Prop :=
  forall cf h, none_stale (snd (crun cf h)).

(** as asked (a corollary) *)
Definition cache_never_stale_statement : Prop :=
  forall cf h, times_mono h -> forall o, In o (snd (crun cf h)) -> co_stale o = false.

(** ** 2. Through the cache = operating the location directly, whatever the TTL. *)
Definition cache_transparent_statement : Prop :=
  forall cf h,
    cs_ver (fst (crun cf h)) = d_ver (fst (drun (cf_check cf) h)) /\
    cs_created (fst (crun cf h)) = d_created (fst (drun (cf_check cf) h)) /\
    cs_cache_ttl (fst (crun cf h)) = d_cache_ttl (fst (drun (cf_check cf) h)) /\
    map ok_of (snd (crun cf h)) = snd (drun (cf_check cf) h) /\
    none_stale (snd (crun cf h)).

Definition results_independent_of_ttl_statement : Prop :=
  forall cf1 cf2 h, cf_check cf1 = cf_check cf2 -> times_mono h ->
    map (fun o => match co_result o with Ok _ => true | _ => false end) (snd (crun cf1 h)) =
    map (fun o => match co_result o with Ok _ => true | _ => false end) (snd (crun cf2 h)) /\
    (forall o, In o (snd (crun cf1 h)) -> co_stale o = false) /\
    (forall o, In o (snd (crun cf2 h)) -> co_stale o = false) /\
    cs_created (fst (crun cf1 h)) = cs_created (fst (crun cf2 h)) /\
    cs_ver (fst (crun cf1 h)) = cs_ver (fst (crun cf2 h)) /\
    cs_cache_ttl (fst (crun cf1 h)) = cs_cache_ttl (fst (crun cf2 h)).

(** ** 3. Existence check *)

(** states reached by a history of requests *)
Definition creachable (cf : cconf) (s : csys) : Prop := exists h, s = fst (crun cf h).

Definition existence_check_no_create_statement : Prop :=
  forall cf s name k t,
    creachable cf s -> cf_check cf = true -> k <> KCreate ->
    mem_str name (cs_created s) = false ->
    let s' := fst (crequest cf s (mkCreq name k t)) in
    snd (crequest cf s (mkCreq name k t)) = mkCobs (Err "notfound") false /\
    cs_ver s' = cs_ver s /\ cs_created s' = cs_created s /\ cs_cache_ttl s' = cs_cache_ttl s /\
    cs_loads s' = cs_loads s /\ cs_next s' = cs_next s /\
    alookup name (cs_cache s') = None.

(** a created location answers (whatever happened in between) *)
Definition created_succeeds_statement : Prop :=
  forall cf s name k t,
    creachable cf s -> mem_str name (cs_created s) = true ->
    ok_of (snd (crequest cf s (mkCreq name k t))) = true.

(** KCreate always succeeds and sets the marker *)
Definition create_creates_statement : Prop :=
  forall cf s name t,
    creachable cf s ->
    ok_of (snd (crequest cf s (mkCreq name KCreate t))) = true /\
    mem_str name (cs_created (fst (crequest cf s (mkCreq name KCreate t)))) = true.

(** hence: after a KCreate the requests that failed succeed *)
Definition create_then_succeeds_statement : Prop :=
  forall cf s name k t t',
    creachable cf s ->
    ok_of (snd (crequest cf (fst (crequest cf s (mkCreq name KCreate t))) (mkCreq name k t'))) = true.

(** without the check every request succeeds, and nothing but KCreate sets the marker *)
Definition no_check_succeeds_statement : Prop :=
  forall cf s name k t,
    creachable cf s -> cf_check cf = false ->
    ok_of (snd (crequest cf s (mkCreq name k t))) = true /\
    (k <> KCreate -> cs_created (fst (crequest cf s (mkCreq name k t))) = cs_created s).

(** ** 4. Forever loads once; Never reloads on every request *)

(** TTL Forever: every location is loaded at most once and all its requests
    are served by that one instance.  Nothing is assumed about the history:
    it may set !cacheTTL (the property is only read when a location is loaded,
    and under Forever a location is loaded before the property can be set and
    never again), times may go backwards, and failed requests (existence
    check) load nothing. *)
Definition forever_loads_once_statement : Prop :=
  forall cf h, cf_ttl cf = None ->
    let s := fst (crun cf h) in
    let obs := snd (crun cf h) in
    (forall name, loads_of name (cs_loads s) <= 1)%nat /\
    (forall k q o i, nth_error h k = Some q -> nth_error obs k = Some o -> co_result o = Ok i ->
                     In (cq_name q, i) (cs_loads s)) /\
    (forall k1 k2 q1 q2 o1 o2 i1 i2,
        nth_error h k1 = Some q1 -> nth_error obs k1 = Some o1 -> co_result o1 = Ok i1 ->
        nth_error h k2 = Some q2 -> nth_error obs k2 = Some o2 -> co_result o2 = Ok i2 ->
        cq_name q1 = cq_name q2 -> i1 = i2).

(** TTL Never: every successful request loads a fresh instance and nothing
    stays in the cache - provided CachePending is off or no !cacheTTL property
    is positive (see [never_pending_cachettl_counterexample]). *)
Definition never_reloads_every_request_statement : Prop :=
  forall cf h, cf_ttl cf = Some 0 -> (cf_pending cf = false \/ no_pos_setttl h = true) ->
    let s := fst (crun cf h) in
    let obs := snd (crun cf h) in
    (forall name, loads_of name (cs_loads s) = succ_count name h obs) /\
    NoDup (served obs) /\
    (forall name, alookup name (cs_cache s) = None).

(** ** 5. Concurrent first requests for one location *)

Definition got_all (k : cconc) (i : nat) : Prop :=
  forall cl, In cl (k_clients k) -> cc_got cl = Some i.

Definition single_load_with_reuse_statement : Prop :=
  forall n sched, (n >= 1)%nat ->
    all_done (conc_run true true n sched) = true ->
    k_loads (conc_run true true n sched) = 1%nat /\
    exists i, got_all (conc_run true true n sched) i.

Definition loads_bounded_statement : Prop :=
  forall reuse cached n sched, (k_loads (conc_run reuse cached n sched) <= n)%nat.

Definition uncached_loads_each_statement : Prop :=
  forall reuse n sched,
    all_done (conc_run reuse false n sched) = true ->
    k_loads (conc_run reuse false n sched) = n /\
    length (k_clients (conc_run reuse false n sched)) = n /\
    Forall (fun cl => exists i, cc_got cl = Some i) (k_clients (conc_run reuse false n sched)) /\
    NoDup (map cc_got (k_clients (conc_run reuse false n sched))).

(** ** 6. An instance in use is never replaced (all schedules of N clients
    that open, use and release one location, any TTL, any clock) *)

(** client [j] holds instance [i]: it is between its Open and its Release *)
Definition lholds (k : lsys) (j i : nat) : Prop :=
  exists ei, nth_error (l_clients k) j = Some (LHolding ei i).

(** the protocol of the repaired code, with pending entries in the map (NewSystem forces CachePending) *)
Definition lrepaired (cf : lconf) : Prop := lc_count cf = true /\ lcached cf = true.

(** While a client holds an instance, the cache map holds that very instance
    (it was neither dropped nor replaced), and whatever happens next - any
    step of any client, a tick of any size, a change of !cacheTTL - no client
    holds a different one afterwards. *)
Definition in_use_instance_never_replaced_statement : Prop :=
  forall cf n sched j i, lrepaired cf ->
    lholds (lrun cf n sched) j i ->
    lslot_inst (lrun cf n sched) = Some i /\
    forall ev j' i', lholds (lstep cf (lrun cf n sched) ev) j' i' -> i' = i.

Definition overlapping_requests_share_one_instance_statement : Prop :=
  forall cf n sched j1 i1 j2 i2, lrepaired cf ->
    lholds (lrun cf n sched) j1 i1 -> lholds (lrun cf n sched) j2 i2 -> i1 = i2.

(** a write through a held instance is acknowledged: it is in storage and in that instance *)
Definition held_write_acknowledged_statement : Prop :=
  forall cf k j i, lholds k j i ->
    let k' := lstep cf k (LWrite j) in
    l_store k' = length (l_store k) :: l_store k /\ lmem_of k' i = length (l_store k) :: lmem_of k i /\
    l_clients k' = l_clients k.

(** Every write acknowledged so far stays in storage, and it is in the
    instance held by ANY client at ANY later moment - the instance the cache
    kept (shared) or the one a later Open loaded from storage. *)
Definition acknowledged_write_visible_to_later_open_statement : Prop :=
  forall cf n sched later w, lrepaired cf ->
    In w (l_store (lrun cf n sched)) ->
    let k := lrun cf n (sched ++ later) in
    In w (l_store k) /\ forall j i, lholds k j i -> In w (lmem_of k i).

(** more precisely: a held instance contains exactly the acknowledged writes, and so did every read *)
Definition held_instance_is_current_statement : Prop :=
  forall cf n sched, lrepaired cf ->
    let k := lrun cf n sched in
    (forall j i, lholds k j i -> lmem_of k i = l_store k) /\
    (forall j seen acked, In (j, seen, acked) (l_reads k) -> seen = acked).

(** Pending is exactly the number of clients between their Open and their
    Release - whether their Open succeeded or failed: nothing is left behind,
    so an entry nobody uses can expire. *)
Definition pending_counts_users_statement : Prop :=
  forall cf n sched ei, lrepaired cf ->
    l_slot (lrun cf n sched) = Some ei ->
    le_pending (lentry_at (lrun cf n sched) ei) = lusers (l_clients (lrun cf n sched)).
