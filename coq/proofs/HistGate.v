(** C19 over histories: refused requests are no-ops and get no value. *)
From Coq Require Import Lia.
From Verif Require Import Json Outcome Match PatIndex State Location SysOps.
From Verif Require Import StateSpec AssocLemmas CascadeSpec CascadeLemmas1 StateProofs GateProofs CapacityProofs.
From Verif Require Import LocSpec LocBasics LocRules LocWalk LocProofs HistSpec HistLoc.

Lemma with_loc_res {A} sy name (f : loc -> loc * outcome A) l :
  sys_get sy name = Some l -> snd (with_loc sy name f) = snd (f l).
Proof. intros Hg. unfold with_loc. rewrite Hg. destruct (f l) as [l' r]. reflexivity. Qed.

Lemma sys_step_local_res sy name c e op l :
  is_walk op = false -> sys_get sy name = Some l ->
  snd (sys_step sy name c e op) = loc_res name l c e op.
Proof.
  intros Hw Hg. destruct op; cbn [sys_step loc_res];
    try (match goal with |- context [with_loc sy name ?f] =>
           let H := fresh "H" in
           pose proof (with_loc_res sy name f l Hg) as H; destruct (with_loc sy name f) as [sy' r];
           cbn [snd] in *; rewrite H; reflexivity end).
  - destruct inherited; [discriminate|]. rewrite Hg.
    unfold sys_search. rewrite Hg. destruct (loc_search_local l c e pattern) as [l' r]. reflexivity.
  - discriminate.
Qed.

(** * What a refusing gate list answers *)

Lemma first_refusal_some l c now gs g :
  In g gs -> gate_pass l c now g = false -> exists e, first_refusal l c now gs = Some e.
Proof.
  intros Hin Hp. unfold first_refusal.
  destruct (find (fun g0 => negb (gate_pass l c now g0)) gs) as [g'|] eqn:E; [eexists; reflexivity|].
  exfalso. pose proof (find_none _ _ E g Hin) as H. cbv beta in H. rewrite Hp in H. discriminate.
Qed.

Lemma first_refusal_in l c now gs e :
  first_refusal l c now gs = Some e -> exists g, In g gs /\ e = gate_err g.
Proof.
  unfold first_refusal. destruct (find (fun g0 => negb (gate_pass l c now g0)) gs) as [g'|] eqn:E; [|discriminate].
  intros H. injection H as <-. exists g'. split; [|reflexivity]. apply find_some in E. apply E.
Qed.

Lemma gate_err_refusal g : gate_err g = E_denied \/ gate_err g = E_disabled \/ gate_err g = E_capacity.
Proof. destruct g; cbn; auto. Qed.

Definition gates_of_op (op : lop) : list gate :=
  match op with
  | LAddFact _ _ => gates_of "AddFact"
  | LAddRule _ _ => gates_of "AddRule"
  | LRemFact _ => gates_of "RemFact"
  | LRemRule _ => gates_of "RemRule"
  | LGetFact _ => gates_of "GetFact"
  | LGetRule _ => gates_of "GetRule"
  | LEnableRule _ _ => gates_of "EnableRule"
  | LClear => gates_of "Clear"
  | LSetParents _ => gates_of "SetParents"
  | LGetParents => gates_of "GetParents"
  | LSize => gates_of "StateSize"
  | LSearch _ _ => gates_of "searchFacts"
  | LEvent _ => gates_of "searchRules"
  | _ => []
  end.

(** a request whose gates refuse changes nothing and answers the gate's error *)
Lemma refused_op_noop name l c e op er :
  nothing_expired l (e_now e) ->
  first_refusal l c (e_now e) (gates_of_op op) = Some er ->
  loc_apply l c e op = l /\ (is_walk op = false -> lres_err (loc_res name l c e op) = Some er).
Proof.
  intros Hne Hr.
  destruct op; cbn [gates_of_op] in Hr; cbn [loc_apply loc_res];
    try (unfold first_refusal in Hr; cbn [gates_of String.eqb Ascii.eqb Bool.eqb find] in Hr; discriminate).
  - unfold loc_add_fact. rewrite gated_pure by exact Hne. rewrite Hr. auto.
  - unfold loc_add_rule. rewrite gated_pure by exact Hne. rewrite Hr. auto.
  - unfold loc_rem_fact. rewrite gated_pure by exact Hne. rewrite Hr. auto.
  - unfold loc_rem_rule. rewrite gated_pure by exact Hne. rewrite Hr. auto.
  - unfold loc_get_fact. rewrite gated_pure by exact Hne. rewrite Hr. auto.
  - unfold loc_get_rule. rewrite gated_pure by exact Hne. rewrite Hr. auto.
  - unfold loc_enable_rule. rewrite gated_pure by exact Hne. rewrite Hr. auto.
  - unfold loc_clear. rewrite gated_pure by exact Hne. rewrite Hr. auto.
  - unfold loc_set_parents. rewrite gated_pure by exact Hne. rewrite Hr. auto.
  - unfold loc_get_parents. rewrite gated_pure by exact Hne. rewrite Hr. auto.
  - unfold loc_size. rewrite gated_pure by exact Hne. rewrite Hr. auto.
  - unfold loc_search_local. rewrite gated_pure by exact Hne. rewrite Hr. auto.
  - split; [reflexivity|]. intros; discriminate.
Qed.

(** * A walk whose root refuses yields no value *)
Section RootRefused.
  Variable A : Type.
  Variable visit : string -> loc -> loc * outcome A.
  Variable now : Z.
  Hypothesis visit_noexp : forall n l, nothing_expired l now -> fst (visit n l) = l.

  Lemma go_par_keeps_live rec name :
    (forall sy p done acc, keeps_live now sy (w_sys A (rec sy p done acc))) ->
    forall ps sy done acc, keeps_live now sy (w_sys A (go_par A rec name sy ps done acc)).
  Proof.
    intros Hrec. induction ps as [|p r IH]; intros sy done acc.
    - rewrite go_par_nil. apply keeps_live_refl.
    - rewrite go_par_cons. destruct (String.eqb p name); [apply keeps_live_refl|].
      pose proof (Hrec sy p done acc) as H1.
      destruct (rec sy p done acc) as [[sy1 d1] [a1|x|w|]]; unfold w_sys in *; cbn [fst] in *; try exact H1.
      eapply keeps_live_trans; [exact H1|apply IH].
  Qed.

  Definition not_ok {B} (o : outcome B) : Prop := match o with Ok _ => False | _ => True end.

  Lemma walk_root_refused sy name l x :
    sys_get sy name = Some l -> nothing_expired l now -> snd (visit name l) = Err x ->
    forall f acc, not_ok (w_out A (do_ancestors A visit f sy name now [] [] acc)).
  Proof.
    intros Hg Hne Hv f acc. destruct f as [|f]; [rewrite do_ancestors_0; exact I|].
    rewrite do_ancestors_S. cbn [mem_str]. rewrite Hg.
    pose proof (get_parents_noexp l now Hne) as Hp.
    destruct (get_parents l now) as [l1 [parents|y|w|]]; cbn [fst] in Hp; subst l1; try exact I.
    pose proof (go_par_keeps_live (rec_of A visit f now name []) name
                  (fun sy0 p d a => walk_keeps_live A visit now visit_noexp f sy0 p (name :: []) d a)
                  parents (sys_set sy name l) [] acc) as Hk.
    destruct (go_par A (rec_of A visit f now name []) name (sys_set sy name l) parents [] acc)
      as [[sy2 d2] [a2|y|w|]]; unfold w_sys, w_out in *; cbn [fst snd finish] in *; try exact I.
    assert (Hg2 : sys_get sy2 name = Some l).
    { rewrite (Hk name); [apply sys_get_set_same|]. intros l0 Hl0. rewrite sys_get_set_same in Hl0.
      injection Hl0 as <-. exact Hne. }
    rewrite Hg2. destruct (visit name l) as [l3 r]. cbn [snd] in Hv. subst r. exact I.
  Qed.
End RootRefused.

Lemma sys_search_inh_refused sy name c e p l er :
  sys_get sy name = Some l -> nothing_expired l (e_now e) ->
  first_refusal l c (e_now e) (gates_of "searchFacts") = Some er ->
  not_ok (snd (sys_search sy name c e p true)).
Proof.
  intros Hg Hne Hr. rewrite sys_search_inherited. cbv zeta. cbn [snd].
  apply (walk_root_refused _ (fun _ l0 => loc_search_local l0 c e p) (e_now e)
           (fun _ l0 H => loc_search_local_noexp l0 c e p H) sy name l er Hg Hne).
  unfold loc_search_local. rewrite gated_pure by exact Hne. rewrite Hr. reflexivity.
Qed.

Lemma sys_find_rules_refused sy name c e ev l er :
  sys_get sy name = Some l -> nothing_expired l (e_now e) ->
  first_refusal l c (e_now e) (gates_of "searchRules") = Some er ->
  not_ok (snd (sys_find_rules sy name c e ev)).
Proof.
  intros Hg Hne Hr. unfold sys_find_rules.
  pose proof (walk_root_refused _ (fun _ l0 => loc_rules_local l0 c e ev) (e_now e)
           (fun _ l0 H => loc_rules_local_noexp l0 c e ev H) sy name l er Hg Hne) as H.
  specialize (H ltac:(unfold loc_rules_local; rewrite gated_pure by exact Hne; rewrite Hr; reflexivity)
                (anc_fuel sy) []).
  destruct (do_ancestors _ (fun _ l0 => loc_rules_local l0 c e ev) (anc_fuel sy) sy name (e_now e) [] [] [])
    as [[sy1 d] r]. unfold w_out in H. cbn [snd] in H.
  destruct r as [groups|y|w|]; cbn [snd]; try exact I. destruct H.
Qed.

(** * One request against a location that keeps refusing *)

(** the request, if addressed to [name], is one that the location [l] refuses *)
Definition req_refused (name : string) (l : loc) (q : request) : Prop :=
  r_loc q = name ->
  exists er, first_refusal l (r_ctx q) (e_now (r_env q)) (gates_of_op (r_op q)) = Some er.

Lemma sys_do_refused sy name l q :
  sys_get sy name = Some l -> nothing_expired l (e_now (r_env q)) -> req_refused name l q ->
  sys_get (sys_do sy q) name = Some l.
Proof.
  intros Hg Hne Hq. unfold sys_do. destruct q as [n c e op]. cbn [r_loc r_ctx r_env r_op] in *.
  destruct (is_walk op) eqn:Hw.
  - destruct (sys_step sy n c e op) as [sy' r] eqn:E. cbn [fst].
    rewrite (step_frame_walk sy n c e op sy' r Hw E name); [exact Hg|].
    intros l0 Hl0. rewrite Hg in Hl0. injection Hl0 as <-. exact Hne.
  - destruct (String.eqb_spec n name) as [->|Hn].
    + rewrite (sys_step_local_at sy name c e op l Hw Hg). destruct (Hq eq_refl) as (er & Hr).
      destruct (refused_op_noop name l c e op er Hne Hr) as [-> _]. reflexivity.
    + rewrite sys_step_local_other by auto. exact Hg.
Qed.

Lemma sys_ans_refused sy name l q :
  sys_get sy name = Some l -> nothing_expired l (e_now (r_env q)) -> r_loc q = name ->
  forall er, first_refusal l (r_ctx q) (e_now (r_env q)) (gates_of_op (r_op q)) = Some er ->
  lres_ok (sys_ans sy q) = false /\ (is_walk (r_op q) = false -> lres_err (sys_ans sy q) = Some er).
Proof.
  intros Hg Hne Hn er Hr. unfold sys_ans. destruct q as [n c e op]. cbn [r_loc r_ctx r_env r_op] in *. subst n.
  destruct (is_walk op) eqn:Hw.
  - split; [|intros; discriminate]. destruct op; try discriminate; cbn [sys_step gates_of_op] in *.
    + destruct inherited; [|discriminate]. rewrite Hg.
      pose proof (sys_search_inh_refused sy name c e pattern l er Hg Hne Hr) as H.
      destruct (sys_search sy name c e pattern true) as [sy' [v|y|w|]]; cbn [snd lres_ok] in *; auto. destruct H.
    + rewrite Hg. pose proof (sys_find_rules_refused sy name c e event l er Hg Hne Hr) as H.
      destruct (sys_find_rules sy name c e event) as [sy' [v|y|w|]]; cbn [snd lres_ok] in *; auto. destruct H.
  - rewrite (sys_step_local_res sy name c e op l Hw Hg).
    destruct (refused_op_noop name l c e op er Hne Hr) as [_ H]. specialize (H Hw).
    split; [|intros _; exact H]. destruct (loc_res name l c e op) as [[]|[]|[]|[]|[]|[]|[]|[]]; cbn in *; congruence.
Qed.

(** the core: a history against a location that refuses everything addressed to it *)
Lemma refused_history_core : forall h sy name l,
  sys_get sy name = Some l ->
  (forall q, In q h -> nothing_expired l (e_now (r_env q))) ->
  (forall q, In q h -> req_refused name l q) ->
  sys_get (sys_run sy h) name = Some l /\
  (forall q r, In (q, r) (sys_trace sy h) -> r_loc q = name ->
     forall er, first_refusal l (r_ctx q) (e_now (r_env q)) (gates_of_op (r_op q)) = Some er ->
     lres_ok r = false /\ (is_walk (r_op q) = false -> lres_err r = Some er)).
Proof.
  induction h as [|q0 h IH]; intros sy name l Hg Hne Hq.
  - split; [exact Hg|]. intros q r [].
  - cbn [sys_run fold_left sys_trace].
    assert (Hg1 : sys_get (sys_do sy q0) name = Some l).
    { apply sys_do_refused; [exact Hg|apply Hne; left; reflexivity|apply Hq; left; reflexivity]. }
    destruct (IH (sys_do sy q0) name l Hg1 (fun q H => Hne q (or_intror H)) (fun q H => Hq q (or_intror H)))
      as [IH1 IH2].
    split; [exact IH1|]. intros q r [Heq|Hin] Hn er Hr.
    + injection Heq as <- <-. apply (sys_ans_refused sy name l q0 Hg (Hne q0 (or_introl eq_refl)) Hn er Hr).
    + exact (IH2 q r Hin Hn er Hr).
Qed.

(** * B0, B1, B2 *)

Theorem wrong_key_is_refused_main : wrong_key_is_refused_statement.
Proof.
  intros l c now k. split; [|split].
  - intros Hk Hnz Hc. left. rewrite check_write_spec. rewrite Hk. cbv zeta.
    apply String.eqb_neq in Hnz, Hc. rewrite Hnz, Hc. apply Bool.andb_false_r.
  - intros Hro. left. rewrite check_write_spec. rewrite Hro. reflexivity.
  - intros Hk Hnz Hc. left. rewrite check_read_spec. rewrite Hk. cbv zeta.
    apply String.eqb_neq in Hnz, Hc. rewrite Hnz, Hc. reflexivity.
Qed.

Lemma mutating_refused l c now op :
  is_mutating op = true -> write_refused l c now ->
  exists er, first_refusal l c now (gates_of_op op) = Some er.
Proof.
  intros Hm Hw.
  assert (Hin : In GWrite (gates_of_op op) /\ In GEnabled (gates_of_op op))
    by (destruct op; try discriminate; vm_compute; tauto).
  destruct Hin as [H1 H2]. destruct Hw as [Hw|Hw].
  - eapply (first_refusal_some l c now _ GWrite); [exact H1|exact Hw].
  - eapply (first_refusal_some l c now _ GEnabled); [exact H2|exact Hw].
Qed.

Lemma reading_refused l c now op :
  is_reading op = true -> read_refused l c now ->
  exists er, first_refusal l c now (gates_of_op op) = Some er /\ (er = E_denied \/ er = E_disabled).
Proof.
  intros Hm Hw.
  assert (Hgs : gates_of_op op = [GEnabled; GRead]) by (destruct op; try discriminate; reflexivity).
  rewrite Hgs.
  assert (H : exists er, first_refusal l c now [GEnabled; GRead] = Some er).
  { destruct Hw as [Hw|Hw].
    - eapply (first_refusal_some l c now _ GRead); [right; left; reflexivity|exact Hw].
    - eapply (first_refusal_some l c now _ GEnabled); [left; reflexivity|exact Hw]. }
  destruct H as (er & Hr). exists er. split; [exact Hr|].
  destruct (first_refusal_in _ _ _ _ _ Hr) as (g & Hin & ->); destruct Hin as [<- |[<- |[]]]; cbn; auto.
Qed.

Theorem wrong_key_history_is_noop_main : wrong_key_history_is_noop_statement.
Proof.
  intros h sy name l Hg Hne Hq.
  destruct (refused_history_core h sy name l Hg Hne) as [H1 H2].
  { intros q Hin Hn. destruct (Hq q Hin Hn) as [Hm Hw]. eapply mutating_refused; eassumption. }
  split; [exact H1|]. intros q r Hin Hn.
  assert (Hqin : In q h).
  { clear - Hin. revert sy Hin. induction h as [|q0 h IH]; intros sy Hin; [destruct Hin|].
    cbn [sys_trace] in Hin. destruct Hin as [Heq|Hin]; [injection Heq as <- _; left; reflexivity|right; eapply IH; exact Hin]. }
  destruct (Hq q Hqin Hn) as [Hm Hw].
  destruct (mutating_refused l (r_ctx q) (e_now (r_env q)) (r_op q) Hm Hw) as (er & Hr).
  destruct (H2 q r Hin Hn er Hr) as [_ He].
  assert (Hnw : is_walk (r_op q) = false) by (destruct (r_op q); try discriminate; reflexivity).
  specialize (He Hnw). destruct (first_refusal_in _ _ _ _ _ Hr) as (g & _ & ->).
  unfold refusal. rewrite He. destruct (gate_err_refusal g) as [E|[E|E]]; rewrite E; auto.
Qed.

Theorem wrong_read_key_reveals_nothing_main : wrong_read_key_reveals_nothing_statement.
Proof.
  intros h sy name l Hg Hne Hq.
  destruct (refused_history_core h sy name l Hg Hne) as [H1 H2].
  { intros q Hin Hn. destruct (Hq q Hin Hn) as [Hm Hw].
    destruct (reading_refused l (r_ctx q) (e_now (r_env q)) (r_op q) Hm Hw) as (er & Hr & _). exists er. exact Hr. }
  split; [exact H1|]. intros q r Hin Hn.
  assert (Hqin : In q h).
  { clear - Hin. revert sy Hin. induction h as [|q0 h IH]; intros sy Hin; [destruct Hin|].
    cbn [sys_trace] in Hin. destruct Hin as [Heq|Hin]; [injection Heq as <- _; left; reflexivity|right; eapply IH; exact Hin]. }
  destruct (Hq q Hqin Hn) as [Hm Hw].
  destruct (reading_refused l (r_ctx q) (e_now (r_env q)) (r_op q) Hm Hw) as (er & Hr & Her).
  destruct (H2 q r Hin Hn er Hr) as [Hok He]. split; [exact Hok|].
  intros Hnw. rewrite (He Hnw). destruct Her as [->| ->]; auto.
Qed.
