(** C09/C10 support, part 1: systems as maps, facts only shrink under reads,
    removal really removes. *)
From Coq Require Import Lia.
From Verif Require Import Json Outcome Match PatIndex State Location SysOps.
From Verif Require Import StateSpec AssocLemmas CascadeSpec CascadeLemmas1 CascadeTerm GateProofs LocSpec.
From Verif Require StateProofs.

(** * Systems as maps *)

Lemma sys_get_set_same sy n l : sys_get (sys_set sy n l) n = Some l.
Proof. apply AssocLemmas.alookup_ainsert_same. Qed.

Lemma sys_get_set_other sy n l o : o <> n -> sys_get (sys_set sy n l) o = sys_get sy o.
Proof. intros H. apply AssocLemmas.alookup_ainsert_other. exact H. Qed.

Lemma sys_wf_set sy n l : sys_wf sy -> sys_wf (sys_set sy n l).
Proof. apply sorted_ainsert. Qed.

Lemma ainsert_same_id {A} k (v : A) l :
  sorted_keys (map fst l) = true -> alookup k l = Some v -> ainsert k v l = l.
Proof.
  induction l as [|[k' v'] r IH]; cbn [ainsert alookup map fst]; intros Hs Hl.
  - discriminate.
  - apply sorted_cons in Hs. destruct Hs as [Hlb Hs].
    destruct (String.eqb_spec k k') as [<-|Hne].
    + injection Hl as <-. rewrite scmp_refl. reflexivity.
    + destruct (String.compare k k') eqn:E.
      * apply scmp_eq in E. contradiction.
      * exfalso. apply AssocLemmas.alookup_In_keys in Hl. apply Hlb in Hl.
        apply str_ltb_lt in Hl. apply scmp_lt_gt in Hl. congruence.
      * rewrite IH; auto.
Qed.

Lemma keys_ainsert_present {A} k (v v' : A) l :
  sorted_keys (map fst l) = true -> alookup k l = Some v ->
  map fst (ainsert k v' l) = map fst l.
Proof.
  induction l as [|[k' w] r IH]; cbn [ainsert alookup map fst]; intros Hs Hl.
  - discriminate.
  - apply sorted_cons in Hs. destruct Hs as [Hlb Hs].
    destruct (String.eqb_spec k k') as [<-|Hne].
    + rewrite scmp_refl. reflexivity.
    + destruct (String.compare k k') eqn:E.
      * apply scmp_eq in E. contradiction.
      * exfalso. apply AssocLemmas.alookup_In_keys in Hl. apply Hlb in Hl.
        apply str_ltb_lt in Hl. apply scmp_lt_gt in Hl. congruence.
      * cbn [map fst]. rewrite IH; auto.
Qed.

Lemma sys_set_same_id sy n l : sys_wf sy -> sys_get sy n = Some l -> sys_set sy n l = sy.
Proof. intros Hw Hg. apply ainsert_same_id; assumption. Qed.

Lemma sys_set_keys sy n l l' :
  sys_wf sy -> sys_get sy n = Some l -> map fst (sys_set sy n l') = map fst sy.
Proof. intros Hw Hg. eapply keys_ainsert_present; eassumption. Qed.

Lemma with_loc_frame {A} sy name (f : loc -> loc * outcome A) sy' r :
  with_loc sy name f = (sy', r) ->
  forall other, other <> name -> sys_get sy' other = sys_get sy other.
Proof.
  unfold with_loc. intros H other Hne.
  destruct (sys_get sy name) as [l|].
  - destruct (f l) as [l' r']. injection H as <- _. apply sys_get_set_other; exact Hne.
  - injection H as <- _. reflexivity.
Qed.

Lemma with_loc_wf {A} sy name (f : loc -> loc * outcome A) sy' r :
  sys_wf sy -> with_loc sy name f = (sy', r) -> sys_wf sy'.
Proof.
  unfold with_loc. intros Hw H.
  destruct (sys_get sy name) as [l|].
  - destruct (f l) as [l' r']. injection H as <- _. apply sys_wf_set; exact Hw.
  - injection H as <- _. exact Hw.
Qed.

(** * The purge only shrinks the fact map; the readers only note *)

Lemma purge_fsub s now : fsub (st_facts (fst (purge s now))) (st_facts s).
Proof.
  apply (StateProofs.purge_inv (fun s' => fsub (st_facts s') (st_facts s))).
  - intros s' p H. exact H.
  - intros s' id now' H. eapply fsub_trans; [apply st_rem_fsub|exact H].
  - apply fsub_refl.
Qed.

Lemma with_purge_fsub {A} (r : state * outcome A) now :
  fsub (st_facts (fst (with_purge r now))) (st_facts (fst r)).
Proof. unfold with_purge. cbn [fst]. apply purge_fsub. Qed.

(** the lookup only notes *)
Lemma get_body_facts s id now : st_facts (fst (get_body s id now)) = st_facts s.
Proof.
  unfold get_body. destruct (alookup id (st_facts s)) as [fact|]; [|reflexivity].
  pose proof (expire_facts now s id fact) as H.
  destruct (expire s id fact now) as [s1 [|]]; exact H.
Qed.

(** what State.Get answers *)
Lemma st_get_snd s id now :
  snd (st_get s id now) =
  match alookup id (st_facts s) with
  | Some f => if fact_expired f now then Err "notfound" else Ok f
  | None => Err "notfound"
  end.
Proof.
  unfold st_get. rewrite snd_with_purge. unfold get_body, expire.
  destruct (alookup id (st_facts s)) as [f|]; [|reflexivity].
  destruct (fact_expired f now); reflexivity.
Qed.

Lemma st_get_pending s id now : st_pending (fst (st_get s id now)) = [].
Proof. apply with_purge_pending. Qed.

Lemma st_Rem_pending s id now : st_pending (fst (st_Rem s id now)) = [].
Proof. apply with_purge_pending. Qed.

Lemma st_search_pending s p now : st_pending (fst (st_search s p now)) = [].
Proof. apply with_purge_pending. Qed.

Lemma st_find_rules_fst s event now : fst (st_find_rules s event now) = fst (do_find_rules s event now).
Proof.
  unfold st_find_rules. destruct (do_find_rules s event now) as [s1 res].
  cbn [fst]. destruct res as [l|e|w|]; reflexivity.
Qed.

Lemma st_find_rules_pending s ev now : st_pending (fst (st_find_rules s ev now)) = [].
Proof. rewrite st_find_rules_fst. apply with_purge_pending. Qed.

(** adding and clearing never touch the list of noted ids *)
Lemma st_add_mem_idx_pending s id fact : st_pending (fst (st_add_mem_idx s id fact)) = st_pending s.
Proof.
  destruct (st_add_mem_idx s id fact) as [s' e] eqn:E.
  destruct (StateProofs.st_add_mem_idx_spec s id fact s' e E) as (s2 & Heq & Hs').
  assert (Hp : st_pending s2 = st_pending s) by apply Heq.
  cbn [fst]. destruct e; subst s'; exact Hp.
Qed.

Lemma st_add_pending s given x now fresh aux :
  st_pending (fst (st_add s given x now fresh aux)) = st_pending s.
Proof.
  unfold st_add. destruct (prepare_fact given x now fresh aux) as [[id fact]|e|w|]; try reflexivity.
  destruct (st_kind s).
  - destruct (extract_rule fact false) as [rule|e|w|]; try reflexivity.
    destruct (add_hook_err s fact) as [e|]; [reflexivity|].
    pose proof (st_add_mem_idx_pending s id fact) as H.
    destruct (st_add_mem_idx s id fact) as [s1 [e|]]; cbn [fst] in *; [exact H|].
    unfold store_call. cbv beta iota zeta.
    match goal with |- context [if ?c then _ else _] => destruct c end; exact H.
  - destruct (add_hook_err s fact); [reflexivity|].
    unfold store_call. cbv beta iota zeta.
    match goal with |- context [if ?c then _ else _] => destruct c end; reflexivity.
Qed.

Lemma st_clear_pending s : st_pending (fst (st_clear s)) = st_pending s.
Proof.
  unfold st_clear, store_call. cbv beta iota zeta.
  destruct (st_kind s); match goal with |- context [if ?c then _ else _] => destruct c end; reflexivity.
Qed.

(** a reloaded state has no id noted *)
Lemma load_idx_pending now pairs : forall s, st_pending (fst (load_idx s pairs now)) = st_pending s.
Proof.
  induction pairs as [|[id x] r IH]; intros s; cbn [load_idx]; [reflexivity|].
  destruct (prepare_fact id x now id None) as [[id' fact]|e|w|]; try reflexivity.
  - pose proof (st_add_mem_idx_pending s id' fact) as H.
    destruct (st_add_mem_idx s id' fact) as [s1 [e|]]; cbn [fst] in *; [exact H|].
    rewrite IH. exact H.
  - destruct (String.eqb e "expired"); [|reflexivity].
    unfold store_call. cbv beta iota zeta.
    match goal with |- context [if ?c then _ else _] => destruct c end; [reflexivity|].
    rewrite IH. reflexivity.
Qed.

Lemma st_load_pending k hooks store now : st_pending (fst (st_load k hooks store now)) = [].
Proof.
  unfold st_load, store_call. cbv beta iota zeta.
  match goal with |- context [if ?c then _ else _] => destruct c end; [reflexivity|].
  destruct k; [|reflexivity]. rewrite load_idx_pending. reflexivity.
Qed.

(** * Facts only shrink under reads and removals *)

Definition lsub (l' l : loc) : Prop :=
  fsub (st_facts (l_state l')) (st_facts (l_state l)) /\
  l_readonly l' = l_readonly l /\ l_max l' = l_max l.

Lemma lsub_refl l : lsub l l.
Proof. repeat split. apply fsub_refl. Qed.

Lemma lsub_trans a b c : lsub a b -> lsub b c -> lsub a c.
Proof.
  intros (H1 & H2 & H3) (G1 & G2 & G3). repeat split; try congruence.
  eapply fsub_trans; eassumption.
Qed.

Lemma lsub_upd l s : fsub (st_facts s) (st_facts (l_state l)) -> lsub (upd_state l s) l.
Proof. intros H. repeat split. exact H. Qed.

(** (the smaller location must have no purge pending: [lsub] only speaks of the facts) *)
Lemma nothing_expired_lsub l' l now :
  lsub l' l -> st_pending (l_state l') = [] -> nothing_expired l now -> nothing_expired l' now.
Proof.
  intros (H & _) Hp Hn. split; [|exact Hp]. intros id fact Hl. apply (proj1 Hn id fact).
  eapply fsub_lookup; eassumption.
Qed.

Lemma st_get_fsub s id now : fsub (st_facts (fst (st_get s id now))) (st_facts s).
Proof.
  unfold st_get. eapply fsub_trans; [apply with_purge_fsub|].
  rewrite get_body_facts. apply fsub_refl.
Qed.

Lemma st_Rem_fsub s id now : fsub (st_facts (fst (st_Rem s id now))) (st_facts s).
Proof.
  unfold st_Rem. eapply fsub_trans; [apply with_purge_fsub|].
  destruct (st_hooks s); [|apply st_rem_fsub].
  pose proof (st_get_fsub s id now) as H.
  destruct (st_get s id now) as [s1 [f|e|w|]]; cbn [fst] in *; try exact H.
  eapply fsub_trans; [apply st_rem_fsub|exact H].
Qed.

Lemma get_prop_lsub l id prop now : lsub (fst (get_prop l id prop now)) l.
Proof.
  unfold get_prop.
  pose proof (st_get_fsub (l_state l) (String.append "!" (String.append id (String.append "." prop))) now) as H.
  destruct (st_get (l_state l) _ now) as [s o]. cbn [fst] in H.
  destruct o; cbn [fst]; apply lsub_upd; exact H.
Qed.

Lemma get_prop_string_lsub l prop now : lsub (fst (get_prop_string l prop now)) l.
Proof.
  unfold get_prop_string. pose proof (get_prop_lsub l "" prop now) as H.
  destruct (get_prop l "" prop now) as [l' o]. cbn [fst] in H.
  destruct o as [[| | |s| |]|]; exact H.
Qed.

Lemma enabled_lsub l now : lsub (fst (enabled l now)) l.
Proof.
  unfold enabled. pose proof (get_prop_string_lsub l "enabled" now) as H.
  destruct (get_prop_string l "enabled" now) as [l' s]. exact H.
Qed.

Lemma check_write_lsub l c now : lsub (fst (check_write l c now)) l.
Proof.
  unfold check_write. destruct (l_readonly l); [apply lsub_refl|].
  pose proof (get_prop_string_lsub l "writeKey" now) as H.
  destruct (get_prop_string l "writeKey" now) as [l' s]. exact H.
Qed.

Lemma check_read_lsub l c now : lsub (fst (check_read l c now)) l.
Proof.
  unfold check_read.
  pose proof (get_prop_string_lsub l "readKey" now) as H.
  destruct (get_prop_string l "readKey" now) as [l' s]. exact H.
Qed.

Lemma run_gates_lsub gs : forall l c now, lsub (fst (run_gates gs l c now)) l.
Proof.
  induction gs as [|g gs IH]; intros l c now; [apply lsub_refl|].
  cbn [run_gates].
  assert (Hstep : forall (l' : loc) (pass : bool) (e : string),
             lsub l' l -> lsub (fst (if pass then run_gates gs l' c now else (l', Some e))) l).
  { intros l' pass e H. destruct pass; [|exact H]. eapply lsub_trans; [apply IH|exact H]. }
  destruct g.
  - pose proof (enabled_lsub l now) as H. destruct (enabled l now) as [l' b]. apply Hstep; exact H.
  - pose proof (check_write_lsub l c now) as H. destruct (check_write l c now) as [l' b]. apply Hstep; exact H.
  - pose proof (check_read_lsub l c now) as H. destruct (check_read l c now) as [l' b]. apply Hstep; exact H.
  - apply Hstep. apply lsub_refl.
Qed.

Lemma gated_lsub {A} gs l c now (k : loc -> loc * outcome A) :
  (forall l0, lsub (fst (k l0)) l0) -> lsub (fst (gated gs l c now k)) l.
Proof.
  intros Hk. unfold gated. pose proof (run_gates_lsub gs l c now) as H.
  destruct (run_gates gs l c now) as [l' [e|]]; cbn [fst] in *; [exact H|].
  eapply lsub_trans; [apply Hk|exact H].
Qed.

(** * Searches only note: the facts stay, and nothing changes when nothing has expired *)

Lemma st_rem_rec_fsub s id now : fsub (st_facts (fst (st_rem_rec s id now))) (st_facts s).
Proof. exact (st_rem_fsub s id now). Qed.

Lemma expire_fsub s id fact now :
  fsub (st_facts (fst (expire s id fact now))) (st_facts s).
Proof. rewrite (expire_facts now s id fact). apply fsub_refl. Qed.

Lemma expire_noexp s id fact now :
  fact_expired fact now = false -> expire s id fact now = (s, false).
Proof. apply StateProofs.expire_false. Qed.

Lemma search_ids_facts pattern now ids : forall s acc,
  st_facts (fst (search_ids s ids pattern now acc)) = st_facts s.
Proof.
  induction ids as [|id r IH]; intros s acc; cbn [search_ids]; [reflexivity|].
  destruct (alookup id (st_facts s)) as [fact|]; [|apply IH].
  pose proof (expire_facts now s id fact) as He.
  destruct (expire s id fact now) as [s1 ex]. cbn [fst] in He.
  assert (Hw : forall acc', st_facts (fst (search_ids s1 r pattern now acc')) = st_facts s).
  { intros acc'. rewrite IH. exact He. }
  destruct ex; [apply Hw|].
  destruct (core_match pattern fact []) as [[|b bss]|e|w|]; cbn [fst]; try apply Hw; exact He.
Qed.

Lemma search_state_facts s pattern now : st_facts (fst (search_state s pattern now)) = st_facts s.
Proof.
  unfold search_state. destruct (st_kind s).
  - destruct (ti_search (st_tindex s) (extract_terms pattern)); cbn [fst]; try reflexivity.
    apply search_ids_facts.
  - apply search_ids_facts.
Qed.

Lemma search_ids_fsub pattern now ids : forall s acc,
  fsub (st_facts (fst (search_ids s ids pattern now acc))) (st_facts s).
Proof. intros s acc. rewrite search_ids_facts. apply fsub_refl. Qed.

Lemma search_ids_noexp_same pattern now ids : forall s acc,
  no_expired s now -> fst (search_ids s ids pattern now acc) = s.
Proof.
  induction ids as [|id r IH]; intros s acc Hn; cbn [search_ids]; [reflexivity|].
  destruct (alookup id (st_facts s)) as [fact|] eqn:El; [|apply IH; exact Hn].
  rewrite (expire_noexp s id fact now (Hn id fact El)).
  destruct (core_match pattern fact []) as [[|b bss]|e|w|]; cbn [fst]; try (apply IH; exact Hn); reflexivity.
Qed.

Lemma search_state_noexp_same s pattern now : no_expired s now -> fst (search_state s pattern now) = s.
Proof.
  intros Hn. unfold search_state. destruct (st_kind s).
  - destruct (ti_search (st_tindex s) (extract_terms pattern)); cbn [fst]; try reflexivity.
    apply search_ids_noexp_same; exact Hn.
  - apply search_ids_noexp_same; exact Hn.
Qed.

Lemma st_search_fsub s pattern now : fsub (st_facts (fst (st_search s pattern now))) (st_facts s).
Proof.
  unfold st_search. eapply fsub_trans; [apply with_purge_fsub|].
  rewrite search_state_facts. apply fsub_refl.
Qed.

Lemma st_search_noexp s pattern now :
  no_expired s now -> st_pending s = [] -> fst (st_search s pattern now) = s.
Proof.
  intros Hn Hp. unfold st_search.
  pose proof (search_state_noexp_same s pattern now Hn) as H.
  destruct (search_state s pattern now) as [s1 o]. cbn [fst] in H. subst s1.
  rewrite (StateProofs.with_purge_nil s o now Hp). reflexivity.
Qed.

Lemma find_ids_idx_facts now ids : forall s acc,
  st_facts (fst (find_ids_idx s ids now acc)) = st_facts s.
Proof.
  induction ids as [|id r IH]; intros s acc; cbn [find_ids_idx]; [reflexivity|].
  destruct (alookup id (st_facts s)) as [fact|]; [|reflexivity].
  pose proof (expire_facts now s id fact) as He.
  destruct (expire s id fact now) as [s1 ex]. cbn [fst] in He.
  assert (Hw : forall acc', st_facts (fst (find_ids_idx s1 r now acc')) = st_facts s).
  { intros acc'. rewrite IH. exact He. }
  destruct ex; [apply Hw|].
  destruct (extract_rule fact true) as [[body|]|e|w|]; cbn [fst]; try apply Hw; exact He.
Qed.

Lemma find_ids_idx_fsub now ids : forall s acc,
  fsub (st_facts (fst (find_ids_idx s ids now acc))) (st_facts s).
Proof. intros s acc. rewrite find_ids_idx_facts. apply fsub_refl. Qed.

Lemma find_ids_idx_noexp now ids : forall s acc,
  no_expired s now -> fst (find_ids_idx s ids now acc) = s.
Proof.
  induction ids as [|id r IH]; intros s acc Hn; cbn [find_ids_idx]; [reflexivity|].
  destruct (alookup id (st_facts s)) as [fact|] eqn:El; [|reflexivity].
  rewrite (expire_noexp s id fact now (Hn id fact El)).
  destruct (extract_rule fact true) as [[body|]|e|w|]; cbn [fst]; try (apply IH; exact Hn); reflexivity.
Qed.

Lemma find_ids_lin_facts event now ids : forall s acc,
  st_facts (fst (find_ids_lin s ids event now acc)) = st_facts s.
Proof.
  induction ids as [|id r IH]; intros s acc; cbn [find_ids_lin]; [reflexivity|].
  destruct (alookup id (st_facts s)) as [fact|]; [|apply IH].
  destruct (jget "rule" fact) as [rule|]; [|apply IH].
  pose proof (expire_facts now s id fact) as He.
  destruct (expire s id fact now) as [s1 ex]. cbn [fst] in He.
  assert (Hw : forall acc', st_facts (fst (find_ids_lin s1 r event now acc')) = st_facts s).
  { intros acc'. rewrite IH. exact He. }
  destruct ex; [apply Hw|].
  destruct rule as [| | | | |rm]; try apply Hw.
  destruct (alookup "when" rm) as [[| | | | |w]|]; try apply Hw.
  destruct (core_match _ event []) as [[|b bss]|e|w'|]; cbn [fst]; try apply Hw; exact He.
Qed.

Lemma find_ids_lin_fsub event now ids : forall s acc,
  fsub (st_facts (fst (find_ids_lin s ids event now acc))) (st_facts s).
Proof. intros s acc. rewrite find_ids_lin_facts. apply fsub_refl. Qed.

Lemma find_ids_lin_noexp event now ids : forall s acc,
  no_expired s now -> fst (find_ids_lin s ids event now acc) = s.
Proof.
  induction ids as [|id r IH]; intros s acc Hn; cbn [find_ids_lin]; [reflexivity|].
  destruct (alookup id (st_facts s)) as [fact|] eqn:El; [|apply IH; exact Hn].
  destruct (jget "rule" fact) as [rule|]; [|apply IH; exact Hn].
  rewrite (expire_noexp s id fact now (Hn id fact El)).
  destruct rule as [| | | | |rm]; try (apply IH; exact Hn).
  destruct (alookup "when" rm) as [[| | | | |w]|]; try (apply IH; exact Hn).
  destruct (core_match _ event []) as [[|b bss]|e|w'|]; cbn [fst]; try (apply IH; exact Hn); reflexivity.
Qed.

Lemma do_find_rules_fsub s event now : fsub (st_facts (fst (do_find_rules s event now))) (st_facts s).
Proof.
  unfold do_find_rules. eapply fsub_trans; [apply with_purge_fsub|]. destruct (st_kind s).
  - destruct (pi_search (st_pindex s) event); cbn [fst]; try apply fsub_refl. apply find_ids_idx_fsub.
  - apply find_ids_lin_fsub.
Qed.

Lemma do_find_rules_noexp s event now :
  no_expired s now -> st_pending s = [] -> fst (do_find_rules s event now) = s.
Proof.
  intros Hn Hp. unfold do_find_rules.
  match goal with |- fst (with_purge ?X now) = s => set (r := X) end.
  assert (H : fst r = s).
  { subst r. destruct (st_kind s).
    - destruct (pi_search (st_pindex s) event); cbn [fst]; try reflexivity. apply find_ids_idx_noexp; exact Hn.
    - apply find_ids_lin_noexp; exact Hn. }
  clearbody r. destruct r as [s1 o]. cbn [fst] in H. subst s1.
  rewrite (StateProofs.with_purge_nil s o now Hp). reflexivity.
Qed.

Lemma st_find_rules_fsub s event now : fsub (st_facts (fst (st_find_rules s event now))) (st_facts s).
Proof. rewrite st_find_rules_fst. apply do_find_rules_fsub. Qed.

Lemma st_find_rules_noexp s event now :
  no_expired s now -> st_pending s = [] -> fst (st_find_rules s event now) = s.
Proof. intros Hn Hp. rewrite st_find_rules_fst. apply do_find_rules_noexp; assumption. Qed.

(** * Location-level reads *)

Lemma lift_lsub {A B} l (r : state * outcome A) (f : A -> B) :
  fsub (st_facts (fst r)) (st_facts (l_state l)) -> lsub (fst (lift l r f)) l.
Proof. intros H. unfold lift. cbn [fst]. apply lsub_upd. exact H. Qed.

Lemma loc_search_local_lsub l c e p : lsub (fst (loc_search_local l c e p)) l.
Proof.
  unfold loc_search_local. apply gated_lsub. intros l0. apply lift_lsub. apply st_search_fsub.
Qed.

Lemma loc_rules_local_lsub l c e ev : lsub (fst (loc_rules_local l c e ev)) l.
Proof.
  unfold loc_rules_local. apply gated_lsub. intros l0. apply lift_lsub. apply st_find_rules_fsub.
Qed.

Lemma gated_noexp {A} gs l c now (k : loc -> loc * outcome A) :
  nothing_expired l now -> fst (k l) = l -> fst (gated gs l c now k) = l.
Proof.
  intros Hn Hk. unfold gated. pose proof (run_gates_noexp gs l c now Hn) as H.
  destruct (run_gates gs l c now) as [l' [e|]]; cbn [fst] in *; subst l'; [reflexivity|exact Hk].
Qed.

Lemma loc_search_local_noexp l c e p :
  nothing_expired l (e_now e) -> fst (loc_search_local l c e p) = l.
Proof.
  intros Hn. unfold loc_search_local. apply gated_noexp; [exact Hn|].
  unfold lift. cbn [fst]. rewrite (st_search_noexp _ _ _ (proj1 Hn) (proj2 Hn)). apply upd_state_same.
Qed.

Lemma loc_rules_local_noexp l c e ev :
  nothing_expired l (e_now e) -> fst (loc_rules_local l c e ev) = l.
Proof.
  intros Hn. unfold loc_rules_local. apply gated_noexp; [exact Hn|].
  unfold lift. cbn [fst]. rewrite (st_find_rules_noexp _ _ _ (proj1 Hn) (proj2 Hn)). apply upd_state_same.
Qed.

Lemma get_parents_lsub l now : lsub (fst (get_parents l now)) l.
Proof.
  unfold get_parents. pose proof (get_prop_lsub l "" "parents" now) as H.
  destruct (get_prop l "" "parents" now) as [l' [[| | | |xs|]|]]; exact H.
Qed.

Lemma get_parents_noexp l now : nothing_expired l now -> fst (get_parents l now) = l.
Proof.
  intros Hn. unfold get_parents. pose proof (get_prop_noexp l "" "parents" now Hn) as H.
  destruct (get_prop l "" "parents" now) as [l' [[| | | |xs|]|]]; exact H.
Qed.

Lemma enabled_noexp l now : nothing_expired l now -> fst (enabled l now) = l.
Proof.
  intros Hn. unfold enabled. pose proof (get_prop_string_noexp l "enabled" now Hn) as H.
  destruct (get_prop_string l "enabled" now) as [l' s]. exact H.
Qed.

Lemma rule_enabled_lsub l id now : lsub (fst (rule_enabled l id now)) l.
Proof.
  unfold rule_enabled. pose proof (enabled_lsub l now) as H.
  destruct (enabled l now) as [l1 en]. cbn [fst] in H.
  destruct (negb en); [exact H|].
  pose proof (get_prop_lsub l1 id "disabled" now) as H2.
  destruct (get_prop l1 id "disabled" now) as [l2 o]. cbn [fst] in H2.
  assert (lsub l2 l) by (eapply lsub_trans; eassumption).
  destruct o as [[| b| | | |]|]; assumption.
Qed.

Lemma rule_enabled_noexp l id now : nothing_expired l now -> fst (rule_enabled l id now) = l.
Proof.
  intros Hn. unfold rule_enabled. pose proof (enabled_noexp l now Hn) as H.
  destruct (enabled l now) as [l1 en]. cbn [fst] in H. subst l1.
  destruct (negb en); [reflexivity|].
  pose proof (get_prop_noexp l id "disabled" now Hn) as H2.
  destruct (get_prop l id "disabled" now) as [l2 o]. cbn [fst] in H2. subst l2.
  destruct o as [[| b| | | |]|]; reflexivity.
Qed.

(** * A successful removal really removes the id *)

Lemma dd_fsub_suff now s id n :
  (length (st_facts s) <= n)%nat ->
  fsub (st_facts (fst (delete_dependencies (rem_fuel (2 * n + 3)) s id now))) (st_facts s).
Proof.
  intros Hlen.
  apply (delete_dependencies_gen (rem_fuel (2 * n + 3)) (rem_fuel (2 * n + 3)) now (st_facts s)); [|reflexivity].
  intros s' j Hs' _. apply okcall_of_Good; [lia|].
  apply (T_all_holds now n); [|lia].
  pose proof (fsub_length _ _ Hs'). lia.
Qed.

Lemma st_rem_gone s id now b :
  snd (st_rem s id now) = Ok b -> alookup id (st_facts (fst (st_rem s id now))) = None.
Proof.
  unfold st_rem, cascade_fuel.
  set (n := length (st_facts s)).
  replace (2 * n + 4)%nat with (S (2 * n + 3)) by lia.
  cbn [rem_fuel]. unfold rem_body.
  assert (Hwrap : forall (s5 : state) (b0 : bool),
            st_facts s5 = aremove id (st_facts s) ->
            let r := match delete_dependencies (rem_fuel (2 * n + 3)) s5 id now with
                     | (s6, Ok _) => (s6, Ok b0)
                     | (s6, Err e) => (s6, Err e)
                     | (s6, Panic w) => (s6, Panic w)
                     | (s6, OutOfFuel) => (s6, OutOfFuel)
                     end in
            alookup id (st_facts (fst r)) = None).
  { intros s5 b0 Hf5.
    assert (Hlen : (length (st_facts s5) <= n)%nat).
    { rewrite Hf5. apply fsub_length. apply fsub_aremove. }
    pose proof (dd_fsub_suff now s5 id n Hlen) as Hd.
    destruct (delete_dependencies (rem_fuel (2 * n + 3)) s5 id now) as [s6 o]. cbn [fst] in Hd.
    assert (Hn : alookup id (st_facts s6) = None).
    { eapply fsub_lookup_None; [exact Hd|]. rewrite Hf5. apply AssocLemmas.alookup_aremove_same. }
    destruct o; exact Hn. }
  destruct (st_kind s) eqn:Hk.
  - destruct (alookup id (st_facts s)) as [fact|] eqn:Hp.
    + set (s1 := match extract_rule fact false with Ok (Some rule) => unindex_rule s id rule | _ => s end).
      assert (Hf1 : st_facts s1 = st_facts s).
      { unfold s1. destruct (extract_rule fact false) as [[r|]| | |]; auto. apply facts_unindex_rule. }
      cbv zeta. unfold store_call.
      match goal with |- context [if ?c then _ else _] => destruct c end.
      * cbn [snd]. discriminate.
      * intros _. apply Hwrap. cbn [st_facts set_store set_tindex set_facts]. rewrite Hf1. reflexivity.
    + intros _.
      assert (Hlen : (length (st_facts s) <= n)%nat) by (unfold n; lia).
      pose proof (dd_fsub_suff now s id n Hlen) as Hd.
      destruct (delete_dependencies (rem_fuel (2 * n + 3)) s id now) as [s6 o]. cbn [fst] in Hd.
      assert (Hn : alookup id (st_facts s6) = None) by (eapply fsub_lookup_None; eassumption).
      destruct o; exact Hn.
  - unfold store_call.
    match goal with |- context [if ?c then _ else _] => destruct c end.
    + cbn [snd]. discriminate.
    + intros _. cbv zeta. apply Hwrap. reflexivity.
Qed.

Lemma st_Rem_gone s id now b :
  snd (st_Rem s id now) = Ok b -> alookup id (st_facts (fst (st_Rem s id now))) = None.
Proof.
  unfold st_Rem. rewrite snd_with_purge. intros H.
  eapply fsub_lookup_None; [apply with_purge_fsub|]. revert H.
  destruct (st_hooks s); [|apply st_rem_gone].
  destruct (st_get s id now) as [s1 [f|e|w|]]; cbn [snd]; try discriminate.
  apply st_rem_gone.
Qed.
