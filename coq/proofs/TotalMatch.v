(** C13 support, part 1: the matcher is total on ground data.

    Measure.  Let B bound the size of the data and of every bound value.  A
    call [jmatch fuel p d bs] needs at most

        need B p = jsize p + (if ground p then 0 else B) + 1

    levels of fuel: the recursion goes down the pattern (each level costs one),
    and re-enters once per variable occurrence with the BOUND VALUE as the
    pattern; a bound value is ground (it is a sub-value of the ground data or
    one of the ground initial bindings), so that re-entry is structural on a
    value of size <= B and never re-enters again. *)
From Coq Require Import Lia.
From Verif Require Import Json Outcome Match MatchSpec MatchLemmas1 MatchLemmas2 MatchLemmas4 CascadeLemmas1 TotalSpec.

(** * Outcomes *)

Definition okr {A} (P : A -> Prop) (o : outcome A) : Prop :=
  match o with Ok a => P a | Err _ => True | Panic _ => False | OutOfFuel => False end.

Lemma okr_bind {A B} (P : A -> Prop) (Q : B -> Prop) (o : outcome A) (f : A -> outcome B) :
  okr P o -> (forall a, P a -> okr Q (f a)) -> okr Q (obind o f).
Proof. destruct o as [a|e|w|]; cbn; auto; intros []. Qed.

Lemma okr_imp {A} (P Q : A -> Prop) (o : outcome A) :
  (forall a, P a -> Q a) -> okr P o -> okr Q o.
Proof. destruct o; cbn; auto. Qed.

Lemma okr_answers {A} (P : A -> Prop) (o : outcome A) : okr P o -> answers o.
Proof. destruct o; cbn; intros H; try contradiction; split; intros; discriminate. Qed.

Lemma okr_obad {A} (P : A -> Prop) (o : outcome A) : okr P o -> obad o = false.
Proof. destruct o; cbn; intros H; try contradiction; reflexivity. Qed.

Lemma obad_answers {A} (o : outcome A) : obad o = false <-> answers o.
Proof.
  split.
  - destruct o; cbn; intros H; try discriminate; split; intros; discriminate.
  - intros [H1 H2]. destruct o; cbn; auto; [exfalso; eapply H2; reflexivity|congruence].
Qed.

(** * The measure *)

Definition need (B : nat) (p : json) : nat :=
  (jsize p + (if ground p then 0 else B) + 1)%nat.

Lemma need_arr_In B x l : In x l -> (need B x < need B (JArr l))%nat.
Proof.
  intros Hin. unfold need. pose proof (jsize_arr_In x l Hin) as Hs.
  destruct (ground (JArr l)) eqn:Eg.
  - rewrite (ground_arr_In l x Eg Hin). lia.
  - destruct (ground x); lia.
Qed.

Lemma need_obj_In B kv l : In kv l -> (need B (snd kv) + 1 < need B (JObj l))%nat.
Proof.
  intros Hin. unfold need. pose proof (jsize_obj_In kv l Hin) as Hs.
  destruct (ground (JObj l)) eqn:Eg.
  - destruct (ground_obj_In l kv Eg Hin) as [_ ->]. lia.
  - destruct (ground (snd kv)); lia.
Qed.

Lemma ground_obj_varkey kv l : In kv l -> is_var (fst kv) = true -> ground (JObj l) = false.
Proof.
  intros Hin Hv. destruct (ground (JObj l)) eqn:Eg; auto.
  destruct (ground_obj_In l kv Eg Hin) as [H _]. congruence.
Qed.

Lemma need_obj_key B kv l : In kv l -> is_var (fst kv) = true -> (B + 3 < need B (JObj l))%nat.
Proof.
  intros Hin Hv. unfold need. rewrite (ground_obj_varkey kv l Hin Hv).
  pose proof (jsize_obj_In kv l Hin). pose proof (jsize_pos (snd kv)). lia.
Qed.

Lemma need_var B s : is_var s = true -> need B (JStr s) = (B + 2)%nat.
Proof. intros H. unfold need. cbn [ground jsize]. rewrite H. cbn [negb]. lia. Qed.

Lemma need_ground B p : ground p = true -> need B p = (jsize p + 1)%nat.
Proof. intros H. unfold need. rewrite H. lia. Qed.

(** * get_variable, split_array *)

Lemma get_variable_out : forall xs v acc v' ys,
  get_variable xs v acc = Ok (v', ys) ->
  (v' = v \/ (In (JStr v') xs /\ is_var v' = true)) /\
  (forall y, In y ys -> In y xs \/ In y acc).
Proof.
  induction xs as [|x r IH]; intros v acc v' ys H.
  - cbn [get_variable] in H. inversion H; subst. split; [left; reflexivity|].
    intros y Hy. right. apply in_rev. exact Hy.
  - assert (Hgen : forall acc', get_variable r v acc' = Ok (v', ys) ->
               (forall y, In y acc' -> y = x \/ In y acc) ->
               (v' = v \/ In (JStr v') (x :: r) /\ is_var v' = true) /\
               (forall y, In y ys -> In y (x :: r) \/ In y acc)).
    { intros acc' H' Hacc. destruct (IH v acc' v' ys H') as [H1 H2]. split.
      - destruct H1 as [H1|[H1 H1']]; [left; exact H1|right; split; [right; exact H1|exact H1']].
      - intros y Hy. destruct (H2 y Hy) as [Hy'|Hy']; [left; right; exact Hy'|].
        destruct (Hacc y Hy') as [->|Hy'']; [left; left; reflexivity|right; exact Hy'']. }
    destruct x as [| | |s| |]; cbn [get_variable] in H;
      try (apply (Hgen _ H); intros y [<-|Hy]; [left; reflexivity|right; exact Hy]).
    destruct (is_var s) eqn:Es.
    + destruct (String.eqb v "") eqn:Ev.
      * destruct (IH s acc v' ys H) as [H1 H2]. split.
        -- destruct H1 as [->|[H1 H1']]; right; split; auto; [left; reflexivity|right; exact H1].
        -- intros y Hy. destruct (H2 y Hy) as [Hy'|Hy']; [left; right; exact Hy'|right; exact Hy'].
      * destruct (String.eqb v s); discriminate.
    + apply (Hgen _ H). intros y [<-|Hy]; [left; reflexivity|right; exact Hy].
Qed.

Lemma split_array_snd_In : forall l i fxs fxa e,
  In e (snd (split_array i l fxs fxa)) -> In e fxa \/ In (snd e) l.
Proof.
  induction l as [|a l IH]; intros i fxs fxa e; cbn [split_array].
  - cbn [snd]. intros H. left. apply in_rev. exact H.
  - destruct (is_scalar a).
    + intros H. destruct (IH _ _ _ _ H) as [H'|H']; [left; exact H'|right; right; exact H'].
    + intros H. destruct (IH _ _ _ _ H) as [[<-|H']|H'].
      * right. left. reflexivity.
      * left. exact H'.
      * right. right. exact H'.
Qed.

(** * The body of the matcher, for an abstract recursive call *)

Section Body.
  Variable rec : json -> json -> bindings -> outcome (list bindings).
  Variable B : nat.
  Variable f : nat.
  Hypothesis HB : (1 <= B)%nat.

  (** data: ground and small; bindings: ground values, all small *)
  Definition Qd (d : json) : Prop := ground d = true /\ (jsize d <= B)%nat.
  Definition Pb (bs : bindings) : Prop :=
    Forall (fun kv => ground (snd kv) = true /\ (jsize (snd kv) <= B)%nat) bs.

  Hypothesis Hrec : forall p d bs, Qd d -> Pb bs -> (need B p <= f)%nat ->
    okr (Forall Pb) (rec p d bs).

  Lemma Qd_arr_In l y : Qd (JArr l) -> In y l -> Qd y.
  Proof.
    intros [Hg Hs] Hin. split; [eapply ground_arr_In; eauto|].
    pose proof (jsize_arr_In y l Hin). lia.
  Qed.

  Lemma Qd_obj_In dk e : Qd (JObj dk) -> In e dk -> is_var (fst e) = false /\ Qd (snd e).
  Proof.
    intros [Hg Hs] Hin. destruct (ground_obj_In dk e Hg Hin) as [H1 H2].
    split; [exact H1|]. split; [exact H2|]. pose proof (jsize_obj_In e dk Hin). lia.
  Qed.

  Lemma Qd_key k : is_var k = false -> Qd (JStr k).
  Proof. intros H. split; [cbn [ground]; rewrite H; reflexivity|cbn [jsize]; exact HB]. Qed.

  Lemma Qd_scalar d : is_scalar d = true -> ground d = true -> Qd d.
  Proof. intros Hs Hg. split; [exact Hg|]. destruct d; try discriminate; cbn [jsize]; exact HB. Qed.

  Lemma Pb_lookup bs s v : Pb bs -> alookup s bs = Some v -> ground v = true /\ (jsize v <= B)%nat.
  Proof.
    intros Hp Hl. apply alookup_In in Hl. unfold Pb in Hp. rewrite Forall_forall in Hp.
    exact (Hp (s, v) Hl).
  Qed.

  Lemma Pb_bind s d bs : Qd d -> Pb bs -> Pb (bind s d bs).
  Proof.
    intros Hd Hp. unfold bind. induction bs as [|[k v] r IH]; cbn [ainsert].
    - constructor; [exact Hd|constructor].
    - inversion Hp as [|? ? Hkv Hr]; subst.
      destruct (String.compare s k).
      + constructor; [exact Hd|exact Hr].
      + constructor; [exact Hd|exact Hp].
      + constructor; [exact Hkv|apply IH; exact Hr].
  Qed.

  Lemma match_all_ok p d : Qd d -> (need B p <= f)%nat ->
    forall bss, Forall Pb bss -> okr (Forall Pb) (match_all rec bss p d).
  Proof.
    intros Hd Hn. induction bss as [|bs r IH]; intros Hb; cbn [match_all]; [constructor|].
    inversion Hb as [|? ? Hbs Hr]; subst.
    eapply okr_bind; [apply Hrec; eauto|]. intros m Hm.
    eapply okr_bind; [apply IH; exact Hr|]. intros rest Hrest.
    cbn [okr]. apply Forall_app. split; assumption.
  Qed.

  Lemma propvar_ok k pv : (B + 2 <= f)%nat -> (need B pv <= f)%nat ->
    forall dk bss, Forall (fun e => is_var (fst e) = false /\ Qd (snd e)) dk -> Forall Pb bss ->
      okr (Forall Pb) (propvar_match rec bss k pv dk).
  Proof.
    intros Hk Hpv. induction dk as [|[fk fv] r IH]; intros bss Hdk Hb; cbn [propvar_match]; [constructor|].
    inversion Hdk as [|? ? [Hfk Hfv] Hr]; subst. cbn [fst snd] in *.
    eapply okr_bind.
    { apply match_all_ok; [apply Qd_key; exact Hfk| |exact Hb].
      unfold need. cbn [jsize]. destruct (ground (JStr k)); lia. }
    intros ext Hext.
    eapply okr_bind.
    { instantiate (1 := Forall Pb). destruct ext; [constructor|].
      apply match_all_ok; [exact Hfv|exact Hpv|exact Hext]. }
    intros ext2 Hext2.
    eapply okr_bind; [apply IH; assumption|]. intros rest Hrest.
    cbn [okr]. apply Forall_app. split; assumption.
  Qed.

  Lemma mapcat_ok single dk : Qd (JObj dk) ->
    forall pk bss,
      Forall (fun kv => (need B (snd kv) <= f)%nat /\ (is_var (fst kv) = true -> (B + 2 <= f)%nat)) pk ->
      Forall Pb bss -> okr (Forall Pb) (mapcat rec bss single pk dk).
  Proof.
    intros Hd. induction pk as [|[k pv] r IH]; intros bss Hpk Hb; cbn [mapcat]; [exact Hb|].
    inversion Hpk as [|? ? [Hpv Hk] Hr]; subst. cbn [fst snd] in *.
    destruct (is_var k) eqn:Ek.
    - destruct single; [|exact I].
      apply propvar_ok; auto. apply Forall_forall. intros e He. exact (Qd_obj_In dk e Hd He).
    - destruct (alookup k dk) as [fv|] eqn:El.
      + eapply okr_bind.
        { apply match_all_ok; [|exact Hpv|exact Hb].
          apply alookup_In in El. apply (Qd_obj_In dk (k, fv) Hd El). }
        intros acc Hacc. destruct acc; [constructor|]. apply IH; assumption.
      + destruct pv; try constructor. destruct (is_optvar s); [apply IH; assumption|constructor].
  Qed.

  (** alternatives of the array loop *)
  Definition AltOK (a : list bindings * list (nat * json)) : Prop :=
    Forall Pb (fst a) /\ Forall (fun e => Qd (snd e)) (snd a).

  Lemma arraycat_one_ok bss p all : (need B p <= f)%nat -> Forall Pb bss ->
    Forall (fun e => Qd (snd e)) all ->
    forall todo pos, Forall (fun e => Qd (snd e)) todo ->
      okr (Forall AltOK) (arraycat_one rec bss p all todo pos).
  Proof.
    intros Hn Hb Hall. induction todo as [|[j fact] r IH]; intros pos Htodo; cbn [arraycat_one]; [constructor|].
    inversion Htodo as [|? ? Hfact Hr]; subst. cbn [snd] in Hfact.
    eapply okr_bind; [apply match_all_ok; eauto|]. intros acc Hacc.
    eapply okr_bind; [apply IH; exact Hr|]. intros rest Hrest.
    cbn [okr]. destruct acc; [exact Hrest|]. constructor; [|exact Hrest].
    split; cbn [fst snd]; [exact Hacc|].
    apply Forall_forall. intros e He. apply remove_nth_incl in He.
    rewrite Forall_forall in Hall. apply Hall. exact He.
  Qed.

  Lemma arraycat_ok p : (need B p <= f)%nat ->
    forall alts, Forall AltOK alts -> okr (Forall AltOK) (arraycat rec alts p).
  Proof.
    intros Hn. induction alts as [|[bss rem] r IH]; intros Ha; cbn [arraycat]; [constructor|].
    inversion Ha as [|? ? [Hb Hrem] Hr]; subst. cbn [fst snd] in *.
    eapply okr_bind; [apply arraycat_one_ok; auto|]. intros a Haa.
    eapply okr_bind; [apply IH; exact Hr|]. intros rest Hrest.
    cbn [okr]. apply Forall_app. split; assumption.
  Qed.

  Definition ElemsOK (r : option (list json * list (list bindings * list (nat * json)))) : Prop :=
    match r with
    | None => True
    | Some (lefto, alts) => Forall Qd lefto /\ Forall AltOK alts
    end.

  Lemma Forall_remove_first (P : json -> Prop) x l : Forall P l -> Forall P (remove_first_json x l).
  Proof.
    intros H. apply Forall_forall. intros y Hy. apply remove_first_incl in Hy.
    rewrite Forall_forall in H. auto.
  Qed.

  Lemma array_elems_ok e : forall xs fxs alts,
    Forall (fun x => (need B x <= f)%nat) xs -> Forall Qd fxs -> Forall AltOK alts ->
    okr ElemsOK (array_elems rec xs fxs e alts).
  Proof.
    induction xs as [|x r IH]; intros fxs alts Hxs Hfxs Halts; cbn [array_elems].
    - cbn. split; assumption.
    - inversion Hxs as [|? ? Hx Hr]; subst.
      destruct (is_scalar x).
      + destruct (mem_json x fxs); [|exact I].
        apply IH; auto. apply Forall_remove_first. exact Hfxs.
      + destruct e; [exact I|].
        eapply okr_bind; [apply arraycat_ok; eauto|]. intros alts' Ha'.
        destruct alts'; [exact I|]. apply IH; auto.
  Qed.

  Lemma Forall_combine_extra n l : Forall Qd l -> Forall (fun e : nat * json => Qd (snd e)) (combine_extra n l).
  Proof.
    unfold combine_extra. revert n. induction l as [|y l IH]; intros n H; cbn [length seq List.combine]; [constructor|].
    inversion H; subst. constructor; [assumption|apply IH; assumption].
  Qed.

  Lemma combine_ok alts : Forall AltOK alts -> Forall Pb (combine alts).
  Proof.
    unfold combine. induction alts as [|a r IH]; intros H; cbn [map concat]; [constructor|].
    inversion H as [|? ? [Ha _] Hr]; subst. apply Forall_app. split; auto.
  Qed.

  Lemma inequal_ok d bs s r : Qd d -> Pb bs -> inequal d bs s = Some r -> Forall Pb r.
  Proof.
    intros Hd Hp. unfold inequal.
    destruct (alookup s bs) as [[| |b| | |]|]; try discriminate.
    destruct d as [| |a| | |]; try discriminate.
    destruct (String.length s <=? 2)%nat; [discriminate|].
    destruct (find_ineq ineq_ops _) as [[op vv]|]; [|discriminate].
    destruct (negb (ineq_sat op a b)); [intros H; inversion H; constructor|].
    destruct (alookup vv bs) as [[| |c| | |]|]; try discriminate.
    - destruct (c =? a); intros H; inversion H; repeat constructor; exact Hp.
    - intros H; inversion H. constructor; [|constructor]. apply Pb_bind; assumption.
  Qed.

  Theorem match_body_ok p d bs :
    Qd d -> Pb bs -> (need B p <= S f)%nat -> okr (Forall Pb) (match_body rec p d bs).
  Proof.
    intros Hd Hp Hn. destruct p as [|x|x|s|pl|pk]; cbn [match_body].
    - cbn. destruct d; repeat constructor; exact Hp.
    - cbn. destruct d; repeat constructor. destruct (Bool.eqb x b); repeat constructor; exact Hp.
    - cbn. destruct d; repeat constructor. destruct (x =? z); repeat constructor; exact Hp.
    - destruct (is_var s) eqn:Es; cbn [negb].
      + destruct (is_anon s); [cbn; repeat constructor; exact Hp|].
        destruct (inequal d bs s) as [r|] eqn:Ei; [cbn; eapply inequal_ok; eauto|].
        destruct (alookup s bs) as [binding|] eqn:El.
        * destruct (Pb_lookup bs s binding Hp El) as [Hg Hs].
          apply Hrec; auto. rewrite need_ground by exact Hg.
          rewrite need_var in Hn by exact Es. lia.
        * cbn. constructor; [|constructor]. apply Pb_bind; assumption.
      + cbn. destruct d; repeat constructor. destruct (String.eqb s s0); repeat constructor; exact Hp.
    - destruct (get_variable pl "" []) as [[v xs]|e|w|] eqn:Eg; cbn [obind];
        [|exact I| |].
      2:{ (* get_variable never panics *)
          exfalso. clear -Eg. revert Eg. generalize (@nil json). generalize "".
          induction pl as [|x r IH]; intros v acc; cbn [get_variable]; [discriminate|].
          destruct x; try apply IH. destruct (is_var s); [|apply IH].
          destruct (String.eqb v ""); [apply IH|]. destruct (String.eqb v s); discriminate. }
      2:{ exfalso. clear -Eg. revert Eg. generalize (@nil json). generalize "".
          induction pl as [|x r IH]; intros v acc; cbn [get_variable]; [discriminate|].
          destruct x; try apply IH. destruct (is_var s); [|apply IH].
          destruct (String.eqb v ""); [apply IH|]. destruct (String.eqb v s); discriminate. }
      destruct (get_variable_out pl "" [] v xs Eg) as [Hv Hxs].
      destruct d as [| | | |dl|]; try (cbn; constructor).
      destruct (split_array 0 dl [] []) as [fxs fxa] eqn:Esp.
      assert (Hfxs : Forall Qd fxs).
      { apply Forall_forall. intros y Hy.
        assert (H : In y (fst (split_array 0 dl [] []))) by (rewrite Esp; exact Hy).
        apply split_array_In in H. destruct H as [[]|[H1 H2]].
        apply Qd_scalar; [exact H2|]. eapply ground_arr_In; [apply Hd|exact H1]. }
      assert (Hfxa : Forall (fun e : nat * json => Qd (snd e)) fxa).
      { apply Forall_forall. intros e He.
        assert (H : In e (snd (split_array 0 dl [] []))) by (rewrite Esp; exact He).
        apply split_array_snd_In in H. destruct H as [[]|H].
        eapply Qd_arr_In; eauto. }
      assert (Hneed : Forall (fun x => (need B x <= f)%nat) xs).
      { apply Forall_forall. intros x Hx. destruct (Hxs x Hx) as [H|[]].
        pose proof (need_arr_In B x pl H). lia. }
      eapply okr_bind.
      { apply array_elems_ok; [exact Hneed|exact Hfxs|].
        constructor; [|constructor]. split; cbn [fst snd]; [constructor; [exact Hp|constructor]|exact Hfxa]. }
      intros r Hr. destruct r as [[lefto alts]|]; [|cbn; constructor].
      destruct Hr as [Hlefto Halts].
      set (alts1 := map (fun a => (fst a, (snd a ++ combine_extra (length dl) lefto)%list)) alts).
      assert (Halts1 : Forall AltOK alts1).
      { unfold alts1. apply Forall_forall. intros a Ha. apply in_map_iff in Ha.
        destruct Ha as [a0 [<- Ha0]]. rewrite Forall_forall in Halts. destruct (Halts a0 Ha0) as [H1 H2].
        split; cbn [fst snd]; [exact H1|]. apply Forall_app. split; [exact H2|].
        apply Forall_combine_extra. exact Hlefto. }
      destruct (String.eqb v "") eqn:Ev; [cbn [okr]; apply combine_ok; exact Halts1|].
      destruct Hv as [->|[Hin Hvar]]; [rewrite String.eqb_refl in Ev; discriminate|].
      eapply okr_bind.
      { apply arraycat_ok; [|exact Halts1].
        pose proof (need_arr_In B (JStr v) pl Hin). lia. }
      intros alts2 Halts2. destruct alts2.
      + destruct (is_optvar v); cbn [okr]; [apply combine_ok; exact Halts1|constructor].
      + cbn [okr]. apply combine_ok. exact Halts2.
    - destruct d as [| | | | |dk]; try (cbn; constructor).
      destruct pk as [|kv0 pk0] eqn:Epk; [cbn; repeat constructor; exact Hp|]. rewrite <- Epk in *.
      destruct ((1 <? length pk)%nat && any_var_key pk); [exact I|].
      apply mapcat_ok; [exact Hd| |constructor; [exact Hp|constructor]].
      apply Forall_forall. intros kv Hkv. split.
      + pose proof (need_obj_In B kv pk Hkv). lia.
      + intros Hvar. pose proof (need_obj_key B kv pk Hkv Hvar). lia.
  Qed.
End Body.

(** * The matcher *)

Theorem jmatch_total_gen B : (1 <= B)%nat -> forall fuel p d bs,
  Qd B d -> Pb B bs -> (need B p <= fuel)%nat -> okr (Forall (Pb B)) (jmatch fuel p d bs).
Proof.
  intros HB. induction fuel as [|f IH]; intros p d bs Hd Hp Hn.
  - unfold need in Hn. lia.
  - cbn [jmatch]. apply (match_body_ok (jmatch f) B f HB); auto.
Qed.

(** every bound value counts in [bsize] *)
Lemma bsize_In k v bs : In (k, v) bs -> (jsize v < bsize bs)%nat.
Proof.
  induction bs as [|[k' v'] r IH]; cbn [In bsize fold_right snd]; [intros []|].
  intros [H|H]; [inversion H; subst; lia|]. specialize (IH H). unfold bsize in IH. lia.
Qed.

Lemma Pb_of_ground bs B : ground_bs bs = true -> (bsize bs <= B)%nat -> Pb B bs.
Proof.
  intros Hg Hs. apply Forall_forall. intros [k v] Hin. cbn [snd].
  unfold ground_bs in Hg. rewrite forallb_forall in Hg. split; [exact (Hg (k, v) Hin)|].
  pose proof (bsize_In k v bs Hin). lia.
Qed.

Lemma Pb_ground B bs : Pb B bs -> ground_bs bs = true.
Proof.
  intros H. unfold ground_bs. apply forallb_forall. intros kv Hin.
  unfold Pb in H. rewrite Forall_forall in H. apply (H kv Hin).
Qed.

Lemma core_match_okr p d bs : ground d = true -> ground_bs bs = true ->
  okr (Forall (fun b => ground_bs b = true)) (core_match p d bs).
Proof.
  intros Hd Hb. unfold core_match, match_fuel.
  pose proof (jsize_pos d) as Hpos.
  eapply okr_imp; [|apply (jmatch_total_gen (jsize d + bsize bs))].
  - intros out Hout. eapply Forall_impl; [|exact Hout]. intros b. apply Pb_ground.
  - lia.
  - split; [exact Hd|lia].
  - apply Pb_of_ground; [exact Hb|lia].
  - unfold need. destruct (ground p); lia.
Qed.

Theorem core_match_total_ground : core_match_total_ground_statement.
Proof.
  intros p d bs Hd Hb. exact (okr_answers _ _ (core_match_okr p d bs Hd Hb)).
Qed.

Theorem core_match_ground_results : core_match_ground_results_statement.
Proof.
  intros p d bs out Hd Hb Ho b Hin. pose proof (core_match_okr p d bs Hd Hb) as H.
  rewrite Ho in H. cbn in H. rewrite Forall_forall in H. auto.
Qed.

(** * No path of the matcher constructs a panic (any input, any fuel) *)

Definition npo {A} (o : outcome A) : Prop := match o with Panic _ => False | _ => True end.

Lemma npo_bind {A B} (o : outcome A) (f : A -> outcome B) :
  npo o -> (forall a, npo (f a)) -> npo (obind o f).
Proof. destruct o; cbn; auto. Qed.

Lemma npo_never {A} (o : outcome A) : npo o <-> never_panics o.
Proof.
  unfold never_panics. split.
  - intros H w E. subst o. exact H.
  - intros H. destruct o; cbn; auto. eapply H. reflexivity.
Qed.

Lemma npo_opanic {A} (o : outcome A) : npo o <-> opanic o = false.
Proof. destruct o; cbn; split; auto; try discriminate; intros []. Qed.

Lemma get_variable_npo : forall xs v acc, npo (get_variable xs v acc).
Proof.
  induction xs as [|x r IH]; intros v acc; cbn [get_variable]; [exact I|].
  destruct x; try apply IH. destruct (is_var s); [|apply IH].
  destruct (String.eqb v ""); [apply IH|]. destruct (String.eqb v s); exact I.
Qed.

Section BodyNP.
  Variable rec : json -> json -> bindings -> outcome (list bindings).
  Hypothesis Hrec : forall p d bs, npo (rec p d bs).

  Lemma match_all_npo p d : forall bss, npo (match_all rec bss p d).
  Proof.
    induction bss as [|bs r IH]; cbn [match_all]; [exact I|].
    apply npo_bind; [apply Hrec|]. intros m. apply npo_bind; [apply IH|]. intros; exact I.
  Qed.

  Lemma propvar_npo k pv : forall dk bss, npo (propvar_match rec bss k pv dk).
  Proof.
    induction dk as [|[fk fv] r IH]; intros bss; cbn [propvar_match]; [exact I|].
    apply npo_bind; [apply match_all_npo|]. intros ext.
    apply npo_bind; [destruct ext; [exact I|apply match_all_npo]|]. intros ext2.
    apply npo_bind; [apply IH|]. intros; exact I.
  Qed.

  Lemma mapcat_npo single dk : forall pk bss, npo (mapcat rec bss single pk dk).
  Proof.
    induction pk as [|[k pv] r IH]; intros bss; cbn [mapcat]; [exact I|].
    destruct (is_var k).
    - destruct single; [apply propvar_npo|exact I].
    - destruct (alookup k dk).
      + apply npo_bind; [apply match_all_npo|]. intros acc. destruct acc; [exact I|apply IH].
      + destruct pv; try exact I. destruct (is_optvar s); [apply IH|exact I].
  Qed.

  Lemma arraycat_one_npo bss p all : forall todo pos, npo (arraycat_one rec bss p all todo pos).
  Proof.
    induction todo as [|[j fact] r IH]; intros pos; cbn [arraycat_one]; [exact I|].
    apply npo_bind; [apply match_all_npo|]. intros acc.
    apply npo_bind; [apply IH|]. intros; exact I.
  Qed.

  Lemma arraycat_npo p : forall alts, npo (arraycat rec alts p).
  Proof.
    induction alts as [|[bss rem] r IH]; cbn [arraycat]; [exact I|].
    apply npo_bind; [apply arraycat_one_npo|]. intros a.
    apply npo_bind; [apply IH|]. intros; exact I.
  Qed.

  Lemma array_elems_npo e : forall xs fxs alts, npo (array_elems rec xs fxs e alts).
  Proof.
    induction xs as [|x r IH]; intros fxs alts; cbn [array_elems]; [exact I|].
    destruct (is_scalar x).
    - destruct (mem_json x fxs); [apply IH|exact I].
    - destruct e; [exact I|]. apply npo_bind; [apply arraycat_npo|]. intros alts'.
      destruct alts'; [exact I|apply IH].
  Qed.

  Lemma match_body_npo p d bs : npo (match_body rec p d bs).
  Proof.
    destruct p as [|x|x|s|pl|pk]; cbn [match_body]; try exact I.
    - destruct (negb (is_var s)); [exact I|]. destruct (is_anon s); [exact I|].
      destruct (inequal d bs s); [exact I|]. destruct (alookup s bs); [apply Hrec|exact I].
    - apply npo_bind; [apply get_variable_npo|]. intros [v xs].
      destruct d; try exact I. destruct (split_array 0 l [] []) as [fxs fxa].
      apply npo_bind; [apply array_elems_npo|]. intros [[lefto alts]|]; [|exact I].
      destruct (String.eqb v ""); [exact I|].
      apply npo_bind; [apply arraycat_npo|]. intros alts2.
      destruct alts2; [destruct (is_optvar v)|]; exact I.
    - destruct d; try exact I. destruct pk; [exact I|].
      destruct ((1 <? length (p :: pk))%nat && any_var_key (p :: pk)); [exact I|apply mapcat_npo].
  Qed.
End BodyNP.

Lemma jmatch_npo : forall fuel p d bs, npo (jmatch fuel p d bs).
Proof.
  induction fuel as [|f IH]; intros p d bs; cbn [jmatch]; [exact I|].
  apply match_body_npo. exact IH.
Qed.

Theorem jmatch_never_panics : jmatch_never_panics_statement.
Proof. intros fuel p d bs w E. pose proof (jmatch_npo fuel p d bs) as H. rewrite E in H. exact H. Qed.

Lemma core_match_npo p d bs : npo (core_match p d bs).
Proof. apply jmatch_npo. Qed.

(** * Ground patterns: total on ANY data, and they bind nothing *)

Section BodyG.
  Variable rec : json -> json -> bindings -> outcome (list bindings).
  Variable P : bindings -> Prop.
  Variable f : nat.
  Hypothesis Hrec : forall p d bs, ground p = true -> (jsize p < f)%nat -> P bs ->
    okr (Forall P) (rec p d bs).

  Lemma match_all_g p d : ground p = true -> (jsize p < f)%nat ->
    forall bss, Forall P bss -> okr (Forall P) (match_all rec bss p d).
  Proof.
    intros Hg Hn. induction bss as [|bs r IH]; intros Hb; cbn [match_all]; [constructor|].
    inversion Hb as [|? ? Hbs Hr]; subst.
    eapply okr_bind; [apply Hrec; eauto|]. intros m Hm.
    eapply okr_bind; [apply IH; exact Hr|]. intros rest Hrest.
    cbn [okr]. apply Forall_app. split; assumption.
  Qed.

  Lemma mapcat_g single dk : forall pk bss,
    Forall (fun kv => is_var (fst kv) = false /\ ground (snd kv) = true /\ (jsize (snd kv) < f)%nat) pk ->
    Forall P bss -> okr (Forall P) (mapcat rec bss single pk dk).
  Proof.
    induction pk as [|[k pv] r IH]; intros bss Hpk Hb; cbn [mapcat]; [exact Hb|].
    inversion Hpk as [|? ? (Hk & Hpv & Hs) Hr]; subst. cbn [fst snd] in *. rewrite Hk.
    destruct (alookup k dk) as [fv|].
    - eapply okr_bind; [apply match_all_g; eauto|].
      intros acc Hacc. destruct acc; [constructor|]. apply IH; assumption.
    - destruct pv; try constructor. destruct (is_optvar s); [apply IH; assumption|constructor].
  Qed.

  Definition AltG (a : list bindings * list (nat * json)) : Prop := Forall P (fst a).

  Lemma arraycat_one_g bss p all : ground p = true -> (jsize p < f)%nat -> Forall P bss ->
    forall todo pos, okr (Forall AltG) (arraycat_one rec bss p all todo pos).
  Proof.
    intros Hg Hn Hb. induction todo as [|[j fact] r IH]; intros pos; cbn [arraycat_one]; [constructor|].
    eapply okr_bind; [apply match_all_g; eauto|]. intros acc Hacc.
    eapply okr_bind; [apply IH|]. intros rest Hrest.
    cbn [okr]. destruct acc; [exact Hrest|]. constructor; [exact Hacc|exact Hrest].
  Qed.

  Lemma arraycat_g p : ground p = true -> (jsize p < f)%nat ->
    forall alts, Forall AltG alts -> okr (Forall AltG) (arraycat rec alts p).
  Proof.
    intros Hg Hn. induction alts as [|[bss rem] r IH]; intros Ha; cbn [arraycat]; [constructor|].
    inversion Ha as [|? ? Hb Hr]; subst. unfold AltG in Hb. cbn [fst] in Hb.
    eapply okr_bind; [apply arraycat_one_g; auto|]. intros a Haa.
    eapply okr_bind; [apply IH; exact Hr|]. intros rest Hrest.
    cbn [okr]. apply Forall_app. split; assumption.
  Qed.

  Definition ElemsG (r : option (list json * list (list bindings * list (nat * json)))) : Prop :=
    match r with None => True | Some (_, alts) => Forall AltG alts end.

  Lemma array_elems_g e : forall xs fxs alts,
    Forall (fun x => ground x = true /\ (jsize x < f)%nat) xs -> Forall AltG alts ->
    okr ElemsG (array_elems rec xs fxs e alts).
  Proof.
    induction xs as [|x r IH]; intros fxs alts Hxs Halts; cbn [array_elems]; [exact Halts|].
    inversion Hxs as [|? ? [Hg Hs] Hr]; subst.
    destruct (is_scalar x).
    - destruct (mem_json x fxs); [apply IH; auto|exact I].
    - destruct e; [exact I|].
      eapply okr_bind; [apply arraycat_g; eauto|]. intros alts' Ha'.
      destruct alts'; [exact I|]. apply IH; auto.
  Qed.

  Lemma combine_g alts : Forall AltG alts -> Forall P (combine alts).
  Proof.
    unfold combine. induction alts as [|a r IH]; intros H; cbn [map concat]; [constructor|].
    inversion H as [|? ? Ha Hr]; subst. apply Forall_app. split; auto.
  Qed.

  Lemma ground_novar pl : ground (JArr pl) = true -> Forall (fun x => isvarj x = false) pl.
  Proof.
    intros Hg. apply Forall_forall. intros x Hx. pose proof (ground_arr_In pl x Hg Hx) as H.
    destruct x; try reflexivity. cbn [ground] in H. cbn [isvarj]. destruct (is_var s); [discriminate|reflexivity].
  Qed.

  Theorem match_body_g p d bs :
    ground p = true -> (jsize p < S f)%nat -> P bs -> okr (Forall P) (match_body rec p d bs).
  Proof.
    intros Hg Hn Hp. destruct p as [|x|x|s|pl|pk]; cbn [match_body].
    - cbn. destruct d; repeat constructor; exact Hp.
    - cbn. destruct d; repeat constructor. destruct (Bool.eqb x b); repeat constructor; exact Hp.
    - cbn. destruct d; repeat constructor. destruct (x =? z); repeat constructor; exact Hp.
    - cbn [ground] in Hg. rewrite Hg. cbn.
      destruct d; repeat constructor. destruct (String.eqb s s0); repeat constructor; exact Hp.
    - rewrite (get_variable_novar pl "" [] (ground_novar pl Hg)). cbn [rev app obind].
      destruct d as [| | | |dl|]; try (cbn; constructor).
      destruct (split_array 0 dl [] []) as [fxs fxa].
      eapply okr_bind.
      { apply array_elems_g.
        - apply Forall_forall. intros x Hx. split; [eapply ground_arr_In; eauto|].
          pose proof (jsize_arr_In x pl Hx). lia.
        - constructor; [|constructor]. unfold AltG. cbn [fst]. constructor; [exact Hp|constructor]. }
      intros r Hr. destruct r as [[lefto alts]|]; [|cbn; constructor].
      cbn [String.eqb okr]. apply combine_g.
      apply Forall_forall. intros a Ha. apply in_map_iff in Ha. destruct Ha as [a0 [<- Ha0]].
      cbn [ElemsG] in Hr. rewrite Forall_forall in Hr. exact (Hr a0 Ha0).
    - destruct d as [| | | | |dk]; try (cbn; constructor).
      destruct pk as [|kv0 pk0] eqn:Epk; [cbn; repeat constructor; exact Hp|]. rewrite <- Epk in *.
      destruct ((1 <? length pk)%nat && any_var_key pk); [exact I|].
      apply mapcat_g; [|constructor; [exact Hp|constructor]].
      apply Forall_forall. intros kv Hkv. destruct (ground_obj_In pk kv Hg Hkv) as [H1 H2].
      split; [exact H1|]. split; [exact H2|]. pose proof (jsize_obj_In kv pk Hkv). lia.
  Qed.
End BodyG.

Theorem jmatch_ground_pattern (P : bindings -> Prop) : forall fuel p d bs,
  ground p = true -> (jsize p < fuel)%nat -> P bs -> okr (Forall P) (jmatch fuel p d bs).
Proof.
  induction fuel as [|f IH]; intros p d bs Hg Hn Hp; [lia|].
  cbn [jmatch]. apply (match_body_g (jmatch f) P f); auto.
Qed.

Theorem core_match_total_ground_pattern : core_match_total_ground_pattern_statement.
Proof.
  intros p d bs Hg.
  assert (H : okr (Forall (fun b => b = bs)) (core_match p d bs)).
  { apply jmatch_ground_pattern; [exact Hg|unfold match_fuel; lia|reflexivity]. }
  split.
  - intros E. rewrite E in H. exact H.
  - intros b out Ho Hin. rewrite Ho in H. cbn in H. rewrite Forall_forall in H. auto.
Qed.

Lemma core_match_ground_pattern_obad p d bs : ground p = true -> obad (core_match p d bs) = false.
Proof.
  intros Hg. apply (okr_obad (Forall (fun _ => True))).
  apply jmatch_ground_pattern; [exact Hg|unfold match_fuel; lia|exact I].
Qed.
