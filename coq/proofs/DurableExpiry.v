(** C07 support: get / search / find-rules never return an expired fact;
    reads leave a state without expired facts untouched; without a storage
    failure a removal never errs, and purges the id it names. *)
From Coq Require Import Lia.
From Verif Require Import Json Outcome Match PatIndex State StateSpec MatchLemmas1
  CascadeSpec CascadeLemmas1 CascadeTerm CascadeExact AssocLemmas StateProofs
  DurableFrame DurableInv DurableSpec.

Lemma expire_false rr s id fact now s1 err :
  expire rr s id fact now = (s1, false, err) -> fact_expired fact now = false /\ s1 = s.
Proof.
  unfold expire. destruct (fact_expired fact now).
  - destruct (rr s id now) as [s' o]. intros H. inversion H.
  - intros H. inversion H. split; reflexivity.
Qed.

Lemma expire_noexp rr s id fact now :
  fact_expired fact now = false -> expire rr s id fact now = (s, false, None).
Proof. unfold expire. intros ->. reflexivity. Qed.

(** * B5: what the iterations return is live in the initial state *)

Definition rule_of (k : skind) (fact body : json) : Prop :=
  match k with
  | Indexed => extract_rule fact true = Ok (Some body)
  | Linear => jget "rule" fact = Some body
  end.

Section Live.
  Variable rr : state -> string -> Z -> state * outcome bool.
  Hypothesis rr_Sub : forall s id now, Sub s (fst (rr s id now)).

  Lemma expire_Sub_gen s id fact now : Sub s (fst (fst (expire rr s id fact now))).
  Proof. apply (expire_R Sub Sub_refl Sub_trans Sub_amb rr rr_Sub). Qed.

  Lemma search_ids_live s0 pattern now ids : forall s acc s' res,
    Sub s0 s -> (forall id bss, In (id, bss) acc -> live s0 id now) ->
    search_ids rr s ids pattern now acc = (s', Ok res) ->
    forall id bss, In (id, bss) res -> live s0 id now.
  Proof.
    induction ids as [|i r IH]; intros s acc s' res HS Hacc H; cbn [search_ids] in H.
    - injection H as _ <-. intros id bss Hin. apply in_rev in Hin. eapply Hacc; exact Hin.
    - destruct (alookup i (st_facts s)) as [fact|] eqn:El; [|eapply IH; eassumption].
      pose proof (expire_Sub_gen s i fact now) as HS1.
      destruct (expire rr s i fact now) as [[s1 expired] err] eqn:Ex. cbn [fst] in HS1.
      assert (HS01 : Sub s0 s1) by (eapply Sub_trans; eassumption).
      destruct (expire_stops (st_kind s) err); [discriminate|].
      destruct expired; [eapply IH; eassumption|].
      apply expire_false in Ex. destruct Ex as [Hne ->].
      destruct (core_match pattern fact []) as [[|b bss0]|e|w|]; try discriminate.
      + eapply IH; eassumption.
      + eapply IH; [exact HS01| |exact H].
        intros id bss [E|Hin]; [|eapply Hacc; exact Hin].
        injection E as <- <-. exists fact. split; [|exact Hne].
        destruct HS as (_ & _ & _ & _ & HF & _). apply HF. exact El.
  Qed.
End Live.

Lemma st_search_live s p now s' res :
  st_search s p now = (s', Ok res) -> forall id bss, In (id, bss) res -> live s id now.
Proof.
  unfold st_search, search_state. intros H.
  assert (Hgen : forall ids, search_ids st_rem_rec s ids p now [] = (s', Ok res) ->
                             forall id bss, In (id, bss) res -> live s id now).
  { intros ids Hs. eapply (search_ids_live st_rem_rec st_rem_rec_Sub s p now ids s []);
      [apply Sub_refl|intros ? ? []|exact Hs]. }
  destruct (st_kind s).
  - destruct (ti_search (st_tindex s) (extract_terms p)) as [ids|e|w|]; try discriminate.
    eapply Hgen; exact H.
  - eapply Hgen; exact H.
Qed.

Definition found_live (s0 : state) (now : Z) (l : list (string * json)) : Prop :=
  forall id body, In (id, body) l ->
    exists fact, alookup id (st_facts s0) = Some fact /\ fact_expired fact now = false /\
                 rule_of (st_kind s0) fact body.

Lemma find_ids_idx_live s0 now ids : forall s acc s' res,
  st_kind s0 = Indexed -> Sub s0 s -> found_live s0 now acc ->
  find_ids_idx s ids now acc = (s', Ok res) -> found_live s0 now res.
Proof.
  induction ids as [|i r IH]; intros s acc s' res Hk HS Hacc H; cbn [find_ids_idx] in H.
  - injection H as _ <-. intros id body Hin. apply in_rev in Hin. apply Hacc; exact Hin.
  - destruct (alookup i (st_facts s)) as [fact|] eqn:El; [|discriminate].
    pose proof (expire_Sub s i fact now) as HS1.
    destruct (expire st_rem_rec s i fact now) as [[s1 expired] err] eqn:Ex. cbn [fst] in HS1.
    assert (HS01 : Sub s0 s1) by (eapply Sub_trans; eassumption).
    destruct expired; [eapply IH; eassumption|].
    apply expire_false in Ex. destruct Ex as [Hne ->].
    destruct (extract_rule fact true) as [[body|]|e|w|] eqn:Er; try discriminate.
    eapply IH; [exact Hk|exact HS01| |exact H].
    intros id b [E|Hin]; [|apply Hacc; exact Hin].
    injection E as <- <-. exists fact. split; [|split; [exact Hne|]].
    + destruct HS as (_ & _ & _ & _ & HF & _). apply HF. exact El.
    + rewrite Hk. exact Er.
Qed.

Lemma find_ids_lin_live s0 ev now ids : forall s acc s' res,
  st_kind s0 = Linear -> Sub s0 s -> found_live s0 now acc ->
  find_ids_lin s ids ev now acc = (s', Ok res) -> found_live s0 now res.
Proof.
  induction ids as [|i r IH]; intros s acc s' res Hk HS Hacc H; cbn [find_ids_lin] in H.
  - injection H as _ <-. intros id body Hin. apply in_rev in Hin. apply Hacc; exact Hin.
  - destruct (alookup i (st_facts s)) as [fact|] eqn:El; [|eapply IH; eassumption].
    destruct (jget "rule" fact) as [rule|] eqn:Er; [|eapply IH; eassumption].
    pose proof (expire_Sub s i fact now) as HS1.
    destruct (expire st_rem_rec s i fact now) as [[s1 expired] err] eqn:Ex. cbn [fst] in HS1.
    assert (HS01 : Sub s0 s1) by (eapply Sub_trans; eassumption).
    destruct err; [discriminate|].
    destruct expired; [eapply IH; eassumption|].
    apply expire_false in Ex. destruct Ex as [Hne ->].
    destruct rule as [| | | | |rm]; try (eapply IH; eassumption).
    destruct (alookup "when" rm) as [[| | | | |w]|]; try (eapply IH; eassumption).
    destruct (core_match _ ev []) as [[|b bss]|e|w'|]; try discriminate.
    + eapply IH; eassumption.
    + eapply IH; [exact Hk|exact HS01| |exact H].
      intros id b0 [E|Hin]; [|apply Hacc; exact Hin].
      injection E as <- <-. exists fact. split; [|split; [exact Hne|]].
      * destruct HS as (_ & _ & _ & _ & HF & _). apply HF. exact El.
      * rewrite Hk. exact Er.
Qed.

Lemma st_find_rules_live s ev now s' l :
  st_find_rules s ev now = (s', Ok l) -> found_live s now l.
Proof.
  unfold st_find_rules.
  match goal with
  | |- (let '(a, b) := ?X in _) = _ -> _ =>
      assert (Hx : forall s1 res, X = (s1, Ok res) -> found_live s now res); [|destruct X as [s1 res]]
  end.
  { intros s1 res. destruct (st_kind s) eqn:Hk.
    - destruct (pi_search (st_pindex s) ev) as [ids|e|w|]; try discriminate.
      apply find_ids_idx_live; [exact Hk|apply Sub_refl|intros ? ? []].
    - apply find_ids_lin_live; [exact Hk|apply Sub_refl|intros ? ? []]. }
  destruct res as [l0|e|w|]; try discriminate.
  intros H. injection H as _ <-.
  intros id body Hin. unfold check_rules in Hin. apply filter_In in Hin. destruct Hin as [Hin _].
  eapply Hx; [reflexivity|exact Hin].
Qed.

(** * Reads of a state without expired facts change nothing *)

Lemma search_ids_noexp_state rr s now : no_expired s now ->
  forall ids p acc, fst (search_ids rr s ids p now acc) = s.
Proof.
  intros Hne. induction ids as [|i r IH]; intros p acc; cbn [search_ids]; [reflexivity|].
  destruct (alookup i (st_facts s)) as [fact|] eqn:El; [|apply IH].
  rewrite (expire_noexp rr s i fact now (Hne i fact El)).
  destruct (core_match p fact []) as [[|b bss]|e|w|]; try reflexivity; apply IH.
Qed.

Lemma search_state_noexp_state rr s p now : no_expired s now -> fst (search_state rr s p now) = s.
Proof.
  intros Hne. unfold search_state. destruct (st_kind s).
  - destruct (ti_search (st_tindex s) (extract_terms p)); try reflexivity.
    apply search_ids_noexp_state; exact Hne.
  - apply search_ids_noexp_state; exact Hne.
Qed.

Lemma st_search_noexp s p now : no_expired s now -> fst (st_search s p now) = s.
Proof. apply search_state_noexp_state. Qed.

Lemma st_get_noexp s id now : no_expired s now -> fst (st_get s id now) = s.
Proof.
  intros Hne. unfold st_get. destruct (alookup id (st_facts s)) as [fact|] eqn:El; [|reflexivity].
  rewrite (Hne id fact El). reflexivity.
Qed.

Lemma find_ids_idx_noexp s now : no_expired s now ->
  forall ids acc, fst (find_ids_idx s ids now acc) = s.
Proof.
  intros Hne. induction ids as [|i r IH]; intros acc; cbn [find_ids_idx]; [reflexivity|].
  destruct (alookup i (st_facts s)) as [fact|] eqn:El; [|reflexivity].
  rewrite (expire_noexp st_rem_rec s i fact now (Hne i fact El)).
  destruct (extract_rule fact true) as [[body|]|e|w|]; try reflexivity. apply IH.
Qed.

Lemma find_ids_lin_noexp s ev now : no_expired s now ->
  forall ids acc, fst (find_ids_lin s ids ev now acc) = s.
Proof.
  intros Hne. induction ids as [|i r IH]; intros acc; cbn [find_ids_lin]; [reflexivity|].
  destruct (alookup i (st_facts s)) as [fact|] eqn:El; [|apply IH].
  destruct (jget "rule" fact) as [rule|]; [|apply IH].
  rewrite (expire_noexp st_rem_rec s i fact now (Hne i fact El)).
  destruct rule as [| | | | |rm]; try apply IH.
  destruct (alookup "when" rm) as [[| | | | |w]|]; try apply IH.
  destruct (core_match _ ev []) as [[|b bss]|e|w'|]; try reflexivity; apply IH.
Qed.

Lemma st_find_rules_noexp s ev now : no_expired s now -> fst (st_find_rules s ev now) = s.
Proof.
  intros Hne. unfold st_find_rules.
  match goal with
  | |- fst (let '(a, b) := ?X in _) = _ => assert (H : fst X = s); [|destruct X as [s1 res]]
  end.
  { destruct (st_kind s).
    - destruct (pi_search (st_pindex s) ev); try reflexivity. apply find_ids_idx_noexp; exact Hne.
    - apply find_ids_lin_noexp; exact Hne. }
  cbn [fst] in H. subst s1.
  destruct res as [l|e|w|]; reflexivity.
Qed.

(** * Without a storage failure a removal never errs *)

Lemma sset_add_nonempty x l : sset_add x l <> [].
Proof. destruct l as [|y r]; cbn [sset_add]; [discriminate|]. destruct (String.compare x y); discriminate. Qed.

Lemma dw_terms_nonempty x : extract_terms (dw_pattern x) <> [].
Proof.
  unfold extract_terms, dw_pattern. rewrite raw_obj. cbn [raw_kvs].
  change (key_terms "deleteWith") with ["deleteWith"]. cbn [app fold_right].
  apply sset_add_nonempty.
Qed.

Lemma rem_head_cont s id : will_fail s = false -> snd (rem_head s id) = true.
Proof.
  unfold rem_head, will_fail. intros Hw. destruct (st_kind s).
  - destruct (alookup id (st_facts s)) as [fact|]; [|reflexivity].
    destruct (idx_drop_fields s id fact) as (_ & _ & _ & F4 & F5 & _).
    unfold store_call. rewrite F4, F5, Hw. reflexivity.
  - unfold store_call. rewrite Hw. reflexivity.
Qed.

Lemma ok_or_oof_wrapb {A B} (r : state * outcome A) (b : B) :
  ok_or_oof (snd r) -> ok_or_oof (snd (wrapb r b)).
Proof. destruct r as [s [a|e|w|]]; cbn; auto. Qed.

Section NoFail.
  Variable rr : state -> string -> Z -> state * outcome bool.
  Variable now : Z.
  Hypothesis rr_Sub : forall s id now, Sub s (fst (rr s id now)).
  Hypothesis rr_ok : forall s j, st_fail s = None -> ok_or_oof (snd (rr s j now)).

  Lemma expire_nofail_err s i fact : st_fail s = None -> snd (expire rr s i fact now) = None.
  Proof.
    intros Hf. unfold expire. destruct (fact_expired fact now); [|reflexivity].
    pose proof (rr_ok s i Hf) as Ho. destruct (rr s i now) as [s' o]. cbn [snd] in *.
    destruct o; try contradiction; reflexivity.
  Qed.

  (** (without a storage failure: under one, the linear state's search
      returns the error of the purge of an expired item) *)
  Lemma search_ids_dw_ok x : forall ids s acc, st_fail s = None ->
    exists res, snd (search_ids rr s ids (dw_pattern x) now acc) = Ok res.
  Proof.
    induction ids as [|i r IH]; intros s acc Hf; cbn [search_ids].
    - eexists; reflexivity.
    - destruct (alookup i (st_facts s)) as [fact|]; [|apply IH; exact Hf].
      pose proof (expire_nofail_err s i fact Hf) as He.
      pose proof (expire_R Sub Sub_refl Sub_trans Sub_amb rr rr_Sub s i fact now) as HS.
      destruct (expire rr s i fact now) as [[s1 expired] err]. cbn [fst snd] in *. subst err.
      cbv beta iota delta [expire_stops].
      assert (Hf1 : st_fail s1 = None) by (destruct HS as (_ & _ & HS & _); congruence).
      destruct expired; [apply IH; exact Hf1|].
      destruct (core_match_dw_ok x fact) as [res ->]. destruct res; apply IH; exact Hf1.
  Qed.

  Lemma search_state_dw_ok x s : st_fail s = None ->
    exists res, snd (search_state rr s (dw_pattern x) now) = Ok res.
  Proof.
    intros Hf. unfold search_state. destruct (st_kind s).
    - destruct (ti_search_spec (st_tindex s) _ (dw_terms_nonempty x)) as (ids & -> & _).
      apply search_ids_dw_ok; exact Hf.
    - apply search_ids_dw_ok; exact Hf.
  Qed.

  Lemma rem_list_nofail skip : forall ids s, st_fail s = None ->
    ok_or_oof (snd (rem_list rr s ids skip now)).
  Proof.
    induction ids as [|j r IH]; intros s Hf; cbn [rem_list]; [exact I|].
    destruct (String.eqb j skip); [apply IH; exact Hf|].
    pose proof (rr_ok s j Hf) as Ho. pose proof (rr_Sub s j now) as HS.
    destruct (rr s j now) as [s1 o]. cbn [fst snd] in *.
    destruct o as [b|e|w|]; try contradiction; [|exact I].
    apply IH. destruct HS as (_ & _ & HS & _). congruence.
  Qed.

  Lemma delete_dependencies_nofail s id : st_fail s = None ->
    ok_or_oof (snd (delete_dependencies rr s id now)).
  Proof.
    intros Hf. unfold delete_dependencies.
    destruct (search_state_dw_ok id s Hf) as [res Hres].
    pose proof (search_state_R Sub Sub_refl Sub_trans Sub_amb rr rr_Sub s (dw_pattern id) now) as HS.
    destruct (search_state rr s (dw_pattern id) now) as [s1 o]. cbn [fst snd] in *. subst o.
    apply rem_list_nofail. destruct HS as (_ & _ & HS & _). congruence.
  Qed.

  Lemma rem_body_nofail s id : st_fail s = None -> ok_or_oof (snd (rem_body rr s id now)).
  Proof.
    intros Hf. rewrite rem_body_head.
    rewrite rem_head_cont by (unfold will_fail; rewrite Hf; reflexivity).
    apply ok_or_oof_wrapb. apply delete_dependencies_nofail.
    destruct (Sub_head s id) as (_ & _ & HS & _). congruence.
  Qed.
End NoFail.

Lemma rem_fuel_nofail now : forall fuel s id, st_fail s = None ->
  ok_or_oof (snd (rem_fuel fuel s id now)).
Proof.
  induction fuel as [|f IH]; intros s id Hf; cbn [rem_fuel]; [exact I|].
  apply rem_body_nofail; auto. intros s0 j now0. apply rem_fuel_Sub.
Qed.

Lemma st_rem_ok_nofail s id now : st_fail s = None -> exists had, snd (st_rem s id now) = Ok had.
Proof.
  intros Hf. pose proof (st_rem_not_oof s id now) as Hn.
  pose proof (rem_fuel_nofail now (cascade_fuel s) s id Hf) as Ho.
  unfold st_rem in *. destruct (snd (rem_fuel (cascade_fuel s) s id now)) as [had|e|w|];
    try contradiction; eauto.
Qed.

(** * A successful removal purges the id it names *)

Lemma rem_head_purged s id :
  snd (rem_head s id) = true -> (st_kind s = Linear \/ alookup id (st_facts s) <> None) ->
  alookup id (st_facts (fst (rem_head s id))) = None /\
  alookup id (st_store (fst (rem_head s id))) = None.
Proof.
  unfold rem_head. destruct (st_kind s) eqn:Hk.
  - intros Hc [Hl|Hl]; [discriminate|].
    destruct (alookup id (st_facts s)) as [fact|] eqn:El; [|congruence].
    pose proof (facts_idx_drop s id fact) as F0.
    revert Hc. unfold store_call.
    destruct (match st_fail (idx_drop s id fact) with
              | Some n => Nat.eqb n (st_calls (idx_drop s id fact)) | None => false end);
      cbn [fst snd]; [discriminate|]. intros _.
    cbn [st_facts st_store set_store]. rewrite F0. split; apply alookup_aremove_same.
  - intros Hc _. revert Hc. unfold store_call.
    destruct (match st_fail s with Some n => Nat.eqb n (st_calls s) | None => false end);
      cbn [fst snd]; [discriminate|]. intros _.
    cbn [st_facts st_store set_store set_facts]. split; apply alookup_aremove_same.
Qed.

Lemma rem_fuel_purges fuel s id now s' had :
  rem_fuel fuel s id now = (s', Ok had) ->
  (st_kind s = Linear \/ alookup id (st_facts s) <> None) ->
  alookup id (st_facts s') = None /\ alookup id (st_store s') = None.
Proof.
  destruct fuel as [|f]; cbn [rem_fuel]; [discriminate|].
  rewrite rem_body_head. intros H Hc.
  destruct (snd (rem_head s id)) eqn:Ec; [|discriminate].
  destruct (rem_head_purged s id Ec Hc) as [H1 H2].
  pose proof (delete_dependencies_R Sub Sub_refl Sub_trans Sub_amb (rem_fuel f) (rem_fuel_Sub f)
                (fst (rem_head s id)) id now) as HS.
  rewrite <- (fst_wrapb _ (had_fact s id)) in HS. rewrite H in HS. cbn [fst] in HS.
  split; [eapply Sub_facts_None|eapply Sub_store_None]; eassumption.
Qed.

Lemma st_rem_purges s id now s' had :
  st_rem s id now = (s', Ok had) ->
  (st_kind s = Linear \/ alookup id (st_facts s) <> None) ->
  alookup id (st_facts s') = None /\ alookup id (st_store s') = None.
Proof. apply rem_fuel_purges. Qed.

(** * B4: get *)

Lemma st_get_Ok_iff s id now fact :
  snd (st_get s id now) = Ok fact <->
  alookup id (st_facts s) = Some fact /\ fact_expired fact now = false.
Proof.
  unfold st_get. destruct (alookup id (st_facts s)) as [f|] eqn:El.
  - destruct (fact_expired f now) eqn:Ex.
    + destruct (st_rem s id now) as [s1 [b|e|w|]]; cbn [snd]; split; try discriminate;
        intros [H1 H2]; injection H1 as ->; congruence.
    + cbn [snd]. split.
      * intros H. injection H as ->. split; [reflexivity|exact Ex].
      * intros [H _]. injection H as ->. reflexivity.
  - cbn [snd]. split; [discriminate|]. intros [H _]. discriminate.
Qed.

Lemma st_get_expired s id now fact :
  alookup id (st_facts s) = Some fact -> fact_expired fact now = true ->
  (forall f, snd (st_get s id now) <> Ok f) /\
  (forall had, snd (st_rem s id now) = Ok had ->
     snd (st_get s id now) = Err "notfound" /\
     alookup id (st_facts (fst (st_get s id now))) = None /\
     alookup id (st_store (fst (st_get s id now))) = None).
Proof.
  intros El Ex. split.
  - intros f H. apply st_get_Ok_iff in H. destruct H as [H1 H2]. congruence.
  - intros had Hr. unfold st_get. rewrite El, Ex.
    destruct (st_rem s id now) as [s1 o] eqn:Er. cbn [snd] in Hr. subst o. cbn [fst snd].
    split; [reflexivity|]. eapply st_rem_purges; [exact Er|]. right. congruence.
Qed.
