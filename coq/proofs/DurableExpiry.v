(** C07 support: get / search / find-rules never return an expired fact;
    reads leave a state without expired facts untouched; without a storage
    failure a removal never errs, and purges the id it names. *)
From Coq Require Import Lia.
From Verif Require Import Json Outcome Match PatIndex State StateSpec MatchLemmas1
  CascadeSpec CascadeLemmas1 CascadeTerm CascadeExact AssocLemmas StateProofs
  DurableFrame DurableInv DurableSpec.

Lemma expire_false_inv s id fact now s1 :
  expire s id fact now = (s1, false) -> fact_expired fact now = false /\ s1 = s.
Proof.
  unfold expire. destruct (fact_expired fact now).
  - intros H. inversion H.
  - intros H. inversion H. split; reflexivity.
Qed.

Lemma expire_noexp s id fact now :
  fact_expired fact now = false -> expire s id fact now = (s, false).
Proof. apply expire_false. Qed.

(** * B5: what the iterations return is live in the initial state *)

Definition rule_of (k : skind) (fact body : json) : Prop :=
  match k with
  | Indexed => extract_rule fact true = Ok (Some body)
  | Linear => jget "rule" fact = Some body
  end.

Lemma search_ids_live s0 pattern now ids : forall s acc s' res,
  Sub s0 s -> (forall id bss, In (id, bss) acc -> live s0 id now) ->
  search_ids s ids pattern now acc = (s', Ok res) ->
  forall id bss, In (id, bss) res -> live s0 id now.
Proof.
  induction ids as [|i r IH]; intros s acc s' res HS Hacc H; cbn [search_ids] in H.
  - injection H as _ <-. intros id bss Hin. apply in_rev in Hin. eapply Hacc; exact Hin.
  - destruct (alookup i (st_facts s)) as [fact|] eqn:El; [|eapply IH; eassumption].
    pose proof (expire_Sub s i fact now) as HS1.
    destruct (expire s i fact now) as [s1 expired] eqn:Ex. cbn [fst] in HS1.
    assert (HS01 : Sub s0 s1) by (eapply Sub_trans; eassumption).
    destruct expired; [eapply IH; eassumption|].
    apply expire_false_inv in Ex. destruct Ex as [Hne ->].
    destruct (core_match pattern fact []) as [[|b bss0]|e|w|]; try discriminate.
    + eapply IH; eassumption.
    + eapply IH; [exact HS01| |exact H].
      intros id bss [E|Hin]; [|eapply Hacc; exact Hin].
      injection E as <- <-. exists fact. split; [|exact Hne].
      destruct HS as (_ & _ & _ & _ & HF & _). apply HF. exact El.
Qed.

Lemma search_state_live s p now s' res :
  search_state s p now = (s', Ok res) -> forall id bss, In (id, bss) res -> live s id now.
Proof.
  unfold search_state. intros H.
  assert (Hgen : forall ids, search_ids s ids p now [] = (s', Ok res) ->
                             forall id bss, In (id, bss) res -> live s id now).
  { intros ids Hs. eapply (search_ids_live s p now ids s []);
      [apply Sub_refl|intros ? ? []|exact Hs]. }
  destruct (st_kind s).
  - destruct (ti_search (st_tindex s) (extract_terms p)) as [ids|e|w|]; try discriminate.
    eapply Hgen; exact H.
  - eapply Hgen; exact H.
Qed.

Lemma st_search_live s p now s' res :
  st_search s p now = (s', Ok res) -> forall id bss, In (id, bss) res -> live s id now.
Proof.
  unfold st_search. rewrite with_purge_eq. intros H.
  destruct (search_state s p now) as [s1 o] eqn:E. cbn [fst snd] in H.
  injection H as _ ->. eapply search_state_live; exact E.
Qed.

Definition found_live (s0 : state) (now : Z) (l : list (string * json)) : Prop :=
  forall id body, In (id, body) l ->
    exists fact, alookup id (st_facts s0) = Some fact /\ fact_expired fact now = false /\
                 rule_of (st_kind s0) fact body.

Lemma find_ids_idx_live s0 now ids : forall s acc s' res,
  st_kind s0 = Indexed -> Sub s0 s -> found_live s0 now acc ->
  find_ids_idx s ids now acc = (s', Ok res) -> found_live s0 now res.
Proof.
  induction ids as [|i r IH]; intros s acc s' res Hk HS Hacc H; cbn [find_ids_idx] in H.
  - injection H as _ <-. intros id body Hin. apply in_rev in Hin. apply Hacc; exact Hin.
  - destruct (alookup i (st_facts s)) as [fact|] eqn:El; [|discriminate].
    pose proof (expire_Sub s i fact now) as HS1.
    destruct (expire s i fact now) as [s1 expired] eqn:Ex. cbn [fst] in HS1.
    assert (HS01 : Sub s0 s1) by (eapply Sub_trans; eassumption).
    destruct expired; [eapply IH; eassumption|].
    apply expire_false_inv in Ex. destruct Ex as [Hne ->].
    destruct (extract_rule fact true) as [[body|]|e|w|] eqn:Er; try discriminate.
    eapply IH; [exact Hk|exact HS01| |exact H].
    intros id b [E|Hin]; [|apply Hacc; exact Hin].
    injection E as <- <-. exists fact. split; [|split; [exact Hne|]].
    + destruct HS as (_ & _ & _ & _ & HF & _). apply HF. exact El.
    + rewrite Hk. exact Er.
Qed.

Lemma find_ids_lin_live s0 ev now ids : forall s acc s' res,
  st_kind s0 = Linear -> Sub s0 s -> found_live s0 now acc ->
  find_ids_lin s ids ev now acc = (s', Ok res) -> found_live s0 now res.
Proof.
  induction ids as [|i r IH]; intros s acc s' res Hk HS Hacc H; cbn [find_ids_lin] in H.
  - injection H as _ <-. intros id body Hin. apply in_rev in Hin. apply Hacc; exact Hin.
  - destruct (alookup i (st_facts s)) as [fact|] eqn:El; [|eapply IH; eassumption].
    destruct (jget "rule" fact) as [rule|] eqn:Er; [|eapply IH; eassumption].
    pose proof (expire_Sub s i fact now) as HS1.
    destruct (expire s i fact now) as [s1 expired] eqn:Ex. cbn [fst] in HS1.
    assert (HS01 : Sub s0 s1) by (eapply Sub_trans; eassumption).
    destruct expired; [eapply IH; eassumption|].
    apply expire_false_inv in Ex. destruct Ex as [Hne ->].
    destruct rule as [| | | | |rm]; try (eapply IH; eassumption).
    destruct (alookup "when" rm) as [[| | | | |w]|]; try (eapply IH; eassumption).
    destruct (core_match _ ev []) as [[|b bss]|e|w'|]; try discriminate.
    + eapply IH; eassumption.
    + eapply IH; [exact Hk|exact HS01| |exact H].
      intros id b0 [E|Hin]; [|apply Hacc; exact Hin].
      injection E as <- <-. exists fact. split; [|split; [exact Hne|]].
      * destruct HS as (_ & _ & _ & _ & HF & _). apply HF. exact El.
      * rewrite Hk. exact Er.
Qed.

Lemma do_find_rules_live s ev now s' l :
  do_find_rules s ev now = (s', Ok l) -> found_live s now l.
Proof.
  unfold do_find_rules. rewrite with_purge_eq. intros H.
  match type of H with (_, snd ?X) = _ => destruct X as [s1 o] eqn:E end.
  cbn [fst snd] in H. injection H as _ ->. revert E.
  destruct (st_kind s) eqn:Hk.
  - destruct (pi_search (st_pindex s) ev) as [ids|e|w|]; try discriminate.
    apply find_ids_idx_live; [exact Hk|apply Sub_refl|intros ? ? []].
  - apply find_ids_lin_live; [exact Hk|apply Sub_refl|intros ? ? []].
Qed.

Lemma st_find_rules_live s ev now s' l :
  st_find_rules s ev now = (s', Ok l) -> found_live s now l.
Proof.
  unfold st_find_rules. destruct (do_find_rules s ev now) as [s1 res] eqn:E.
  destruct res as [l0|e|w|]; try discriminate.
  intros H. injection H as _ <-.
  intros id body Hin. unfold check_rules in Hin. apply filter_In in Hin. destruct Hin as [Hin _].
  eapply do_find_rules_live; [exact E|exact Hin].
Qed.

(** * Reads of a state without expired facts change nothing *)

Lemma search_ids_noexp_state s now : no_expired s now ->
  forall ids p acc, fst (search_ids s ids p now acc) = s.
Proof.
  intros Hne. induction ids as [|i r IH]; intros p acc; cbn [search_ids]; [reflexivity|].
  destruct (alookup i (st_facts s)) as [fact|] eqn:El; [|apply IH].
  rewrite (expire_noexp s i fact now (Hne i fact El)).
  destruct (core_match p fact []) as [[|b bss]|e|w|]; try reflexivity; apply IH.
Qed.

Lemma search_state_noexp_state s p now : no_expired s now -> fst (search_state s p now) = s.
Proof.
  intros Hne. unfold search_state. destruct (st_kind s).
  - destruct (ti_search (st_tindex s) (extract_terms p)); try reflexivity.
    apply search_ids_noexp_state; exact Hne.
  - apply search_ids_noexp_state; exact Hne.
Qed.

Lemma fst_with_purge_nil {A} (r : state * outcome A) now :
  st_pending (fst r) = [] -> fst (with_purge r now) = fst r.
Proof. intros H. rewrite fst_with_purge, (purge_nil _ now H). reflexivity. Qed.

Lemma st_search_noexp s p now : no_expired s now -> st_pending s = [] -> fst (st_search s p now) = s.
Proof.
  intros Hne Hp. unfold st_search. pose proof (search_state_noexp_state s p now Hne) as H.
  rewrite fst_with_purge_nil; rewrite H; [reflexivity|exact Hp].
Qed.

Lemma get_body_noexp s id now : no_expired s now -> fst (get_body s id now) = s.
Proof.
  intros Hne. unfold get_body. destruct (alookup id (st_facts s)) as [fact|] eqn:El; [|reflexivity].
  rewrite (expire_noexp s id fact now (Hne id fact El)). reflexivity.
Qed.

Lemma st_get_noexp s id now : no_expired s now -> st_pending s = [] -> fst (st_get s id now) = s.
Proof.
  intros Hne Hp. unfold st_get. pose proof (get_body_noexp s id now Hne) as H.
  rewrite fst_with_purge_nil; rewrite H; [reflexivity|exact Hp].
Qed.

Lemma find_ids_idx_noexp s now : no_expired s now ->
  forall ids acc, fst (find_ids_idx s ids now acc) = s.
Proof.
  intros Hne. induction ids as [|i r IH]; intros acc; cbn [find_ids_idx]; [reflexivity|].
  destruct (alookup i (st_facts s)) as [fact|] eqn:El; [|reflexivity].
  rewrite (expire_noexp s i fact now (Hne i fact El)).
  destruct (extract_rule fact true) as [[body|]|e|w|]; try reflexivity. apply IH.
Qed.

Lemma find_ids_lin_noexp s ev now : no_expired s now ->
  forall ids acc, fst (find_ids_lin s ids ev now acc) = s.
Proof.
  intros Hne. induction ids as [|i r IH]; intros acc; cbn [find_ids_lin]; [reflexivity|].
  destruct (alookup i (st_facts s)) as [fact|] eqn:El; [|apply IH].
  destruct (jget "rule" fact) as [rule|]; [|apply IH].
  rewrite (expire_noexp s i fact now (Hne i fact El)).
  destruct rule as [| | | | |rm]; try apply IH.
  destruct (alookup "when" rm) as [[| | | | |w]|]; try apply IH.
  destruct (core_match _ ev []) as [[|b bss]|e|w'|]; try reflexivity; apply IH.
Qed.

Lemma do_find_rules_noexp s ev now : no_expired s now -> st_pending s = [] -> fst (do_find_rules s ev now) = s.
Proof.
  intros Hne Hp. unfold do_find_rules.
  match goal with |- fst (with_purge ?X now) = _ => assert (H : fst X = s) end.
  { destruct (st_kind s).
    - destruct (pi_search (st_pindex s) ev); try reflexivity. apply find_ids_idx_noexp; exact Hne.
    - apply find_ids_lin_noexp; exact Hne. }
  rewrite fst_with_purge_nil; rewrite H; [reflexivity|exact Hp].
Qed.

Lemma st_find_rules_noexp s ev now : no_expired s now -> st_pending s = [] -> fst (st_find_rules s ev now) = s.
Proof.
  intros Hne Hp. unfold st_find_rules. pose proof (do_find_rules_noexp s ev now Hne Hp) as H.
  destruct (do_find_rules s ev now) as [s1 res]. cbn [fst] in H. subst s1.
  destruct res as [l|e|w|]; reflexivity.
Qed.

(** the purge of a state without expired facts only empties the list *)
Lemma purge_ids_noexp s now : no_expired s now -> forall ids, purge_ids s ids now = (s, Ok tt).
Proof.
  intros Hne. induction ids as [|i r IH]; cbn [purge_ids]; [reflexivity|].
  destruct (alookup i (st_facts s)) as [fact|] eqn:El; [|exact IH].
  rewrite (Hne i fact El). exact IH.
Qed.

Lemma set_pending_same s : set_pending s (st_pending s) = s.
Proof. destruct s; reflexivity. Qed.

Lemma purge_noexp s now : no_expired s now -> purge s now = (set_pending s [], Ok tt).
Proof.
  intros Hne. unfold purge, purge_rounds. cbn [purge_fuel].
  destruct (st_pending s) as [|i ids] eqn:Ep.
  - rewrite <- Ep, set_pending_same. reflexivity.
  - rewrite (purge_ids_noexp (set_pending s []) now Hne (i :: ids)).
    destruct (length (st_facts s)); reflexivity.
Qed.

Lemma with_purge_noexp {A} (r : state * outcome A) now :
  no_expired (fst r) now -> with_purge r now = (set_pending (fst r) [], snd r).
Proof. intros Hne. rewrite with_purge_eq, (purge_noexp _ now Hne). reflexivity. Qed.

(** * Without a storage failure a removal never errs *)

Lemma sset_add_nonempty x l : sset_add x l <> [].
Proof. destruct l as [|y r]; cbn [sset_add]; [discriminate|]. destruct (String.compare x y); discriminate. Qed.

Lemma dw_terms_nonempty x : extract_terms (dw_pattern x) <> [].
Proof.
  unfold extract_terms, dw_pattern. rewrite raw_obj. cbn [raw_kvs].
  change (key_terms "deleteWith") with ["deleteWith"]. cbn [app fold_right].
  apply sset_add_nonempty.
Qed.

Lemma rem_head_cont s id : will_fail s = false -> snd (rem_head s id) = true.
Proof.
  unfold rem_head, will_fail. intros Hw. destruct (st_kind s).
  - destruct (alookup id (st_facts s)) as [fact|]; [|reflexivity].
    destruct (idx_drop_fields s id fact) as (_ & _ & _ & F4 & F5 & _).
    unfold store_call. rewrite F4, F5, Hw. reflexivity.
  - unfold store_call. rewrite Hw. reflexivity.
Qed.

Lemma ok_or_oof_wrapb {A B} (r : state * outcome A) (b : B) :
  ok_or_oof (snd r) -> ok_or_oof (snd (wrapb r b)).
Proof. destruct r as [s [a|e|w|]]; cbn; auto. Qed.

(** the search for dependents always answers (its pattern has a term, and the
    matcher always answers on it) *)
Lemma search_ids_dw_ok x now : forall ids s acc,
  exists res, snd (search_ids s ids (dw_pattern x) now acc) = Ok res.
Proof.
  induction ids as [|i r IH]; intros s acc; cbn [search_ids].
  - eexists; reflexivity.
  - destruct (alookup i (st_facts s)) as [fact|]; [|apply IH].
    destruct (expire s i fact now) as [s1 expired].
    destruct expired; [apply IH|].
    destruct (core_match_dw_ok x fact) as [res ->]. destruct res; apply IH.
Qed.

Lemma search_state_dw_ok x s now :
  exists res, snd (search_state s (dw_pattern x) now) = Ok res.
Proof.
  unfold search_state. destruct (st_kind s).
  - destruct (ti_search_spec (st_tindex s) _ (dw_terms_nonempty x)) as (ids & -> & _).
    apply search_ids_dw_ok.
  - apply search_ids_dw_ok.
Qed.

Section NoFail.
  Variable rr : state -> string -> Z -> state * outcome bool.
  Variable now : Z.
  Hypothesis rr_Sub : forall s id now, Sub s (fst (rr s id now)).
  Hypothesis rr_ok : forall s j, st_fail s = None -> ok_or_oof (snd (rr s j now)).

  Lemma rem_list_nofail skip : forall ids s, st_fail s = None ->
    ok_or_oof (snd (rem_list rr s ids skip now)).
  Proof.
    induction ids as [|j r IH]; intros s Hf; cbn [rem_list]; [exact I|].
    destruct (skipped skip j); [apply IH; exact Hf|].
    pose proof (rr_ok s j Hf) as Ho. pose proof (rr_Sub s j now) as HS.
    destruct (rr s j now) as [s1 o]. cbn [fst snd] in *.
    destruct o as [b|e|w|]; try contradiction; [|exact I].
    apply IH. destruct HS as (_ & _ & HS & _). congruence.
  Qed.

  Lemma delete_dependencies_nofail s id : st_fail s = None ->
    ok_or_oof (snd (delete_dependencies rr s id now)).
  Proof.
    intros Hf. unfold delete_dependencies.
    destruct (search_state_dw_ok id s now) as [res Hres].
    pose proof (search_state_Sub s (dw_pattern id) now) as HS.
    destruct (search_state s (dw_pattern id) now) as [s1 o]. cbn [fst snd] in *. subst o.
    apply rem_list_nofail. destruct HS as (_ & _ & HS & _). congruence.
  Qed.

  Lemma rem_body_nofail s id : st_fail s = None -> ok_or_oof (snd (rem_body rr s id now)).
  Proof.
    intros Hf. rewrite rem_body_head.
    rewrite rem_head_cont by (unfold will_fail; rewrite Hf; reflexivity).
    apply ok_or_oof_wrapb. apply delete_dependencies_nofail.
    destruct (Sub_head s id) as (_ & _ & HS & _). congruence.
  Qed.
End NoFail.

Lemma rem_fuel_nofail now : forall fuel s id, st_fail s = None ->
  ok_or_oof (snd (rem_fuel fuel s id now)).
Proof.
  induction fuel as [|f IH]; intros s id Hf; cbn [rem_fuel]; [exact I|].
  apply rem_body_nofail; auto. intros s0 j now0. apply rem_fuel_Sub.
Qed.

Lemma st_rem_ok_nofail s id now : st_fail s = None -> exists had, snd (st_rem s id now) = Ok had.
Proof.
  intros Hf. pose proof (st_rem_not_oof s id now) as Hn.
  pose proof (rem_fuel_nofail now (cascade_fuel s) s id Hf) as Ho.
  unfold st_rem in *. destruct (snd (rem_fuel (cascade_fuel s) s id now)) as [had|e|w|];
    try contradiction; eauto.
Qed.

(** * A successful removal purges the id it names *)

Lemma rem_head_purged s id :
  snd (rem_head s id) = true -> (st_kind s = Linear \/ alookup id (st_facts s) <> None) ->
  alookup id (st_facts (fst (rem_head s id))) = None /\
  alookup id (st_store (fst (rem_head s id))) = None.
Proof.
  unfold rem_head. destruct (st_kind s) eqn:Hk.
  - intros Hc [Hl|Hl]; [discriminate|].
    destruct (alookup id (st_facts s)) as [fact|] eqn:El; [|congruence].
    pose proof (facts_idx_drop s id fact) as F0.
    revert Hc. unfold store_call.
    destruct (match st_fail (idx_drop s id fact) with
              | Some n => Nat.eqb n (st_calls (idx_drop s id fact)) | None => false end);
      cbn [fst snd]; [discriminate|]. intros _.
    cbn [st_facts st_store set_store]. rewrite F0. split; apply alookup_aremove_same.
  - intros Hc _. revert Hc. unfold store_call.
    destruct (match st_fail s with Some n => Nat.eqb n (st_calls s) | None => false end);
      cbn [fst snd]; [discriminate|]. intros _.
    cbn [st_facts st_store set_store set_facts]. split; apply alookup_aremove_same.
Qed.

Lemma rem_fuel_purges fuel s id now s' had :
  rem_fuel fuel s id now = (s', Ok had) ->
  (st_kind s = Linear \/ alookup id (st_facts s) <> None) ->
  alookup id (st_facts s') = None /\ alookup id (st_store s') = None.
Proof.
  destruct fuel as [|f]; cbn [rem_fuel]; [discriminate|].
  rewrite rem_body_head. intros H Hc.
  destruct (snd (rem_head s id)) eqn:Ec; [|discriminate].
  destruct (rem_head_purged s id Ec Hc) as [H1 H2].
  pose proof (delete_dependencies_R Sub Sub_refl Sub_trans Sub_pending (rem_fuel f) (rem_fuel_Sub f)
                (fst (rem_head s id)) id now) as HS.
  rewrite <- (fst_wrapb _ (had_fact s id)) in HS. rewrite H in HS. cbn [fst] in HS.
  split; [eapply Sub_facts_None|eapply Sub_store_None]; eassumption.
Qed.

Lemma st_rem_purges s id now s' had :
  st_rem s id now = (s', Ok had) ->
  (st_kind s = Linear \/ alookup id (st_facts s) <> None) ->
  alookup id (st_facts s') = None /\ alookup id (st_store s') = None.
Proof. apply rem_fuel_purges. Qed.

(** * B4: get *)

Lemma st_get_snd s id now : snd (st_get s id now) = snd (get_body s id now).
Proof. unfold st_get. apply snd_with_purge. Qed.

Lemma st_get_Ok_iff s id now fact :
  snd (st_get s id now) = Ok fact <->
  alookup id (st_facts s) = Some fact /\ fact_expired fact now = false.
Proof.
  rewrite st_get_snd. unfold get_body. destruct (alookup id (st_facts s)) as [f|] eqn:El.
  - unfold expire. destruct (fact_expired f now) eqn:Ex; cbn [snd].
    + split; [discriminate|]. intros [H1 H2]; injection H1 as ->; congruence.
    + split.
      * intros H. injection H as ->. split; [reflexivity|exact Ex].
      * intros [H _]. injection H as ->. reflexivity.
  - cbn [snd]. split; [discriminate|]. intros [H _]. discriminate.
Qed.

(** * The purge that ends a read removes the expired item the read met *)

(** a removal takes an item out of the memory AND out of the storage (when no
    storage call fails) *)
Definition Both (s s' : state) : Prop :=
  Sub s s' /\
  (st_fail s = None -> forall j, alookup j (st_facts s) <> None ->
     alookup j (st_facts s') = None -> alookup j (st_store s') = None).

Lemma Both_refl s : Both s s.
Proof. split; [apply Sub_refl|]. intros _ j H1 H2. congruence. Qed.

Lemma Both_trans a b c : Both a b -> Both b c -> Both a c.
Proof.
  intros [S1 B1] [S2 B2]. split; [eapply Sub_trans; eassumption|].
  intros Hf j Hj Hc.
  assert (Hfb : st_fail b = None) by (destruct S1 as (_ & _ & H & _); congruence).
  destruct (alookup j (st_facts b)) as [f|] eqn:Eb.
  - apply (B2 Hfb j); [congruence|exact Hc].
  - eapply Sub_store_None; [exact S2|]. apply (B1 Hf j Hj Eb).
Qed.

Lemma Both_pending s (p : list string) : Both s (set_pending s p).
Proof. split; [apply Sub_pending|]. intros _ j H1 H2. cbn [st_facts set_pending] in H2. congruence. Qed.

Lemma Both_head s id : Both s (fst (rem_head s id)).
Proof.
  split; [apply Sub_head|]. intros Hf j Hj.
  unfold rem_head. destruct (st_kind s) eqn:Hk.
  - destruct (alookup id (st_facts s)) as [fact|] eqn:El; [|cbn [fst]; congruence].
    destruct (idx_drop_fields s id fact) as (F1 & F2 & F3 & F4 & F5 & _).
    pose proof (facts_idx_drop s id fact) as F0.
    unfold store_call. rewrite F5, Hf. cbn [fst st_facts st_store set_store]. rewrite F0, F2.
    rewrite !alookup_aremove. destruct (String.eqb j id); [reflexivity|congruence].
  - unfold store_call. rewrite Hf. cbn [fst st_facts st_store set_store set_facts].
    rewrite !alookup_aremove. destruct (String.eqb j id); [reflexivity|congruence].
Qed.

Lemma st_rem_Both s id now : Both s (fst (st_rem s id now)).
Proof. apply (st_rem_R Both Both_refl Both_trans Both_pending Both_head). Qed.
Lemma purge_ids_Both ids s now : Both s (fst (purge_ids s ids now)).
Proof. apply (purge_ids_R Both Both_refl Both_trans Both_pending Both_head). Qed.
Lemma purge_Both s now : Both s (fst (purge s now)).
Proof. apply (purge_R Both Both_refl Both_trans Both_pending Both_head). Qed.

(** one round, no storage failure: every noted id that was present and
    expired is gone from the memory *)
Lemma purge_ids_removes now id : forall ids s,
  st_fail s = None -> In id ids ->
  (forall fact, alookup id (st_facts s) = Some fact -> fact_expired fact now = true) ->
  alookup id (st_facts (fst (purge_ids s ids now))) = None.
Proof.
  induction ids as [|i r IH]; intros s Hf Hin Hx; [destruct Hin|].
  assert (Hafter : forall s1, Sub s s1 -> alookup id (st_facts s1) = None ->
            alookup id (st_facts (fst (purge_ids s1 r now))) = None).
  { intros s1 HS H1. eapply Sub_facts_None; [|exact H1].
    apply (purge_ids_R Sub Sub_refl Sub_trans Sub_pending Sub_head). }
  assert (Hstep : forall s1, Sub s s1 -> In id r ->
            alookup id (st_facts (fst (purge_ids s1 r now))) = None).
  { intros s1 HS Hr. apply IH; [destruct HS as (_ & _ & H & _); congruence|exact Hr|].
    intros fact Hl. apply Hx. destruct HS as (_ & _ & _ & _ & HF & _). apply HF. exact Hl. }
  cbn [purge_ids].
  destruct (alookup i (st_facts s)) as [fi|] eqn:Eli.
  - destruct (fact_expired fi now) eqn:Exi.
    + destruct (st_rem_ok_nofail s i now Hf) as [had Hok].
      pose proof (st_rem_Sub s i now) as HS.
      destruct (st_rem s i now) as [s1 o] eqn:Er. cbn [fst snd] in *. subst o.
      destruct (st_rem_purges s i now s1 had Er) as [H1 _]; [right; congruence|].
      destruct Hin as [->|Hr]; [apply Hafter; assumption|apply Hstep; assumption].
    + destruct Hin as [->|Hr]; [|apply Hstep; [apply Sub_refl|exact Hr]].
      rewrite (Hx fi Eli) in Exi. discriminate.
  - destruct Hin as [->|Hr]; [apply Hafter; [apply Sub_refl|exact Eli]|apply Hstep; [apply Sub_refl|exact Hr]].
Qed.

Lemma purge_fuel_removes now id : forall fuel s,
  st_fail s = None -> In id (st_pending s) ->
  (forall fact, alookup id (st_facts s) = Some fact -> fact_expired fact now = true) ->
  snd (purge_fuel fuel s now) = Ok tt ->
  alookup id (st_facts (fst (purge_fuel fuel s now))) = None.
Proof.
  destruct fuel as [|f]; intros s Hf Hin Hx; cbn [purge_fuel].
  - destruct (st_pending s); [destruct Hin|discriminate].
  - destruct (st_pending s) as [|i ids] eqn:Ep; [destruct Hin|].
    pose proof (purge_ids_removes now id (i :: ids) (set_pending s []) Hf Hin Hx) as H1.
    destruct (purge_ids (set_pending s []) (i :: ids) now) as [s1 [u|e|w|]]; cbn [fst snd] in *;
      try discriminate.
    intros _. eapply Sub_facts_None; [|exact H1].
    apply (purge_fuel_R Sub Sub_refl Sub_trans Sub_pending Sub_head).
Qed.

Lemma purge_removes s id now :
  st_fail s = None -> In id (st_pending s) ->
  (forall fact, alookup id (st_facts s) = Some fact -> fact_expired fact now = true) ->
  alookup id (st_facts (fst (purge s now))) = None.
Proof. intros Hf Hin Hx. apply purge_fuel_removes; auto. apply purge_ok. Qed.

Lemma st_get_expired s id now fact :
  alookup id (st_facts s) = Some fact -> fact_expired fact now = true ->
  snd (st_get s id now) = Err "notfound" /\
  (st_fail s = None ->
     alookup id (st_facts (fst (st_get s id now))) = None /\
     alookup id (st_store (fst (st_get s id now))) = None).
Proof.
  intros El Ex. unfold st_get. rewrite with_purge_eq. unfold get_body. rewrite El.
  rewrite (expire_true s id fact now Ex). cbn [fst snd]. split; [reflexivity|].
  intros Hf.
  assert (H1 : alookup id (st_facts (fst (purge (note_expired s id) now))) = None).
  { apply purge_removes; [exact Hf|cbn [st_pending note_expired set_pending]; apply in_or_app; right; left; reflexivity|].
    cbn [st_facts note_expired set_pending]. intros f Hl. congruence. }
  split; [exact H1|].
  destruct (purge_Both (note_expired s id) now) as [_ HB].
  apply HB; [exact Hf|cbn [st_facts note_expired set_pending]; congruence|exact H1].
Qed.
