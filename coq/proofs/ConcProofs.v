(** C11 and C12: the theorems. *)
From Coq Require Import Lia.
From Verif Require Import Json Outcome Match PatIndex State Location SysOps CorrLoc CorrConc.
From Verif Require Import StateSpec AssocLemmas GateProofs LocSpec LocBasics LocRules LocWalk LocProofs.
From Verif Require Import LockTable ConcSpec.

(** * A. C11 *)

(** ** A walk from a location without parents stays at that location *)

Lemma walk_lone (A : Type) (visit : string -> loc -> loc * outcome A) sy name now l :
  sys_get sy name = Some l -> snd (get_parents l now) = Ok [] ->
  do_ancestors A visit (anc_fuel sy) sy name now [] [] [] =
  let l1 := fst (get_parents l now) in
  let sy3 := sys_set (sys_set sy name l1) name (fst (visit name l1)) in
  match snd (visit name l1) with
  | Ok a => (sy3, [name], Ok [(name, a)])
  | Err x => (sy3, [name], Err x)
  | Panic w => (sy3, [name], Panic w)
  | OutOfFuel => (sy3, [name], OutOfFuel)
  end.
Proof.
  intros Hg Hp. unfold anc_fuel.
  replace (length sy + 2)%nat with (Datatypes.S (length sy + 1)) by lia.
  rewrite do_ancestors_S. cbn [mem_str]. rewrite Hg.
  destruct (get_parents l now) as [l1 o]. cbn [fst snd] in *. subst o.
  rewrite go_par_nil. cbn [finish]. rewrite sys_get_set_same.
  destruct (visit name l1) as [l3 r]. cbn [fst snd]. destruct r; reflexivity.
Qed.

Lemma lone_no_reach sy name now other :
  (forall l, sys_get sy name = Some l -> snd (get_parents l now) = Ok []) ->
  reach sy now name other -> other = name.
Proof.
  intros Hl Hr. inversion Hr as [|a b c Hp _]; subst; [reflexivity|].
  destruct Hp as (l & ps & Hg & Hps & Hin). rewrite (Hl l Hg) in Hps.
  injection Hps as <-. destruct Hin.
Qed.

(** ** One step: frame and locality *)

Lemma lone_frame sy q other :
  lone sy q -> other <> r_loc q -> sys_get (sys_do sy q) other = sys_get sy other.
Proof.
  intros Hl Hne. unfold sys_do.
  destruct (sys_step sy (r_loc q) (r_ctx q) (r_env q) (r_op q)) as [sy' r] eqn:E. cbn [fst].
  destruct (is_walk (r_op q)) eqn:Ew.
  - destruct Hl as [Hl|Hl]; [congruence|].
    eapply walk_touches_only_ancestors; [exact Ew|exact E|].
    intros Hr. apply Hne. eapply lone_no_reach; eassumption.
  - eapply step_frame_local; [exact Ew|exact E|exact Hne].
Qed.

Lemma with_loc_local {A} sy1 sy2 name (f : loc -> loc * outcome A) :
  sys_get sy1 name = sys_get sy2 name ->
  snd (with_loc sy1 name f) = snd (with_loc sy2 name f) /\
  sys_get (fst (with_loc sy1 name f)) name = sys_get (fst (with_loc sy2 name f)) name.
Proof.
  intros H. unfold with_loc. rewrite H.
  destruct (sys_get sy2 name) as [l|] eqn:E2.
  - destruct (f l) as [l' r]. cbn [fst snd]. rewrite !sys_get_set_same. split; reflexivity.
  - cbn [fst snd]. split; [reflexivity|congruence].
Qed.

Definition step_agree (sy1 sy2 : system) (name : string) (c : ctx) (e : env) (op : lop) : Prop :=
  snd (sys_step sy1 name c e op) = snd (sys_step sy2 name c e op) /\
  sys_get (fst (sys_step sy1 name c e op)) name = sys_get (fst (sys_step sy2 name c e op)) name.

Lemma search_lone_local sy1 sy2 name c e p l :
  sys_get sy1 name = Some l -> sys_get sy2 name = Some l ->
  snd (get_parents l (e_now e)) = Ok [] ->
  snd (sys_search sy1 name c e p true) = snd (sys_search sy2 name c e p true) /\
  sys_get (fst (sys_search sy1 name c e p true)) name = sys_get (fst (sys_search sy2 name c e p true)) name.
Proof.
  intros H1 H2 Hp. rewrite !sys_search_inherited. cbv zeta. cbn [fst snd].
  rewrite (walk_lone _ _ sy1 name (e_now e) l H1 Hp), (walk_lone _ _ sy2 name (e_now e) l H2 Hp).
  cbv zeta. unfold w_out, w_sys.
  destruct (snd (loc_search_local (fst (get_parents l (e_now e))) c e p)); cbn [fst snd];
    rewrite !sys_get_set_same; split; reflexivity.
Qed.

Lemma find_rules_lone_local sy1 sy2 name c e ev l :
  sys_get sy1 name = Some l -> sys_get sy2 name = Some l ->
  snd (get_parents l (e_now e)) = Ok [] ->
  snd (sys_find_rules sy1 name c e ev) = snd (sys_find_rules sy2 name c e ev) /\
  sys_get (fst (sys_find_rules sy1 name c e ev)) name = sys_get (fst (sys_find_rules sy2 name c e ev)) name.
Proof.
  intros H1 H2 Hp. unfold sys_find_rules.
  rewrite (walk_lone _ _ sy1 name (e_now e) l H1 Hp), (walk_lone _ _ sy2 name (e_now e) l H2 Hp).
  cbv zeta.
  destruct (snd (loc_rules_local (fst (get_parents l (e_now e))) c e ev)) as [a|x|w|];
    try (cbn [fst snd]; rewrite !sys_get_set_same; split; reflexivity).
  destruct (merge_rules [(name, a)] []) as [rules|x|w|];
    try (cbn [fst snd]; rewrite !sys_get_set_same; split; reflexivity).
  rewrite !sys_get_set_same.
  destruct (find_children _ rules ev (e_now e) []) as [l' res]. cbn [fst snd].
  rewrite !sys_get_set_same. split; reflexivity.
Qed.

Lemma lone_local sy1 sy2 q :
  lone sy1 q -> sys_get sy1 (r_loc q) = sys_get sy2 (r_loc q) ->
  step_agree sy1 sy2 (r_loc q) (r_ctx q) (r_env q) (r_op q).
Proof.
  intros Hl Hg. unfold step_agree.
  destruct q as [name c e op]. cbn [r_loc r_ctx r_env r_op] in *.
  destruct op; cbn [sys_step];
    try (match goal with |- context [with_loc sy1 name ?f] =>
           destruct (with_loc_local sy1 sy2 name f Hg) as [Hs Hf];
           destruct (with_loc sy1 name f) as [sa ra]; destruct (with_loc sy2 name f) as [sb rb];
           cbn [fst snd] in *; subst; split; [reflexivity|assumption] end).
  - (* LSearch *)
    rewrite <- Hg. destruct (sys_get sy1 name) as [l|] eqn:E1; [|cbn [fst snd]; split; [reflexivity|congruence]].
    destruct inherited.
    + destruct Hl as [Hl|Hl]; [discriminate|]. cbn [r_loc r_env] in Hl.
      destruct (search_lone_local sy1 sy2 name c e pattern l E1 (eq_sym Hg) (Hl l E1)) as [Hs Hf].
      destruct (sys_search sy1 name c e pattern true) as [sa ra].
      destruct (sys_search sy2 name c e pattern true) as [sb rb].
      cbn [fst snd] in *. subst. split; [reflexivity|assumption].
    + destruct (local_search_ignores_parents sy1 sy2 name c e pattern) as [Hs Hf]; [congruence|].
      destruct (sys_search sy1 name c e pattern false) as [sa ra].
      destruct (sys_search sy2 name c e pattern false) as [sb rb].
      cbn [fst snd] in *. subst. split; [reflexivity|assumption].
  - (* LEvent *)
    rewrite <- Hg. destruct (sys_get sy1 name) as [l|] eqn:E1; [|cbn [fst snd]; split; [reflexivity|congruence]].
    destruct Hl as [Hl|Hl]; [discriminate|]. cbn [r_loc r_env] in Hl.
    destruct (find_rules_lone_local sy1 sy2 name c e event l E1 (eq_sym Hg) (Hl l E1)) as [Hs Hf].
    destruct (sys_find_rules sy1 name c e event) as [sa ra].
    destruct (sys_find_rules sy2 name c e event) as [sb rb].
    cbn [fst snd] in *. subst. split; [reflexivity|assumption].
Qed.

Lemma lone_transfer sy1 sy2 q :
  sys_get sy1 (r_loc q) = sys_get sy2 (r_loc q) -> lone sy1 q -> lone sy2 q.
Proof.
  intros Hg [H|H]; [left; exact H|right]. intros l Hl. apply H. congruence.
Qed.

(** ** Histories *)

Lemma results_of_cons a sy q h :
  results_of a sy (q :: h) =
  if String.eqb (r_loc q) a
  then snd (sys_step sy (r_loc q) (r_ctx q) (r_env q) (r_op q)) :: results_of a (sys_do sy q) h
  else results_of a (sys_do sy q) h.
Proof.
  unfold results_of. cbn [results List.combine filter fst].
  destruct (String.eqb (r_loc q) a); reflexivity.
Qed.

Lemma interleave_gen : forall h sy sya a,
  unrelated sy h -> sys_get sy a = sys_get sya a ->
  sys_get (sys_run sy h) a = sys_get (sys_run sya (proj a h)) a /\
  results_of a sy h = results sya (proj a h) /\
  unrelated sya (proj a h).
Proof.
  induction h as [|q h IH]; intros sy sya a Hu Hg.
  - cbn. repeat split; assumption.
  - destruct Hu as [Hl Hu]. rewrite results_of_cons.
    cbn [proj filter sys_run fold_left]. fold (proj a h). fold (sys_run (sys_do sy q) h).
    destruct (String.eqb_spec (r_loc q) a) as [Ha|Hne].
    + subst a.
      destruct (lone_local sy sya q Hl Hg) as [Hs Hf].
      cbn [sys_run fold_left results unrelated]. fold (sys_run (sys_do sya q) (proj (r_loc q) h)).
      destruct (IH (sys_do sy q) (sys_do sya q) (r_loc q) Hu Hf) as (H1 & H2 & H3).
      split; [exact H1|]. split; [rewrite Hs, H2; reflexivity|].
      split; [eapply lone_transfer; eassumption|exact H3].
    + apply IH; [exact Hu|].
      rewrite lone_frame; [exact Hg|exact Hl|]. intros Heq. apply Hne. symmetry. exact Heq.
Qed.

Theorem no_walks_unrelated : no_walks_unrelated_statement.
Proof.
  intros h. induction h as [|q h IH]; intros sy Hn; [exact I|].
  split.
  - left. apply Hn. left; reflexivity.
  - apply IH. intros q' Hq'. apply Hn. right; exact Hq'.
Qed.

Theorem interleave_equiv_sequential : interleave_equiv_sequential_statement.
Proof. intros sy h a Hu. apply (interleave_gen h sy sy a Hu eq_refl). Qed.

Theorem interleave_results_sequential : interleave_results_sequential_statement.
Proof. intros sy h a Hu. apply (interleave_gen h sy sy a Hu eq_refl). Qed.

Theorem unrelated_proj : unrelated_proj_statement.
Proof. intros sy h a Hu. apply (interleave_gen h sy sy a Hu eq_refl). Qed.

Theorem any_two_interleavings_agree : any_two_interleavings_agree_statement.
Proof.
  intros sy h1 h2 Hu1 Hu2 Hp a.
  destruct (interleave_gen h1 sy sy a Hu1 eq_refl) as (A1 & B1 & _).
  destruct (interleave_gen h2 sy sy a Hu2 eq_refl) as (A2 & B2 & _).
  rewrite A1, A2, B1, B2, (Hp a). split; reflexivity.
Qed.

(** ** The index-based reading *)

Lemma results_length : forall h sy, length (results sy h) = length h.
Proof. induction h as [|q h IH]; intros sy; cbn [results length]; [reflexivity|rewrite IH; reflexivity]. Qed.

Lemma nth_filter_pos {A B} (p : A -> bool) : forall (h : list A) (rs : list B) k q,
  length rs = length h -> nth_error h k = Some q -> p q = true ->
  nth_error (map snd (filter (fun qr => p (fst qr)) (List.combine h rs))) (length (filter p (firstn k h))) =
  nth_error rs k /\
  nth_error (filter p h) (length (filter p (firstn k h))) = Some q.
Proof.
  induction h as [|x h IH]; intros rs k q Hlen Hk Hp.
  - destruct k; discriminate.
  - destruct rs as [|r rs]; [discriminate|]. cbn [length] in Hlen. injection Hlen as Hlen.
    destruct k as [|k].
    + cbn in Hk. injection Hk as ->. cbn [firstn filter length List.combine fst]. rewrite Hp. cbn. split; reflexivity.
    + cbn [nth_error] in Hk. cbn [firstn filter List.combine fst].
      destruct (IH rs k q Hlen Hk Hp) as [H1 H2].
      destruct (p x); cbn [map snd length nth_error]; split; assumption.
Qed.

Theorem interleave_result_at : interleave_result_at_statement.
Proof.
  intros sy h k q Hu Hk. unfold pos_in_proj. rewrite Hk.
  destruct (nth_filter_pos (fun x => String.eqb (r_loc x) (r_loc q)) h (results sy h) k q
              (results_length h sy) Hk (String.eqb_refl _)) as [H1 H2].
  split; [|exact H2].
  rewrite <- (interleave_results_sequential sy h (r_loc q) Hu). unfold results_of, proj. symmetry. exact H1.
Qed.

(** ** Deciding [unrelated] on a concrete history; an instance; and why the
    hypothesis is needed *)

Lemma lone_b_true sy q : lone_b sy q = true -> lone sy q.
Proof.
  unfold lone_b, lone. destruct (is_walk (r_op q)); cbn [negb orb]; [|left; reflexivity].
  intros H. right. intros l Hl. rewrite Hl in H.
  destruct (snd (get_parents l (e_now (r_env q)))) as [[|p ps]|x|w|]; try discriminate. reflexivity.
Qed.

Lemma unrelated_b_true : forall h sy, unrelated_b sy h = true -> unrelated sy h.
Proof.
  induction h as [|q h IH]; intros sy H; [exact I|].
  cbn [unrelated_b] in H. apply andb_prop in H. destruct H as [H1 H2].
  split; [apply lone_b_true; exact H1|apply IH; exact H2].
Qed.

Definition rq (now : Z) (a : string) (op : lop) : request :=
  mkReq a (mkCtx "" "") (mkEnv now "fresh" None) op.

Definition cx_loc (k : skind) : loc := mkLoc (empty_state k false) false 100.
Definition cx_fact : json := JObj [("x", JStr "1")].
Definition cx_pat : json := JObj [("x", JStr "?v")].
Definition cx_rule : json :=
  JObj [("action", JObj [("code", JStr "1")]); ("when", JObj [("pattern", cx_pat)])].

(** two locations (one indexed, one linear), no parents *)
Definition cx_sy0 : system := sys_set (sys_set [] "A" (cx_loc Indexed)) "B" (cx_loc Linear).

(** an interleaving of writes, removals, local and inherited searches, events
    and an expiring fact (walks are to locations without parents) *)
Definition cx_h : list request :=
  [rq 1 "A" (LAddFact "f1" cx_fact); rq 1 "B" (LAddFact "g1" (JObj [("x", JStr "2"); ("ttl", JNum 3)]));
   rq 2 "A" (LSearch cx_pat true); rq 2 "B" (LAddRule "r1" cx_rule);
   rq 3 "B" (LEvent cx_fact); rq 3 "A" (LRemFact "f1"); rq 9 "B" (LSearch cx_pat true);
   rq 9 "A" (LSearch cx_pat false); rq 9 "B" LSize; rq 9 "A" (LEvent cx_fact)].

Lemma cx_h_unrelated : unrelated cx_sy0 cx_h.
Proof. apply unrelated_b_true. vm_compute. reflexivity. Qed.

Example interleaving_example :
  results cx_sy0 cx_h =
    [RId (Ok "f1"); RId (Ok "g1"); RFound (Ok [("A", [("f1", [[("?v", JStr "1")]])])]);
     RId (Ok "r1"); RChildren (Ok [("r1", [[("?v", JStr "1")]])]); RBool (Ok true);
     RFound (Ok [("B", [])]); RFound (Ok [("A", [])]); RSize (Ok 1); RChildren (Ok [])] /\
  results cx_sy0 (proj "A" cx_h) =
    [RId (Ok "f1"); RFound (Ok [("A", [("f1", [[("?v", JStr "1")]])])]); RBool (Ok true);
     RFound (Ok [("A", [])]); RChildren (Ok [])] /\
  results cx_sy0 (proj "B" cx_h) =
    [RId (Ok "g1"); RId (Ok "r1"); RChildren (Ok [("r1", [[("?v", JStr "1")]])]);
     RFound (Ok [("B", [])]); RSize (Ok 1)] /\
  sys_get (sys_run cx_sy0 cx_h) "A" = sys_get (sys_run cx_sy0 (proj "A" cx_h)) "A" /\
  sys_get (sys_run cx_sy0 cx_h) "B" = sys_get (sys_run cx_sy0 (proj "B" cx_h)) "B".
Proof. vm_compute. repeat split; reflexivity. Qed.

(** the same instance through the theorems *)
Example interleaving_example_by_theorem : forall a,
  sys_get (sys_run cx_sy0 cx_h) a = sys_get (sys_run cx_sy0 (proj a cx_h)) a /\
  results_of a cx_sy0 cx_h = results cx_sy0 (proj a cx_h).
Proof.
  intros a. split.
  - apply interleave_equiv_sequential. exact cx_h_unrelated.
  - apply interleave_results_sequential. exact cx_h_unrelated.
Qed.

(** [unrelated] is needed.  A inherits from B: an inherited search in A sees
    (and, through expiry, changes) B, so neither the results addressed to A
    nor the final state of B are those of the per-location runs. *)
Definition bad_sy0 : system := sys_do cx_sy0 (rq 1 "A" (LSetParents ["B"])).
Definition bad_h : list request :=
  [rq 1 "B" (LAddFact "g1" (JObj [("x", JStr "2"); ("ttl", JNum 3)]));
   rq 2 "A" (LSearch cx_pat true); rq 9 "A" (LSearch cx_pat true)].

Definition count_of (o : option loc) : option nat :=
  match o with Some l => Some (length (st_facts (l_state l))) | None => None end.

Lemma related_interleaving_counterexample :
  unrelated_b bad_sy0 bad_h = false /\
  results_of "A" bad_sy0 bad_h =
    [RFound (Ok [("B", [("g1", [[("?v", JStr "2")]])]); ("A", [])]); RFound (Ok [("B", []); ("A", [])])] /\
  results bad_sy0 (proj "A" bad_h) =
    [RFound (Ok [("B", []); ("A", [])]); RFound (Ok [("B", []); ("A", [])])] /\
  count_of (sys_get (sys_run bad_sy0 bad_h) "B") = Some 0%nat /\
  count_of (sys_get (sys_run bad_sy0 (proj "B" bad_h)) "B") = Some 1%nat.
Proof. vm_compute. repeat split; reflexivity. Qed.

(** * B. C12: the oracle *)

(** ** [advance], [head_enabled], [total_ops] as plain recursions *)

Fixpoint adv (cl : list (list json)) (i : nat) : list (list json) :=
  match cl, i with
  | [], _ => []
  | c :: r, O => tl c :: r
  | c :: r, S i' => c :: adv r i'
  end.

Lemma advance_gen i : forall cl s,
  map (fun jc : nat * list json => let '(j, c) := jc in if Nat.eqb j i then tl c else c)
      (List.combine (seq s (length cl)) cl) =
  if (i <? s)%nat then cl else adv cl (i - s).
Proof.
  induction cl as [|c r IH]; intros s.
  - cbn [length seq List.combine map adv]. destruct (i <? s)%nat; [reflexivity|destruct (i - s)%nat; reflexivity].
  - cbn [length seq List.combine map]. rewrite IH.
    destruct (Nat.ltb_spec i s) as [Hlt|Hge].
    + destruct (Nat.eqb_spec s i); [lia|].
      destruct (Nat.ltb_spec i (S s)); [reflexivity|lia].
    + destruct (Nat.eqb_spec s i) as [->|Hne].
      * rewrite Nat.sub_diag. destruct (Nat.ltb_spec i (S i)); [reflexivity|lia].
      * destruct (Nat.ltb_spec i (S s)); [lia|].
        replace (i - s)%nat with (S (i - S s)) by lia. reflexivity.
Qed.

Lemma advance_adv cl i : advance cl i = adv cl i.
Proof. unfold advance. rewrite advance_gen. cbn. rewrite Nat.sub_0_r. reflexivity. Qed.

Lemma nth_error_adv : forall cl i j,
  nth_error (adv cl i) j = option_map (fun c => if Nat.eqb j i then tl c else c) (nth_error cl j).
Proof.
  induction cl as [|c r IH]; intros i j.
  - destruct i, j; reflexivity.
  - destruct i as [|i], j as [|j]; cbn [adv nth_error option_map Nat.eqb]; try reflexivity.
    + destruct (nth_error r j); reflexivity.
    + apply IH.
Qed.

Theorem advance_spec : advance_spec_statement.
Proof. intros clients i j. rewrite advance_adv. apply nth_error_adv. Qed.

Lemma length_adv : forall cl i, length (adv cl i) = length cl.
Proof. induction cl as [|c r IH]; intros [|i]; cbn [adv length]; try reflexivity. rewrite IH. reflexivity. Qed.

Lemma forallb_indexed {A} (g : nat * A -> bool) : forall (l : list A) s,
  forallb g (List.combine (seq s (length l)) l) = true <->
  forall j x, nth_error l j = Some x -> g ((s + j)%nat, x) = true.
Proof.
  induction l as [|x l IH]; intros s.
  - cbn. split; [intros _ [|j] y H; discriminate|reflexivity].
  - cbn [length seq List.combine forallb]. rewrite andb_true_iff, IH. split.
    + intros [H0 H] [|j] y Hj.
      * cbn in Hj. injection Hj as <-. rewrite Nat.add_0_r. exact H0.
      * cbn in Hj. replace (s + S j)%nat with (S s + j)%nat by lia. apply H. exact Hj.
    + intros H. split.
      * specialize (H 0%nat x eq_refl). rewrite Nat.add_0_r in H. exact H.
      * intros j y Hj. replace (S s + j)%nat with (s + S j)%nat by lia. apply H. exact Hj.
Qed.

Theorem head_enabled_spec : head_enabled_spec_statement.
Proof.
  intros clients i o. unfold head_enabled, rt_ok. rewrite forallb_indexed. cbn [plus]. split.
  - intros H j o' c' Hne Hj. specialize (H j _ Hj). cbn in H.
    destruct (Nat.eqb_spec j i); [contradiction|]. cbn [orb] in H.
    destruct (Z.ltb (op_ret o') (op_inv o)) eqn:E; [discriminate|]. apply Z.ltb_ge in E. exact E.
  - intros H j c Hj. destruct (Nat.eqb_spec j i) as [|Hne]; [reflexivity|]. cbn [orb].
    destruct c as [|o' c']; [reflexivity|]. specialize (H j o' c' Hne Hj).
    destruct (Z.ltb (op_ret o') (op_inv o)) eqn:E; [|reflexivity]. apply Z.ltb_lt in E. lia.
Qed.

Lemma all_empty_spec clients :
  all_empty clients = true <-> forall c, In c clients -> c = [].
Proof.
  unfold all_empty. rewrite forallb_forall. split; intros H c Hc; specialize (H c Hc).
  - destruct c; [reflexivity|discriminate].
  - subst c. reflexivity.
Qed.

Definition tot (cl : list (list json)) : nat := list_sum (map (@length json) cl).

Lemma total_ops_tot cl : total_ops cl = tot cl.
Proof.
  unfold total_ops, tot.
  assert (H : forall l n, fold_left (fun (n : nat) (c : list json) => (n + length c)%nat) l n =
                          (n + list_sum (map (@length json) l))%nat).
  { induction l as [|c l IH]; intros n; cbn [fold_left map]; [cbn; lia|]. rewrite IH. unfold list_sum. cbn [fold_right]. lia. }
  rewrite H. reflexivity.
Qed.

Lemma tot_cons c r : tot (c :: r) = (length c + tot r)%nat.
Proof. reflexivity. Qed.

Lemma tot_adv : forall cl i o c,
  nth_error cl i = Some (o :: c) -> S (tot (adv cl i)) = tot cl.
Proof.
  induction cl as [|x r IH]; intros [|i] o c H; try discriminate.
  - cbn in H. injection H as ->. cbn [adv tl]. rewrite !tot_cons. cbn [length]. lia.
  - cbn [nth_error] in H. cbn [adv]. rewrite !tot_cons, <- (IH i o c H). lia.
Qed.

Lemma tot_empty cl : all_empty cl = true -> tot cl = 0%nat.
Proof.
  rewrite all_empty_spec. induction cl as [|c r IH]; intros H; [reflexivity|].
  rewrite tot_cons, (H c (or_introl eq_refl)), IH; [reflexivity|].
  intros c' Hc'. apply H. right; exact Hc'.
Qed.

Lemma nth_nth_error (cl : list (list json)) i o c :
  nth i cl [] = o :: c -> nth_error cl i = Some (o :: c).
Proof.
  revert i. induction cl as [|x r IH]; intros [|i] H; cbn in *; try discriminate.
  - rewrite H. reflexivity.
  - apply IH. exact H.
Qed.

Lemma nth_error_nth (cl : list (list json)) i x :
  nth_error cl i = Some x -> nth i cl [] = x.
Proof.
  revert i. induction cl as [|y r IH]; intros [|i] H; cbn in *; try discriminate.
  - injection H as ->. reflexivity.
  - apply IH. exact H.
Qed.

(** ** The search, with the loop over the candidates named *)

Definition lin_try (rec : system -> list (list json) -> nat -> nat * option bool)
           (sy : system) (clients : list (list json)) : list nat -> nat -> nat * option bool :=
  fix try (idx : list nat) (budget : nat) : nat * option bool :=
    match idx with
    | [] => (budget, Some false)
    | i :: rest =>
        match budget with
        | O => (O, None)
        | S b =>
            match nth i clients [] with
            | [] => try rest budget
            | o :: _ =>
                if negb (head_enabled clients i o) then try rest budget else
                let '(sy', m) := run_op sy o (jfZ "t" o) in
                if same_res m (jget_d "res" o) then
                  match rec sy' (advance clients i) b with
                  | (b', Some true) => (b', Some true)
                  | (b', None) => (b', None)
                  | (b', Some false) => try rest b'
                  end
                else try rest b
            end
        end
    end.

Lemma lin_S d finals sy clients budget :
  lin (S d) finals sy clients budget =
  if all_empty clients then (budget, Some (finals sy))
  else lin_try (lin d finals) sy clients (seq 0 (length clients)) budget.
Proof. reflexivity. Qed.

Lemma lin_try_nil rec sy clients budget : lin_try rec sy clients [] budget = (budget, Some false).
Proof. destruct budget; reflexivity. Qed.

Lemma lin_try_cons rec sy clients i rest budget :
  lin_try rec sy clients (i :: rest) budget =
  match budget with
  | O => (O, None)
  | S b =>
      match nth i clients [] with
      | [] => lin_try rec sy clients rest budget
      | o :: _ =>
          if negb (head_enabled clients i o) then lin_try rec sy clients rest budget else
          let '(sy', m) := run_op sy o (jfZ "t" o) in
          if same_res m (jget_d "res" o) then
            match rec sy' (advance clients i) b with
            | (b', Some true) => (b', Some true)
            | (b', None) => (b', None)
            | (b', Some false) => lin_try rec sy clients rest b'
            end
          else lin_try rec sy clients rest b
      end
  end.
Proof. destruct budget; reflexivity. Qed.

(** ** The budget only goes down *)

Lemma lin_try_budget rec sy clients :
  (forall sy' cl' b, (fst (rec sy' cl' b) <= b)%nat) ->
  forall idx budget, (fst (lin_try rec sy clients idx budget) <= budget)%nat.
Proof.
  intros Hrec. induction idx as [|i rest IH]; intros budget.
  - rewrite lin_try_nil. cbn. lia.
  - rewrite lin_try_cons. destruct budget as [|b]; [cbn; lia|].
    destruct (nth i clients []) as [|o c]; [apply IH|].
    destruct (negb (head_enabled clients i o)); [apply IH|].
    destruct (run_op sy o (jfZ "t" o)) as [sy' m].
    destruct (same_res m (jget_d "res" o)).
    + pose proof (Hrec sy' (advance clients i) b) as Hr.
      destruct (rec sy' (advance clients i) b) as [b' [[|]|]]; cbn [fst] in *; try lia.
      pose proof (IH b'). lia.
    + pose proof (IH b). lia.
Qed.

Theorem lin_budget_monotone : lin_budget_monotone_statement.
Proof.
  intros depth. induction depth as [|d IH]; intros finals sy clients budget.
  - cbn. lia.
  - rewrite lin_S. destruct (all_empty clients); [cbn; lia|].
    apply lin_try_budget. intros sy' cl' b. apply IH.
Qed.

(** ** Soundness *)

Lemma lin_try_sound finals rec sy clients :
  (forall sy' cl' bu b', rec sy' cl' bu = (b', Some true) -> exists order, linearization sy' cl' order finals) ->
  forall idx budget b,
    lin_try rec sy clients idx budget = (b, Some true) ->
    exists order, linearization sy clients order finals.
Proof.
  intros Hrec. induction idx as [|i rest IH]; intros budget b H.
  - rewrite lin_try_nil in H. discriminate.
  - rewrite lin_try_cons in H. destruct budget as [|bu]; [discriminate|].
    destruct (nth i clients []) as [|o c] eqn:En; [eapply IH; exact H|].
    destruct (head_enabled clients i o) eqn:Eh; cbn [negb] in H; [|eapply IH; exact H].
    destruct (run_op sy o (jfZ "t" o)) as [sy' m] eqn:Er.
    destruct (same_res m (jget_d "res" o)) eqn:Es; [|eapply IH; exact H].
    destruct (rec sy' (advance clients i) bu) as [b' [[|]|]] eqn:Erec; try discriminate.
    + destruct (Hrec _ _ _ _ Erec) as [order Ho].
      exists (i :: order). cbn [linearization]. exists o, c.
      split; [apply nth_nth_error; exact En|].
      split; [apply head_enabled_spec; exact Eh|].
      rewrite Er. cbn [fst snd]. split; assumption.
    + eapply IH; exact H.
Qed.

Theorem lin_sound : lin_sound_statement.
Proof.
  intros depth. induction depth as [|d IH]; intros finals sy clients budget b H.
  - discriminate.
  - rewrite lin_S in H. destruct (all_empty clients) eqn:Ea.
    + injection H as _ Hf. exists []. split; assumption.
    + eapply lin_try_sound; [|exact H]. intros sy' cl' bu b' Hr. eapply IH; exact Hr.
Qed.

(** ** Completeness when the search finishes within its budget *)

Lemma lin_try_complete finals rec sy clients :
  (forall sy' i o c bu b', nth_error clients i = Some (o :: c) ->
     rec sy' (advance clients i) bu = (b', Some false) ->
     forall order, ~ linearization sy' (advance clients i) order finals) ->
  forall idx budget b,
    lin_try rec sy clients idx budget = (b, Some false) ->
    forall i order, In i idx -> ~ linearization sy clients (i :: order) finals.
Proof.
  intros Hrec. induction idx as [|i rest IH]; intros budget b H j order Hj; [destruct Hj|].
  rewrite lin_try_cons in H. destruct budget as [|bu]; [discriminate|].
  intros Hl. cbn [linearization] in Hl. destruct Hl as (o' & c' & Hn & Hrt & Hres & Hrest).
  destruct (nth i clients []) as [|o c] eqn:En.
  { destruct Hj as [<-|Hj].
    - apply nth_error_nth in Hn. congruence.
    - apply (IH _ _ H j order Hj). exists o', c'. repeat split; assumption. }
  destruct (head_enabled clients i o) eqn:Eh; cbn [negb] in H.
  2:{ destruct Hj as [<-|Hj].
      - apply nth_error_nth in Hn. rewrite En in Hn. injection Hn as <- <-.
        apply head_enabled_spec in Hrt. congruence.
      - apply (IH _ _ H j order Hj). exists o', c'. repeat split; assumption. }
  destruct (run_op sy o (jfZ "t" o)) as [sy' m] eqn:Er.
  destruct (same_res m (jget_d "res" o)) eqn:Es.
  2:{ destruct Hj as [<-|Hj].
      - apply nth_error_nth in Hn. rewrite En in Hn. injection Hn as <- <-.
        rewrite Er in Hres. cbn [snd] in Hres. congruence.
      - apply (IH _ _ H j order Hj). exists o', c'. repeat split; assumption. }
  destruct (rec sy' (advance clients i) bu) as [b' [[|]|]] eqn:Erec; try discriminate.
  destruct Hj as [<-|Hj].
  - pose proof (nth_error_nth _ _ _ Hn) as Hn'. rewrite En in Hn'. injection Hn' as <- <-.
    rewrite Er in Hrest. cbn [fst] in Hrest.
    exact (Hrec sy' i o c bu b' Hn Erec order Hrest).
  - apply (IH _ _ H j order Hj). exists o', c'. repeat split; assumption.
Qed.

Lemma lin_complete_gen : forall depth finals sy clients budget b,
  (tot clients < depth)%nat ->
  lin depth finals sy clients budget = (b, Some false) ->
  forall order, ~ linearization sy clients order finals.
Proof.
  induction depth as [|d IH]; intros finals sy clients budget b Hd H order Hl; [lia|].
  rewrite lin_S in H. destruct (all_empty clients) eqn:Ea.
  - injection H as _ Hf. destruct order as [|i order].
    + destruct Hl as [_ Hl]. congruence.
    + destruct Hl as (o & c & Hn & _). rewrite all_empty_spec in Ea.
      apply nth_error_In in Hn. apply Ea in Hn. discriminate.
  - destruct order as [|i order].
    + destruct Hl as [Hl _]. congruence.
    + assert (Hi : In i (seq 0 (length clients))).
      { destruct Hl as (o & c & Hn & _). apply in_seq. split; [lia|]. cbn.
        apply nth_error_Some. congruence. }
      revert Hl. eapply lin_try_complete; [|exact H|exact Hi].
      intros sy' i' o c bu b' Hn Hr order'. eapply IH; [|exact Hr].
      rewrite advance_adv. pose proof (tot_adv clients i' o c Hn). lia.
Qed.

Theorem lin_complete_within_budget : lin_complete_within_budget_statement.
Proof.
  intros finals sy clients budget b H [order Hl].
  eapply lin_complete_gen; [|exact H|exact Hl]. rewrite total_ops_tot. lia.
Qed.

(** ** Real time: heads are enough when every client is sequential *)

Lemma client_seq_later o1 c o' :
  client_seq (o1 :: c) -> In o' (o1 :: c) -> (op_ret o1 <= op_ret o')%Z.
Proof.
  revert o1. induction c as [|o2 c IH]; intros o1 Hs Hin.
  - destruct Hin as [<-|[]]. lia.
  - destruct Hin as [<-|Hin]; [lia|].
    destruct Hs as (_ & H12 & Hs). pose proof (IH o2 Hs Hin) as H.
    destruct Hs as (H2 & _). lia.
Qed.

Lemma client_seq_tl c : client_seq c -> client_seq (tl c).
Proof. destruct c as [|o r]; [trivial|]. intros (_ & _ & H). exact H. Qed.

Theorem rt_head_implies_all : rt_head_implies_all_statement.
Proof.
  intros clients i o Hseq Hrt j c o' Hne Hj Hin.
  destruct c as [|o1 c']; [destruct Hin|].
  pose proof (Hrt j o1 c' Hne Hj) as H1.
  pose proof (client_seq_later o1 c' o' (Hseq _ (nth_error_In _ _ Hj)) Hin) as H2. lia.
Qed.

(** ** A linearization is a sequential execution of all the operations *)

Lemma nth_as_error (cl : list (list json)) i :
  nth i cl [] = match nth_error cl i with Some x => x | None => [] end.
Proof. revert i. induction cl as [|x r IH]; intros [|i]; cbn; try reflexivity. apply IH. Qed.

Lemma picked_cons clients i rest k o c :
  nth_error clients i = Some (o :: c) ->
  picked clients (i :: rest) k =
  if Nat.eqb i k then o :: picked (advance clients i) rest k else picked (advance clients i) rest k.
Proof.
  intros Hn. unfold picked. cbn [ops_of]. rewrite (nth_error_nth _ _ _ Hn).
  cbn [List.combine filter fst]. destruct (Nat.eqb i k); reflexivity.
Qed.

Theorem linearization_replays : linearization_replays_statement.
Proof.
  intros sy clients order. revert sy clients.
  induction order as [|i rest IH]; intros sy clients finals Hl.
  - destruct Hl as [Ha Hf]. exists sy. cbn [ops_of replay_all length].
    split; [reflexivity|]. split; [exact Hf|].
    split; [rewrite total_ops_tot, (tot_empty _ Ha); reflexivity|].
    intros i Hi. unfold picked. cbn. rewrite all_empty_spec in Ha. symmetry. apply Ha. apply nth_In. exact Hi.
  - destruct Hl as (o & c & Hn & Hrt & Hres & Hrest).
    destruct (IH _ _ _ Hrest) as (sy_end & Hrep & Hf & Hlen & Hpick).
    exists sy_end. cbn [ops_of]. rewrite (nth_error_nth _ _ _ Hn). cbn [replay_all].
    destruct (run_op sy o (jfZ "t" o)) as [sy' m]. cbn [fst snd] in *. rewrite Hres.
    split; [exact Hrep|]. split; [exact Hf|].
    split.
    + cbn [length]. rewrite Hlen, !total_ops_tot, advance_adv. apply (tot_adv _ _ _ _ Hn).
    + intros k Hk. rewrite (picked_cons _ _ _ _ _ _ Hn).
      assert (Hk' : (k < length (advance clients i))%nat) by (rewrite advance_adv, length_adv; exact Hk).
      rewrite (Hpick k Hk'). rewrite !nth_as_error, advance_spec.
      destruct (Nat.eqb_spec i k) as [->|Hne].
      * rewrite Hn. cbn [option_map]. rewrite Nat.eqb_refl. reflexivity.
      * destruct (nth_error clients k) as [ck|]; cbn [option_map]; [|reflexivity].
        destruct (Nat.eqb_spec k i); [congruence|reflexivity].
Qed.

Lemma ops_of_pending : forall order sy clients finals q oq,
  linearization sy clients order finals ->
  nth_error (ops_of clients order) q = Some oq ->
  exists j c, nth_error clients j = Some c /\ In oq c.
Proof.
  induction order as [|i rest IH]; intros sy clients finals q oq Hl Hq.
  - destruct q; discriminate.
  - destruct Hl as (o & c & Hn & _ & _ & Hrest).
    cbn [ops_of] in Hq. rewrite (nth_error_nth _ _ _ Hn) in Hq.
    destruct q as [|q].
    + cbn in Hq. injection Hq as <-. exists i, (o :: c). split; [exact Hn|left; reflexivity].
    + cbn [nth_error] in Hq. destruct (IH _ _ _ _ _ Hrest Hq) as (j & cj & Hj & Hin).
      rewrite advance_spec in Hj.
      destruct (nth_error clients j) as [c0|] eqn:Ej; [|discriminate]. cbn [option_map] in Hj.
      injection Hj as <-. exists j, c0. split; [exact Ej|].
      destruct (Nat.eqb j i); [|exact Hin]. destruct c0; [destruct Hin|right; exact Hin].
Qed.

Lemma client_seq_advance clients i :
  (forall c, In c clients -> client_seq c) -> forall c, In c (advance clients i) -> client_seq c.
Proof.
  intros H c Hc. apply In_nth_error in Hc. destruct Hc as [j Hj]. rewrite advance_spec in Hj.
  destruct (nth_error clients j) as [c0|] eqn:Ej; [|discriminate]. cbn [option_map] in Hj.
  injection Hj as <-. apply nth_error_In in Ej.
  destruct (Nat.eqb j i); [apply client_seq_tl|]; apply H; exact Ej.
Qed.

Theorem linearization_real_time : linearization_real_time_statement.
Proof.
  intros sy clients order. revert sy clients.
  induction order as [|i rest IH]; intros sy clients finals p q op oq Hseq Hl Hpq Hp Hq.
  - destruct p; discriminate.
  - pose proof Hl as Hl0. destruct Hl as (o & c & Hn & Hrt & _ & Hrest).
    cbn [ops_of] in Hp, Hq. rewrite (nth_error_nth _ _ _ Hn) in Hp, Hq.
    destruct q as [|q]; [lia|]. cbn [nth_error] in Hq.
    destruct p as [|p].
    + cbn in Hp. injection Hp as <-.
      destruct (ops_of_pending _ _ _ _ _ _ Hrest Hq) as (j & cj & Hj & Hin).
      rewrite advance_spec in Hj.
      destruct (nth_error clients j) as [c0|] eqn:Ej; [|discriminate]. cbn [option_map] in Hj.
      injection Hj as <-.
      destruct (Nat.eqb_spec j i) as [->|Hne].
      * rewrite Hn in Ej. injection Ej as <-. cbn [tl] in Hin.
        pose proof (Hseq _ (nth_error_In _ _ Hn)) as Hs.
        pose proof (client_seq_later o c oq Hs (or_intror Hin)) as H1.
        destruct Hs as (H0 & _). lia.
      * exact (rt_head_implies_all clients i o Hseq Hrt j c0 oq Hne Ej Hin).
    + cbn [nth_error] in Hp.
      eapply (IH _ _ finals p q op oq); [apply client_seq_advance; exact Hseq|exact Hrest|lia|exact Hp|exact Hq].
Qed.

(** ** What the final observations check *)

Theorem finals_ok_spec : finals_ok_spec_statement.
Proof.
  intros final final_store sy. unfold finals_ok. split.
  - intros H. destruct (replay_all sy final) as [sy1|]; [|discriminate].
    destruct (replay_all (reload_all sy1 _) final_store) as [sy2|] eqn:E2; [|discriminate].
    exists sy1, sy2. split; [reflexivity|exact E2].
  - intros (sy1 & sy2 & H1 & H2). rewrite H1, H2. reflexivity.
Qed.

Theorem replay_all_spec : replay_all_spec_statement.
Proof.
  intros ops. induction ops as [|o r IH]; intros sy sy'.
  - cbn [replay_all fold_left]. split.
    + intros H. injection H as <-. split; [reflexivity|]. intros [|k] o H; discriminate.
    + intros [<- _]. reflexivity.
  - cbn [replay_all fold_left].
    destruct (run_op sy o (jfZ "t" o)) as [sy1 m] eqn:Er. cbn [fst]. split.
    + intros H. destruct (same_res m (jget_d "res" o)) eqn:Es; [|discriminate].
      apply IH in H. destruct H as [H1 H2]. split; [exact H1|].
      intros [|k] o' Hk.
      * cbn in Hk. injection Hk as <-. cbn [firstn fold_left]. rewrite Er. exact Es.
      * cbn [nth_error] in Hk. cbn [firstn fold_left]. rewrite Er. cbn [fst]. apply H2. exact Hk.
    + intros [H1 H2].
      pose proof (H2 0%nat o eq_refl) as H0. cbn [firstn fold_left] in H0. rewrite Er in H0. cbn [snd] in H0.
      rewrite H0. apply IH. split; [exact H1|].
      intros k o' Hk. specialize (H2 (S k) o' Hk). cbn [firstn fold_left] in H2. rewrite Er in H2. exact H2.
Qed.

(** ** The verdict of [check_conc] *)

Theorem check_conc_accept : check_conc_accept_statement.
Proof.
  intros c Hok. unfold check_conc in Hok. cbv zeta in Hok.
  destruct (String.eqb_spec (jfS "crashed" c) "") as [Hc|Hc]; cbn [negb] in Hok; [|discriminate Hok].
  split; [exact Hc|].
  destruct (replay_all (init_system (jfL "locs" c)) (jfL "setup" c)) as [sy1|] eqn:Es; [|discriminate Hok].
  exists sy1. split; [reflexivity|].
  fold (conc_clients c) in Hok. fold (conc_finals c) in Hok.
  destruct (lin (S (total_ops (conc_clients c))) (conc_finals c) sy1 (conc_clients c) (Z.to_nat 20000))
    as [b r] eqn:El.
  destruct r as [[|]|].
  - left. eapply lin_sound. exact El.
  - discriminate Hok.
  - right. split; [reflexivity|].
    unfold check_conc. cbv zeta. rewrite Hc, Es. cbn [String.eqb negb].
    fold (conc_clients c). fold (conc_finals c). rewrite El. reflexivity.
Qed.

Theorem check_conc_reject : check_conc_reject_statement.
Proof.
  intros c sy1 Hok Hc Hs. unfold check_conc in Hok. cbv zeta in Hok.
  rewrite Hc, Hs in Hok. cbn [String.eqb negb] in Hok.
  fold (conc_clients c) in Hok. fold (conc_finals c) in Hok.
  destruct (lin (S (total_ops (conc_clients c))) (conc_finals c) sy1 (conc_clients c) (Z.to_nat 20000))
    as [b r] eqn:El.
  destruct r as [[|]|]; try discriminate Hok.
  eapply lin_complete_within_budget. exact El.
Qed.

(** * C. C12: the lock table *)

Lemma mem_pair_In a l : mem_pair a l = true -> In a l.
Proof.
  unfold mem_pair. rewrite existsb_exists. intros [b [Hb He]].
  unfold pair_eqb in He. apply andb_prop in He. destruct He as [H1 H2].
  apply String.eqb_eq in H1, H2. destruct a, b. cbn [fst snd] in *. subst. exact Hb.
Qed.

Lemma mem_str_In s l : mem_str s l = true -> In s l.
Proof.
  induction l as [|x l IH]; cbn [mem_str]; [discriminate|].
  destruct (String.eqb_spec s x) as [->|Hne]; cbn [orb]; intros H.
  - left; reflexivity.
  - right. apply IH.
    destruct (String.eqb s x) eqn:E; [apply String.eqb_eq in E; contradiction|exact H].
Qed.

Lemma in_top m evs : In (m, evs) lock_table -> is_top m = true -> In (m, evs) top_methods.
Proof. intros H Ht. unfold top_methods. apply filter_In. split; [exact H|exact Ht]. Qed.

Lemma locked_accesses_ok_true : locked_accesses_ok = true.
Proof. vm_compute. reflexivity. Qed.
Lemma balanced_ok_true : balanced_ok = true.
Proof. vm_compute. reflexivity. Qed.
Lemma no_relock_true : no_relock = true.
Proof. vm_compute. reflexivity. Qed.
Lemma fuel_enough_true : fuel_enough = true.
Proof. vm_compute. reflexivity. Qed.
Lemma write_methods_ok_true : write_methods_ok = true.
Proof. vm_compute. reflexivity. Qed.
Lemma mutations_ok_true : mutations_ok = true.
Proof. vm_compute. reflexivity. Qed.
Lemma readers_purge_ok_true : readers_purge_ok = true.
Proof. vm_compute. reflexivity. Qed.

Theorem fact_map_accesses_are_locked : fact_map_accesses_are_locked_statement.
Proof.
  intros m evs Hin Htop t Ht Hp.
  pose proof locked_accesses_ok_true as H. unfold locked_accesses_ok in H.
  rewrite forallb_forall in H. specialize (H (m, evs) (in_top m evs Hin Htop)). cbn [fst snd] in H.
  rewrite forallb_forall in H. specialize (H t Ht). rewrite Hp in H. cbn [negb orb] in H.
  unfold no_lock in H. destruct (te_held t) as [|x r] eqn:Eh; discriminate.
Qed.

Theorem locks_balanced : locks_balanced_statement.
Proof.
  intros m evs Hin Htop. split.
  - pose proof balanced_ok_true as H. unfold balanced_ok in H. rewrite forallb_forall in H.
    specialize (H (m, evs) (in_top m evs Hin Htop)). cbn [fst snd] in H.
    destruct (snd (trace_fuel 8 m evs)); [reflexivity|discriminate].
  - intros t Ht Hl. pose proof no_relock_true as H. unfold no_relock in H. rewrite forallb_forall in H.
    specialize (H (m, evs) (in_top m evs Hin Htop)). cbn [fst snd] in H.
    rewrite forallb_forall in H. specialize (H t Ht). rewrite Hl in H. cbn [negb orb] in H.
    unfold no_lock in H. destruct (te_held t); [reflexivity|discriminate].
Qed.

Lemma hook_lock_context_ok_true : hook_lock_context_ok = true.
Proof. vm_compute. reflexivity. Qed.

Lemma hooks_ctx_ok_priv_at : forall tr priv, hooks_ctx_ok priv tr = true ->
  forall p t, In (p, t) (priv_at priv tr) -> is_hook_call (te_ev t) = true ->
    te_held t = [] \/ (In "w" (te_held t) /\ p = true).
Proof.
  induction tr as [|t0 r IH]; intros priv Hok p t Hin Hh; cbn [priv_at] in Hin.
  - destruct Hin.
  - cbn [hooks_ctx_ok] in Hok.
    destruct (String.eqb (te_ev t0) "call:grantPrivilege") eqn:Eg.
    + destruct Hin as [Heq|Hin].
      * inversion Heq; subst. apply String.eqb_eq in Eg. rewrite Eg in Hh. vm_compute in Hh. discriminate.
      * exact (IH true Hok p t Hin Hh).
    + destruct (String.eqb (te_ev t0) "call:revokePrivilege") eqn:Er.
      * destruct Hin as [Heq|Hin].
        -- inversion Heq; subst. apply String.eqb_eq in Er. rewrite Er in Hh. vm_compute in Hh. discriminate.
        -- exact (IH false Hok p t Hin Hh).
      * apply andb_prop in Hok. destruct Hok as [H1 H2].
        destruct Hin as [Heq|Hin].
        -- inversion Heq; subst. rewrite Hh in H1. cbn [negb orb] in H1.
           apply orb_prop in H1. destruct H1 as [H1|H1].
           ++ left. unfold no_lock in H1. destruct (te_held t); [reflexivity|discriminate].
           ++ right. apply andb_prop in H1. destruct H1 as [H1 H3]. split; [apply mem_str_In; exact H1|exact H3].
        -- exact (IH priv H2 p t Hin Hh).
Qed.

Theorem hook_lock_context : hook_lock_context_statement.
Proof.
  intros m evs Hin Htop p t Hpt Hh.
  pose proof hook_lock_context_ok_true as H. unfold hook_lock_context_ok in H. rewrite forallb_forall in H.
  specialize (H (m, evs) (in_top m evs Hin Htop)). cbn [fst snd] in H.
  exact (hooks_ctx_ok_priv_at _ _ H p t Hpt Hh).
Qed.

Theorem hook_contexts_both_occur : hook_contexts_both_occur_statement.
Proof.
  split.
  - exists "LinearState.Add". eexists. exists false. eexists.
    split; [vm_compute; tauto|]. split; [reflexivity|]. split; [vm_compute; left; reflexivity|].
    split; reflexivity.
  - exists "LinearState.Clear". eexists. exists true. eexists.
    split; [vm_compute; tauto|]. split; [reflexivity|].
    split; [vm_compute; right; right; right; left; reflexivity|].
    split; [reflexivity|]. split; [vm_compute; tauto|reflexivity].
Qed.

Theorem write_methods_take_write_lock : write_methods_take_write_lock_statement.
Proof.
  intros m evs Hin Htop Hw.
  pose proof write_methods_ok_true as H. unfold write_methods_ok in H. rewrite forallb_forall in H.
  specialize (H (m, evs) (in_top m evs Hin Htop)). cbn [fst snd] in H. rewrite Hw in H. cbn [negb orb] in H.
  exact H.
Qed.

Theorem mutations_hold_write_lock : mutations_hold_write_lock_statement.
Proof.
  intros m evs Hin Htop t Ht Hm.
  pose proof mutations_ok_true as H. unfold mutations_ok in H. rewrite forallb_forall in H.
  specialize (H (m, evs) (in_top m evs Hin Htop)). cbn [fst snd] in H.
  rewrite forallb_forall in H. specialize (H t Ht). rewrite Hm in H. cbn [negb orb] in H.
  apply mem_str_In. exact H.
Qed.

Theorem readers_purge_under_write_lock : readers_purge_under_write_lock_statement.
Proof.
  pose proof readers_purge_ok_true as H. unfold readers_purge_ok in H.
  apply andb_prop in H. destruct H as [H1 H2]. split; [|split].
  - intros m Hm. rewrite forallb_forall in H1. specialize (H1 m Hm).
    destruct (tlookup m lock_table) as [evs|]; [|discriminate].
    rewrite existsb_exists in H1. destruct H1 as (t & Ht & Hp).
    unfold is_purge_lock in Hp. apply andb_prop in Hp. destruct Hp as [Hp Hn].
    apply andb_prop in Hp. destruct Hp as [Hp1 Hp2].
    apply String.eqb_eq in Hp1, Hp2.
    exists evs, t. repeat split; try assumption.
    unfold no_lock in Hn. destruct (te_held t); [reflexivity|discriminate].
  - vm_compute. reflexivity.
  - vm_compute. reflexivity.
Qed.

Lemma store_writes_ok_true : store_writes_ok = true.
Proof. vm_compute. reflexivity. Qed.

Theorem store_writes_hold_write_lock : store_writes_hold_write_lock_statement.
Proof.
  intros m evs Hin Htop t Ht Hm.
  pose proof store_writes_ok_true as H. unfold store_writes_ok in H. rewrite forallb_forall in H.
  specialize (H (m, evs) (in_top m evs Hin Htop)). cbn [fst snd] in H.
  rewrite forallb_forall in H. specialize (H t Ht). rewrite Hm in H. cbn [negb orb] in H.
  apply mem_str_In. exact H.
Qed.

(** ** The two phases of Add *)

Theorem add_phases_match_source : add_phases_match_source_statement.
Proof. vm_compute. split; reflexivity. Qed.

Lemma add_prog_indexed id v : add_prog "IndexedState" id v = [Mem id v; Sto id v].
Proof.
  unfold add_prog. change (String.append "IndexedState" ".Add") with "IndexedState.Add".
  rewrite (proj1 add_phases_match_source). reflexivity.
Qed.

Lemma add_prog_linear id v : add_prog "LinearState" id v = [Sto id v; Mem id v].
Proof.
  unfold add_prog. change (String.append "LinearState" ".Add") with "LinearState.Add".
  rewrite (proj2 add_phases_match_source). reflexivity.
Qed.

(** ** Writers as critical sections *)

Theorem add_is_one_critical_section : add_is_one_critical_section_statement.
Proof. vm_compute. split; reflexivity. Qed.

Theorem clear_is_one_critical_section : clear_is_one_critical_section_statement.
Proof. intros m [<-|[<-|[<-|[<-|[]]]]]; vm_compute; reflexivity. Qed.

Theorem rem_is_paired_sections : rem_is_paired_sections_statement.
Proof. vm_compute. split; reflexivity. Qed.

Lemma add_lprog_indexed id v :
  add_lprog "IndexedState" id v = [Acq; Act (Mem id v); Act (Sto id v); Rel].
Proof.
  unfold add_lprog. change (String.append "IndexedState" ".Add") with "IndexedState.Add".
  rewrite (proj1 add_is_one_critical_section). reflexivity.
Qed.

Lemma add_lprog_linear id v :
  add_lprog "LinearState" id v = [Acq; Act (Sto id v); Act (Mem id v); Rel].
Proof.
  unfold add_lprog. change (String.append "LinearState" ".Add") with "LinearState.Add".
  rewrite (proj2 add_is_one_critical_section). reflexivity.
Qed.

Lemma rem_head_indexed : firstn 2 (tl (shape_of "IndexedState.Rem")) = [SMem; SSto].
Proof. vm_compute. reflexivity. Qed.
Lemma rem_head_linear : firstn 2 (tl (shape_of "LinearState.Rem")) = [SSto; SMem].
Proof. vm_compute. reflexivity. Qed.

Lemma rem_pair_indexed id : rem_pair "IndexedState" id = [Act (MemDel id); Act (StoDel id)].
Proof.
  unfold rem_pair. change (String.append "IndexedState" ".Rem") with "IndexedState.Rem".
  rewrite rem_head_indexed. reflexivity.
Qed.

Lemma rem_pair_linear id : rem_pair "LinearState" id = [Act (StoDel id); Act (MemDel id)].
Proof.
  unfold rem_pair. change (String.append "LinearState" ".Rem") with "LinearState.Rem".
  rewrite rem_head_linear. reflexivity.
Qed.

Lemma clear_lprog_any ty : In ty state_types -> clear_lprog ty = [Acq; Act StoClr; Act MemClr; Rel].
Proof.
  intros [<-|[<-|[]]]; unfold clear_lprog.
  - change (String.append "IndexedState" ".Clear") with "IndexedState.Clear".
    rewrite (clear_is_one_critical_section "IndexedState.Clear"); [reflexivity|cbn; tauto].
  - change (String.append "LinearState" ".Clear") with "LinearState.Clear".
    rewrite (clear_is_one_critical_section "LinearState.Clear"); [reflexivity|cbn; tauto].
Qed.

(** ** The lock: well-locked writers never diverge *)

(** a writer that does not hold the lock does not depend on the state *)
Lemma wl_free_indep p st st' : wl false p st -> wl false p st'.
Proof.
  destruct p as [|[| |a] r]; cbn [wl]; intros H.
  - exact H.
  - exact H.
  - destruct H as [H _]. discriminate H.
  - destruct H as [H _]. discriminate H.
Qed.

Definition linv (h : option bool) (p1 p2 : list lstep) (st : mstate) : Prop :=
  match h with
  | None => agree st /\ wl false p1 st /\ wl false p2 st
  | Some true => wl true p1 st /\ wl false p2 st
  | Some false => wl false p1 st /\ wl true p2 st
  end.

Lemma lsched_inv h p1 p2 il :
  lsched h p1 p2 il -> forall st, linv h p1 p2 st -> agree (arun st il).
Proof.
  induction 1 as [|p1 p2 il _ IH|p1 p2 il _ IH|h a p1 p2 il _ IH
                  |p1 p2 il _ IH|p1 p2 il _ IH|h a p1 p2 il _ IH]; intros st Hi.
  - destruct Hi as [Ha _]. exact Ha.
  - (* the first acquires *)
    destruct Hi as (Ha & H1 & H2). cbn [wl] in H1. destruct H1 as [_ H1].
    apply IH. split; [apply H1; exact Ha|exact H2].
  - (* the first releases *)
    destruct Hi as (H1 & H2). cbn [wl] in H1. destruct H1 as (_ & Ha & H1).
    apply IH. split; [exact Ha|]. split; [apply H1; exact Ha|exact H2].
  - (* the first acts *)
    change (arun st (a :: il)) with (arun (astep_do st a) il). apply IH.
    destruct h as [[|]|]; cbn [linv] in *.
    + destruct Hi as (H1 & H2). cbn [wl] in H1. destruct H1 as [_ H1].
      split; [exact H1|eapply wl_free_indep; exact H2].
    + destruct Hi as (H1 & _). cbn [wl] in H1. destruct H1 as [H1 _]. discriminate H1.
    + destruct Hi as (_ & H1 & _). cbn [wl] in H1. destruct H1 as [H1 _]. discriminate H1.
  - (* the second acquires *)
    destruct Hi as (Ha & H1 & H2). cbn [wl] in H2. destruct H2 as [_ H2].
    apply IH. split; [exact H1|apply H2; exact Ha].
  - (* the second releases *)
    destruct Hi as (H1 & H2). cbn [wl] in H2. destruct H2 as (_ & Ha & H2).
    apply IH. split; [exact Ha|]. split; [exact H1|apply H2; exact Ha].
  - (* the second acts *)
    change (arun st (a :: il)) with (arun (astep_do st a) il). apply IH.
    destruct h as [[|]|]; cbn [linv] in *.
    + destruct Hi as (_ & H2). cbn [wl] in H2. destruct H2 as [H2 _]. discriminate H2.
    + destruct Hi as (H1 & H2). cbn [wl] in H2. destruct H2 as [_ H2].
      split; [eapply wl_free_indep; exact H1|exact H2].
    + destruct Hi as (_ & _ & H2). cbn [wl] in H2. destruct H2 as [H2 _]. discriminate H2.
Qed.

Theorem locked_writers_never_diverge : locked_writers_never_diverge_statement.
Proof.
  intros p1 p2 st il W1 W2 Ha Hs. eapply lsched_inv; [exact Hs|].
  split; [exact Ha|]. split; [apply W1|apply W2].
Qed.

(** *** The writers of the code are well locked *)

Lemma agree_add st id v : agree st -> agree (astep_do (astep_do st (Mem id v)) (Sto id v)).
Proof. intros H x. cbn. unfold upd. destruct (Nat.eqb x id); [reflexivity|apply H]. Qed.

Lemma agree_add' st id v : agree st -> agree (astep_do (astep_do st (Sto id v)) (Mem id v)).
Proof. intros H x. cbn. unfold upd. destruct (Nat.eqb x id); [reflexivity|apply H]. Qed.

Lemma agree_del st id : agree st -> agree (astep_do (astep_do st (MemDel id)) (StoDel id)).
Proof. intros H x. cbn. unfold del. destruct (Nat.eqb x id); [reflexivity|apply H]. Qed.

Lemma agree_del' st id : agree st -> agree (astep_do (astep_do st (StoDel id)) (MemDel id)).
Proof. intros H x. cbn. unfold del. destruct (Nat.eqb x id); [reflexivity|apply H]. Qed.

Lemma well_locked_add ty id v : In ty state_types -> well_locked (add_lprog ty id v).
Proof.
  intros [<-|[<-|[]]] st.
  - rewrite add_lprog_indexed. cbn [wl]. split; [reflexivity|]. intros st' Ha.
    split; [reflexivity|]. split; [reflexivity|]. split; [reflexivity|].
    split; [apply agree_add; exact Ha|]. intros; reflexivity.
  - rewrite add_lprog_linear. cbn [wl]. split; [reflexivity|]. intros st' Ha.
    split; [reflexivity|]. split; [reflexivity|]. split; [reflexivity|].
    split; [apply agree_add'; exact Ha|]. intros; reflexivity.
Qed.

(** a writer followed by a writer *)
Lemma wl_app p q : (forall st, wl false q st) ->
  forall held st, wl held p st -> wl held (p ++ q) st.
Proof.
  intros Wq. induction p as [|[| |a] r IH]; intros held st H; cbn [app wl] in *.
  - subst held. apply Wq.
  - destruct H as [Hh H]. split; [exact Hh|]. intros st' Ha. apply IH. apply H. exact Ha.
  - destruct H as (Hh & Ha & H). split; [exact Hh|]. split; [exact Ha|].
    intros st' Ha'. apply IH. apply H. exact Ha'.
  - destruct H as [Hh H]. split; [exact Hh|]. apply IH. exact H.
Qed.

(** the pairs of one section *)
Lemma wl_pairs ty : In ty state_types -> forall ids st,
  agree st -> wl true (flat_map (rem_pair ty) ids ++ [Rel]) st.
Proof.
  intros Hty ids. induction ids as [|x ids IH]; intros st Ha.
  - cbn [flat_map app wl]. split; [reflexivity|]. split; [exact Ha|]. intros; reflexivity.
  - cbn [flat_map]. rewrite <- app_assoc.
    destruct Hty as [<-|[<-|[]]].
    + rewrite rem_pair_indexed. cbn [app wl]. split; [reflexivity|]. split; [reflexivity|].
      apply IH. apply agree_del. exact Ha.
    + rewrite rem_pair_linear. cbn [app wl]. split; [reflexivity|]. split; [reflexivity|].
      apply IH. apply agree_del'. exact Ha.
Qed.

Lemma well_locked_rem_section ty ids : In ty state_types -> well_locked (rem_section ty ids).
Proof.
  intros Hty st. unfold rem_section. cbn [wl]. split; [reflexivity|].
  intros st' Ha. apply wl_pairs; assumption.
Qed.

Lemma well_locked_rem ty ids pids : In ty state_types -> well_locked (rem_lprog ty ids pids).
Proof.
  intros Hty st. unfold rem_lprog. apply wl_app; [|apply well_locked_rem_section; exact Hty].
  destruct pids as [|x pids]; [intros; reflexivity|].
  apply well_locked_rem_section. exact Hty.
Qed.

Lemma well_locked_clear ty : In ty state_types -> well_locked (clear_lprog ty).
Proof.
  intros Hty st. rewrite (clear_lprog_any ty Hty). cbn [wl]. split; [reflexivity|]. intros st' Ha.
  split; [reflexivity|]. split; [reflexivity|]. split; [reflexivity|].
  split; [intros x; reflexivity|]. intros; reflexivity.
Qed.

Theorem code_writers_well_locked : code_writers_well_locked_statement.
Proof.
  intros ty Hty. split; [|split].
  - intros id v. apply well_locked_add. exact Hty.
  - intros ids pids. apply well_locked_rem. exact Hty.
  - apply well_locked_clear. exact Hty.
Qed.

(** *** Two Adds: only the two serial orders *)

Ltac linv_step H :=
  inversion H; clear H; subst.

Theorem same_id_adds_are_serial : same_id_adds_are_serial_statement.
Proof.
  intros ty id1 v1 id2 v2 il Hty Hs.
  destruct Hty as [<-|[<-|[]]].
  - rewrite !add_prog_indexed. rewrite !add_lprog_indexed in Hs.
    repeat match goal with
           | H : lsched _ _ _ _ |- _ => linv_step H
           end; cbn [app]; auto.
  - rewrite !add_prog_linear. rewrite !add_lprog_linear in Hs.
    repeat match goal with
           | H : lsched _ _ _ _ |- _ => linv_step H
           end; cbn [app]; auto.
Qed.

Theorem same_id_adds_never_diverge : same_id_adds_never_diverge_statement.
Proof.
  intros ty Hty. split; [|split].
  - intros id v1 v2 st il Ha Hs. split.
    + eapply locked_writers_never_diverge; [| |exact Ha|exact Hs]; apply well_locked_add; exact Hty.
    + destruct (same_id_adds_are_serial ty id v1 id v2 il Hty Hs) as [->| ->];
        destruct Hty as [<-|[<-|[]]]; rewrite ?add_prog_indexed, ?add_prog_linear;
        cbn; unfold upd; rewrite Nat.eqb_refl; auto.
  - intros id v ids pids st il Ha Hs.
    eapply locked_writers_never_diverge; [| |exact Ha|exact Hs];
      [apply well_locked_add|apply well_locked_rem]; exact Hty.
  - intros id v st il Ha Hs.
    eapply locked_writers_never_diverge; [| |exact Ha|exact Hs];
      [apply well_locked_add|apply well_locked_clear]; exact Hty.
Qed.

(** the hypotheses are satisfiable: a schedule exists (first writer, then second) *)
Example same_id_adds_schedule_exists :
  lsched None (add_lprog "LinearState" 1 10) (add_lprog "LinearState" 1 20)
         [Sto 1 10; Mem 1 10; Sto 1 20; Mem 1 20]%nat.
Proof.
  rewrite !add_lprog_linear.
  apply LS_acq1, LS_act1, LS_act1, LS_rel1, LS_acq2, LS_act2, LS_act2, LS_rel2, LS_done.
Qed.

Example add_rem_schedule_exists :
  lsched None (add_lprog "IndexedState" 1 10) (rem_lprog "IndexedState" [1; 2] [3])%nat
         [MemDel 1; StoDel 1; MemDel 2; StoDel 2; Mem 1 10; Sto 1 10; MemDel 3; StoDel 3]%nat.
Proof.
  rewrite add_lprog_indexed. unfold rem_lprog, rem_section. cbn [flat_map]. rewrite !rem_pair_indexed.
  cbn [app].
  apply LS_acq2, LS_act2, LS_act2, LS_act2, LS_act2, LS_rel2.
  apply LS_acq1, LS_act1, LS_act1, LS_rel1.
  apply LS_acq2, LS_act2, LS_act2, LS_rel2, LS_done.
Qed.

(** the lock model is not vacuous *)
Theorem prerepair_adds_diverge_example : prerepair_adds_diverge_statement.
Proof.
  intros [|].
  - exists [Mem 1 10; Mem 1 20; Sto 1 20; Sto 1 10]%nat. split.
    + cbn [prerepair_add].
      apply LS_acq1, LS_act1, LS_rel1, LS_acq2, LS_act2, LS_rel2, LS_act2, LS_act1, LS_done.
    + cbn. discriminate.
  - exists [Sto 1 10; Sto 1 20; Mem 1 20; Mem 1 10]%nat. split.
    + cbn [prerepair_add].
      apply LS_act1, LS_act2, LS_acq2, LS_act2, LS_rel2, LS_acq1, LS_act1, LS_rel1, LS_done.
    + cbn. discriminate.
Qed.

(** ** Two Adds without the lock: sequential, different ids *)

Lemma agree_prog ty id v st : In ty state_types -> agree st -> agree (arun st (add_prog ty id v)).
Proof.
  intros [<-|[<-|[]]] H.
  - rewrite add_prog_indexed. apply agree_add; exact H.
  - rewrite add_prog_linear. apply agree_add'; exact H.
Qed.

Theorem sequential_adds_agree : sequential_adds_agree_statement.
Proof.
  intros ty1 ty2 id1 v1 id2 v2 st H1 H2 Ha. unfold arun. rewrite fold_left_app.
  apply (agree_prog ty2 id2 v2 _ H2). apply (agree_prog ty1 id1 v1 _ H1). exact Ha.
Qed.

Theorem different_ids_never_diverge : different_ids_never_diverge_statement.
Proof.
  intros ty1 ty2 id1 v1 id2 v2 st il H1 H2 Hne Ha Hin.
  assert (Hupd : forall x, (Nat.eqb x id1 = true -> Nat.eqb x id2 = false)).
  { intros x E1. apply Nat.eqb_eq in E1. subst x. apply Nat.eqb_neq. exact Hne. }
  destruct H1 as [<-|[<-|[]]]; destruct H2 as [<-|[<-|[]]];
    rewrite ?add_prog_indexed, ?add_prog_linear in Hin; cbn in Hin;
    repeat (destruct Hin as [<-|Hin]; [intros x; cbn; unfold upd; specialize (Hupd x); specialize (Ha x);
              destruct (Nat.eqb x id1); destruct (Nat.eqb x id2); try reflexivity; try exact Ha;
              (specialize (Hupd eq_refl); discriminate)|]); destruct Hin.
Qed.

(** * Instances for the oracle theorems *)

Definition lx_sy0 : system := init_system [JObj [("name", JStr "A"); ("kind", JStr "indexed")]].
Definition lx_op (op id : string) (extra : list (string * json)) (inv ret : Z) (res : json) : json :=
  JObj ([("op", JStr op); ("loc", JStr "A"); ("id", JStr id); ("t", JNum inv); ("inv", JNum inv);
         ("ret", JNum ret); ("fresh", JStr "z"); ("res", res)] ++ extra)%list.
Definition lx_add (inv ret : Z) : json :=
  lx_op "addfact" "f1" [("fact", JObj [("x", JStr "1")])] inv ret (JObj [("id", JStr "f1"); ("ok", JBool true)]).
Definition lx_get_found (inv ret : Z) : json :=
  lx_op "getfact" "f1" [] inv ret (JObj [("ok", JBool true); ("val", JObj [("x", JStr "1")])]).
Definition lx_get_missing (inv ret : Z) : json :=
  lx_op "getfact" "f1" [] inv ret (JObj [("class", JStr "notfound"); ("ok", JBool false)]).

(** client 0 adds f1 during [1,6]; client 1 misses it during [2,3] and finds
    it during [4,5]; afterwards it is found live and after a reload *)
Definition lx_good : list (list json) := [[lx_add 1 6]; [lx_get_missing 2 3; lx_get_found 4 5]].
Definition lx_finals : system -> bool := finals_ok [lx_get_found 9 9] [lx_get_found 10 10].

Example lin_example_linearizable :
  exists order, linearization lx_sy0 lx_good order lx_finals.
Proof. apply (lin_sound 4%nat lx_finals lx_sy0 lx_good 100%nat 95%nat). vm_compute. reflexivity. Qed.

Example lin_example_order : linearization lx_sy0 lx_good [1; 0; 1]%nat lx_finals.
Proof.
  cbn [linearization].
  eexists _, _. split; [reflexivity|]. split; [apply head_enabled_spec; vm_compute; reflexivity|].
  split; [vm_compute; reflexivity|].
  eexists _, _. split; [vm_compute; reflexivity|]. split; [apply head_enabled_spec; vm_compute; reflexivity|].
  split; [vm_compute; reflexivity|].
  eexists _, _. split; [vm_compute; reflexivity|]. split; [apply head_enabled_spec; vm_compute; reflexivity|].
  split; [vm_compute; reflexivity|].
  split; vm_compute; reflexivity.
Qed.

(** the read found the fact and returned (at 3) before the add was invoked (at 4) *)
Definition lx_bad : list (list json) := [[lx_add 4 6]; [lx_get_found 2 3]].

Example lin_example_not_linearizable :
  ~ exists order, linearization lx_sy0 lx_bad order (finals_ok [] []).
Proof. apply (lin_complete_within_budget (finals_ok [] []) lx_sy0 lx_bad 100%nat 99%nat). vm_compute. reflexivity. Qed.

(** memory and storage must both agree with the order: a history whose final
    read through storage misses the fact is rejected *)
Example lin_example_storage_disagrees :
  ~ exists order, linearization lx_sy0 lx_good order (finals_ok [lx_get_found 9 9] [lx_get_missing 10 10]).
Proof.
  apply (lin_complete_within_budget (finals_ok [lx_get_found 9 9] [lx_get_missing 10 10]) lx_sy0 lx_good 100%nat 94%nat).
  vm_compute. reflexivity.
Qed.

(** * Assumptions *)
Print Assumptions no_walks_unrelated.
Print Assumptions interleave_equiv_sequential.
Print Assumptions interleave_results_sequential.
Print Assumptions interleave_result_at.
Print Assumptions unrelated_proj.
Print Assumptions any_two_interleavings_agree.
Print Assumptions interleaving_example.
Print Assumptions interleaving_example_by_theorem.
Print Assumptions related_interleaving_counterexample.
Print Assumptions advance_spec.
Print Assumptions head_enabled_spec.
Print Assumptions rt_head_implies_all.
Print Assumptions lin_budget_monotone.
Print Assumptions lin_sound.
Print Assumptions lin_complete_within_budget.
Print Assumptions linearization_replays.
Print Assumptions linearization_real_time.
Print Assumptions finals_ok_spec.
Print Assumptions replay_all_spec.
Print Assumptions check_conc_accept.
Print Assumptions check_conc_reject.
Print Assumptions fact_map_accesses_are_locked.
Print Assumptions locks_balanced.
Print Assumptions fuel_enough_true.
Print Assumptions hook_lock_context.
Print Assumptions hook_contexts_both_occur.
Print Assumptions write_methods_take_write_lock.
Print Assumptions mutations_hold_write_lock.
Print Assumptions readers_purge_under_write_lock.
Print Assumptions add_phases_match_source.
Print Assumptions store_writes_hold_write_lock.
Print Assumptions add_is_one_critical_section.
Print Assumptions clear_is_one_critical_section.
Print Assumptions rem_is_paired_sections.
Print Assumptions locked_writers_never_diverge.
Print Assumptions code_writers_well_locked.
Print Assumptions same_id_adds_are_serial.
Print Assumptions same_id_adds_never_diverge.
Print Assumptions same_id_adds_schedule_exists.
Print Assumptions add_rem_schedule_exists.
Print Assumptions prerepair_adds_diverge_example.
Print Assumptions sequential_adds_agree.
Print Assumptions different_ids_never_diverge.
Print Assumptions lin_example_linearizable.
Print Assumptions lin_example_order.
Print Assumptions lin_example_not_linearizable.
Print Assumptions lin_example_storage_disagrees.
