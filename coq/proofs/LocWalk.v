(** C09 support: the ancestor walk. *)
From Coq Require Import Lia.
From Verif Require Import Json Outcome Match PatIndex State Location SysOps.
From Verif Require Import StateSpec AssocLemmas CascadeSpec CascadeLemmas1 GateProofs LocSpec LocBasics LocRules.

Section Walk.
  Variable A : Type.
  Variable visit : string -> loc -> loc * outcome A.

  Definition wres : Type := system * list string * outcome (list (string * A)).

  Definition w_sys (r : wres) : system := fst (fst r).
  Definition w_done (r : wres) : list string := snd (fst r).
  Definition w_out (r : wres) : outcome (list (string * A)) := snd r.

  (** the loop over the parents, with the recursive call abstracted *)
  Definition go_par (rec : system -> string -> list string -> list (string * A) -> wres) (name : string)
    : system -> list string -> list string -> list (string * A) -> wres :=
    fix go (sy : system) (ps : list string) (done : list string) (acc : list (string * A)) : wres :=
      match ps with
      | [] => (sy, done, Ok acc)
      | p :: r =>
          if String.eqb p name then (sy, done, Err E_loop)
          else match rec sy p done acc with
               | (sy', done', Ok acc') => go sy' r done' acc'
               | (sy', done', Err x) => (sy', done', Err x)
               | (sy', done', Panic w) => (sy', done', Panic w)
               | (sy', done', OutOfFuel) => (sy', done', OutOfFuel)
               end
      end.

  (** what happens at the location once its parents are done *)
  Definition finish (name : string) (r : wres) : wres :=
    match r with
    | (sy2, done2, Ok acc2) =>
        match sys_get sy2 name with
        | None => (sy2, done2, Err E_notfound)
        | Some l2 =>
            let '(l3, r) := visit name l2 in
            let sy3 := sys_set sy2 name l3 in
            match r with
            | Ok a => (sy3, name :: done2, Ok (acc2 ++ [(name, a)])%list)
            | Err x => (sy3, name :: done2, Err x)
            | Panic w => (sy3, name :: done2, Panic w)
            | OutOfFuel => (sy3, name :: done2, OutOfFuel)
            end
        end
    | (sy2, done2, Err x) => (sy2, done2, Err x)
    | (sy2, done2, Panic w) => (sy2, done2, Panic w)
    | (sy2, done2, OutOfFuel) => (sy2, done2, OutOfFuel)
    end.

  Definition rec_of (f : nat) (now : Z) (name : string) (visiting : list string)
    : system -> string -> list string -> list (string * A) -> wres :=
    fun sy p done acc => do_ancestors A visit f sy p now (name :: visiting) done acc.

  Lemma do_ancestors_S f sy name now visiting done acc :
    do_ancestors A visit (S f) sy name now visiting done acc =
    if mem_str name done then (sy, done, Ok acc)
    else if mem_str name visiting then (sy, done, Err E_loop)
    else match sys_get sy name with
         | None => (sy, done, Err E_notfound)
         | Some l =>
             match get_parents l now with
             | (l1, Ok parents) =>
                 finish name (go_par (rec_of f now name visiting) name (sys_set sy name l1) parents done acc)
             | (l1, Err x) => (sys_set sy name l1, done, Err x)
             | (l1, Panic w) => (sys_set sy name l1, done, Panic w)
             | (l1, OutOfFuel) => (sys_set sy name l1, done, OutOfFuel)
             end
         end.
  Proof. reflexivity. Qed.

  Lemma do_ancestors_0 sy name now visiting done acc :
    do_ancestors A visit 0 sy name now visiting done acc = (sy, done, OutOfFuel).
  Proof. reflexivity. Qed.

  Lemma go_par_nil rec name sy done acc : go_par rec name sy [] done acc = (sy, done, Ok acc).
  Proof. reflexivity. Qed.

  Lemma go_par_cons rec name sy p r done acc :
    go_par rec name sy (p :: r) done acc =
    if String.eqb p name then (sy, done, Err E_loop)
    else match rec sy p done acc with
         | (sy', done', Ok acc') => go_par rec name sy' r done' acc'
         | (sy', done', Err x) => (sy', done', Err x)
         | (sy', done', Panic w) => (sy', done', Panic w)
         | (sy', done', OutOfFuel) => (sy', done', OutOfFuel)
         end.
  Proof. reflexivity. Qed.

  (** get_parents yields a value or an error *)
  Lemma get_parents_out l now :
    (exists ps, snd (get_parents l now) = Ok ps) \/ (exists x, snd (get_parents l now) = Err x).
  Proof.
    unfold get_parents. destruct (get_prop l "" "parents" now) as [l' [[| | | |xs|]|]]; cbn [snd];
      try (right; eexists; reflexivity); try (left; eexists; reflexivity).
    destruct (forallb _ xs); [left|right]; eexists; reflexivity.
  Qed.

  (** * A generic invariant of the walk *)
  Section Rel.
    Variable now : Z.
    Variable Inv : system -> Prop.
    Variable R : system -> system -> Prop.
    Variable Pn : string -> Prop.
    Hypothesis R_refl : forall sy, R sy sy.
    Hypothesis R_trans : forall a b c, R a b -> R b c -> R a c.
    Hypothesis H_par : forall sy name l, Inv sy -> Pn name -> sys_get sy name = Some l ->
      Inv (sys_set sy name (fst (get_parents l now))) /\ R sy (sys_set sy name (fst (get_parents l now))).
    Hypothesis H_pp : forall sy name l ps, Inv sy -> Pn name -> sys_get sy name = Some l ->
      snd (get_parents l now) = Ok ps -> forall p, In p ps -> Pn p.
    Hypothesis H_visit : forall sy name l, Inv sy -> Pn name -> sys_get sy name = Some l ->
      Inv (sys_set sy name (fst (visit name l))) /\ R sy (sys_set sy name (fst (visit name l))).

    Definition rel_post (sy : system) (r : wres) : Prop := Inv (w_sys r) /\ R sy (w_sys r).

    Lemma go_par_rel rec name :
      (forall sy p done acc, Inv sy -> Pn p -> rel_post sy (rec sy p done acc)) ->
      forall ps sy done acc, Inv sy -> (forall p, In p ps -> Pn p) ->
        rel_post sy (go_par rec name sy ps done acc).
    Proof.
      intros Hrec. induction ps as [|p r IH]; intros sy done acc Hi Hps.
      - rewrite go_par_nil. split; [exact Hi|apply R_refl].
      - rewrite go_par_cons. destruct (String.eqb p name); [split; [exact Hi|apply R_refl]|].
        destruct (Hrec sy p done acc Hi (Hps p (or_introl eq_refl))) as [Hi1 Hr1].
        destruct (rec sy p done acc) as [[sy1 done1] o1]. unfold w_sys in *. cbn [fst] in *.
        destruct o1 as [acc1|x|w|]; try (split; assumption).
        destruct (IH sy1 done1 acc1 Hi1 (fun q Hq => Hps q (or_intror Hq))) as [Hi2 Hr2].
        split; [exact Hi2|]. eapply R_trans; eassumption.
    Qed.

    Lemma finish_rel name sy r :
      Pn name -> rel_post sy r -> rel_post sy (finish name r).
    Proof.
      intros Hn [Hi Hr]. destruct r as [[sy2 done2] o2]. unfold w_sys in *. cbn [fst] in *.
      destruct o2 as [acc2|x|w|]; cbn [finish]; try (split; assumption).
      destruct (sys_get sy2 name) as [l2|] eqn:Eg; [|split; assumption].
      destruct (H_visit sy2 name l2 Hi Hn Eg) as [Hi3 Hr3].
      destruct (visit name l2) as [l3 r3]. cbn [fst] in *.
      assert (Hr' : R sy (sys_set sy2 name l3)) by (eapply R_trans; eassumption).
      destruct r3; split; assumption.
    Qed.

    Lemma walk_rel : forall f sy name visiting done acc,
      Inv sy -> Pn name -> rel_post sy (do_ancestors A visit f sy name now visiting done acc).
    Proof.
      induction f as [|f IH]; intros sy name visiting done acc Hi Hn.
      - rewrite do_ancestors_0. split; [exact Hi|apply R_refl].
      - rewrite do_ancestors_S.
        destruct (mem_str name done); [split; [exact Hi|apply R_refl]|].
        destruct (mem_str name visiting); [split; [exact Hi|apply R_refl]|].
        destruct (sys_get sy name) as [l|] eqn:Eg; [|split; [exact Hi|apply R_refl]].
        destruct (H_par sy name l Hi Hn Eg) as [Hi1 Hr1].
        pose proof (H_pp sy name l) as Hpp.
        destruct (get_parents l now) as [l1 o]. cbn [fst snd] in *.
        destruct o as [parents|x|w|]; try (split; assumption).
        apply finish_rel; [exact Hn|].
        assert (Hg : rel_post (sys_set sy name l1)
                       (go_par (rec_of f now name visiting) name (sys_set sy name l1) parents done acc)).
        { apply go_par_rel; [|exact Hi1|exact (Hpp parents Hi Hn Eg eq_refl)].
          intros sy0 p d0 a0 Hi0 Hp. apply IH; assumption. }
        destruct Hg as [Hi2 Hr2]. split; [exact Hi2|]. eapply R_trans; eassumption.
    Qed.
  End Rel.
End Walk.

(** * The walk keeps the system sorted and its names unchanged *)

Section WalkKeys.
  Variable A : Type.
  Variable visit : string -> loc -> loc * outcome A.

  Lemma walk_keys f sy name now visiting done acc :
    sys_wf sy ->
    sys_wf (w_sys A (do_ancestors A visit f sy name now visiting done acc)) /\
    map fst (w_sys A (do_ancestors A visit f sy name now visiting done acc)) = map fst sy.
  Proof.
    intros Hw.
    apply (walk_rel A visit now sys_wf (fun sy sy' => map fst sy' = map fst sy) (fun _ => True)); auto.
    - intros a b c H1 H2. congruence.
    - intros sy0 n l Hw0 _ Hg. split; [apply sys_wf_set; exact Hw0|eapply sys_set_keys; eassumption].
    - intros sy0 n l Hw0 _ Hg. split; [apply sys_wf_set; exact Hw0|eapply sys_set_keys; eassumption].
  Qed.

  (** * Fuel: the depth of the walk is bounded by the number of locations *)

  Definition freek (ks visiting : list string) : nat :=
    length (filter (fun k => negb (mem_str k visiting)) ks).

  Lemma freek_le ks name visiting : (freek ks (name :: visiting) <= freek ks visiting)%nat.
  Proof.
    unfold freek. induction ks as [|k r IH]; cbn [filter length]; [lia|].
    change (mem_str k (name :: visiting)) with (String.eqb k name || mem_str k visiting).
    destruct (String.eqb k name); cbn [orb negb].
    - destruct (negb (mem_str k visiting)); cbn [length]; lia.
    - destruct (negb (mem_str k visiting)); cbn [length]; lia.
  Qed.

  Lemma freek_lt ks name visiting :
    In name ks -> mem_str name visiting = false -> (freek ks (name :: visiting) < freek ks visiting)%nat.
  Proof.
    unfold freek. induction ks as [|k r IH]; cbn [In]; [intros []|].
    intros Hin Hm. cbn [filter].
    change (mem_str k (name :: visiting)) with (String.eqb k name || mem_str k visiting).
    pose proof (freek_le r name visiting) as Hle. unfold freek in Hle.
    destruct (String.eqb_spec k name) as [->|Hne]; cbn [orb negb].
    - rewrite Hm. cbn [negb length]. lia.
    - destruct Hin as [Hin|Hin]; [congruence|]. specialize (IH Hin Hm).
      destruct (negb (mem_str k visiting)); cbn [length]; lia.
  Qed.

  Definition fuel_post (r1 r2 : wres A) : Prop :=
    r1 = r2 /\ (w_out A r1 = OutOfFuel -> exists n l, snd (visit n l) = OutOfFuel).

  Lemma go_par_fuel now name visiting f K :
    (forall sy p done acc, sys_wf sy -> map fst sy = K ->
       fuel_post (rec_of A visit f now name visiting sy p done acc)
                 (rec_of A visit (S f) now name visiting sy p done acc)) ->
    forall ps sy done acc, sys_wf sy -> map fst sy = K ->
      fuel_post (go_par A (rec_of A visit f now name visiting) name sy ps done acc)
                (go_par A (rec_of A visit (S f) now name visiting) name sy ps done acc).
  Proof.
    intros Hrec. induction ps as [|p r IH]; intros sy done acc Hw HK.
    - rewrite !go_par_nil. split; [reflexivity|]. cbn. discriminate.
    - rewrite !go_par_cons. destruct (String.eqb p name).
      + split; [reflexivity|]. cbn. discriminate.
      + destruct (Hrec sy p done acc Hw HK) as [He Ho]. rewrite <- He.
        pose proof (walk_keys f sy p now (name :: visiting) done acc Hw) as [Hw1 Hk1].
        unfold rec_of in *.
        destruct (do_ancestors A visit f sy p now (name :: visiting) done acc) as [[sy1 d1] o1].
        unfold w_sys, w_out in *. cbn [fst snd] in *.
        destruct o1 as [a1|x|w|].
        * apply IH; [exact Hw1|congruence].
        * split; [reflexivity|]. cbn. discriminate.
        * split; [reflexivity|]. cbn. discriminate.
        * split; [reflexivity|]. exact Ho.
  Qed.

  Lemma finish_fuel name r1 r2 : fuel_post r1 r2 -> fuel_post (finish A visit name r1) (finish A visit name r2).
  Proof.
    intros [<- Ho]. split; [reflexivity|].
    destruct r1 as [[sy2 d2] o2]. unfold w_out in *. cbn [snd] in *.
    destruct o2 as [a2|x|w|]; cbn [finish snd]; try discriminate; try exact Ho.
    destruct (sys_get sy2 name) as [l2|]; cbn [snd]; [|discriminate].
    destruct (visit name l2) as [l3 r3] eqn:Ev.
    destruct r3; cbn [snd]; try discriminate. intros _. exists name, l2. rewrite Ev. reflexivity.
  Qed.

  Lemma walk_fuel now : forall f sy name visiting done acc,
    sys_wf sy -> (freek (map fst sy) visiting < f)%nat ->
    fuel_post (do_ancestors A visit f sy name now visiting done acc)
              (do_ancestors A visit (S f) sy name now visiting done acc).
  Proof.
    induction f as [|f IH]; intros sy name visiting done acc Hw Hf; [lia|].
    rewrite (do_ancestors_S A visit (S f)), (do_ancestors_S A visit f).
    destruct (mem_str name done); [split; [reflexivity|cbn; discriminate]|].
    destruct (mem_str name visiting) eqn:Ev; [split; [reflexivity|cbn; discriminate]|].
    destruct (sys_get sy name) as [l|] eqn:Eg; [|split; [reflexivity|cbn; discriminate]].
    destruct (get_parents_out l now) as [[ps Hps]|[x Hx]].
    - destruct (get_parents l now) as [l1 o]. cbn [snd] in Hps. subst o.
      apply finish_fuel.
      apply (go_par_fuel now name visiting f (map fst sy)).
      + intros sy0 p d0 a0 Hw0 Hk0. unfold rec_of. apply IH; [exact Hw0|].
        rewrite Hk0.
        assert (Hin : In name (map fst sy)) by (eapply AssocLemmas.alookup_In_keys; exact Eg).
        pose proof (freek_lt (map fst sy) name visiting Hin Ev). lia.
      + apply sys_wf_set; exact Hw.
      + eapply sys_set_keys; eassumption.
    - destruct (get_parents l now) as [l1 o]. cbn [snd] in Hx. subst o.
      split; [reflexivity|cbn; discriminate].
  Qed.

  Lemma freek_nil ks : freek ks [] = length ks.
  Proof.
    unfold freek. induction ks as [|k r IH]; [reflexivity|]. cbn [filter].
    change (negb (mem_str k [])) with true. cbn [length]. rewrite IH. reflexivity.
  Qed.

  Lemma walk_fuel_ge now sy name visiting done acc : forall f1 f2,
    sys_wf sy -> (freek (map fst sy) visiting < f1)%nat -> (f1 <= f2)%nat ->
    do_ancestors A visit f2 sy name now visiting done acc =
    do_ancestors A visit f1 sy name now visiting done acc.
  Proof.
    intros f1 f2 Hw Hf Hle. induction Hle as [|m Hle IH]; [reflexivity|].
    rewrite <- IH. symmetry. apply walk_fuel; [exact Hw|lia].
  Qed.

  (** A4: with [anc_fuel] the walk never runs out of fuel, and more fuel changes nothing. *)
  Lemma walk_anc_fuel now sy name done acc f :
    sys_wf sy -> (length sy < f)%nat ->
    do_ancestors A visit f sy name now [] done acc =
    do_ancestors A visit (anc_fuel sy) sy name now [] done acc.
  Proof.
    intros Hw Hf. unfold anc_fuel.
    assert (Hfree : freek (map fst sy) [] = length sy) by (rewrite freek_nil; apply map_length).
    destruct (Nat.le_ge_cases f (length sy + 2)) as [Hle|Hge].
    - symmetry. apply walk_fuel_ge; [exact Hw|lia|exact Hle].
    - apply walk_fuel_ge; [exact Hw|lia|exact Hge].
  Qed.

  Lemma walk_oof_only_visit now sy name done acc :
    sys_wf sy ->
    w_out A (do_ancestors A visit (anc_fuel sy) sy name now [] done acc) = OutOfFuel ->
    exists n l, snd (visit n l) = OutOfFuel.
  Proof.
    intros Hw.
    assert (Hfree : freek (map fst sy) [] = length sy) by (rewrite freek_nil; apply map_length).
    apply (walk_fuel now (anc_fuel sy) sy name [] done acc Hw). unfold anc_fuel; lia.
  Qed.

  Lemma walk_total now sy name done acc :
    sys_wf sy -> (forall n l, snd (visit n l) <> OutOfFuel) ->
    w_out A (do_ancestors A visit (anc_fuel sy) sy name now [] done acc) <> OutOfFuel.
  Proof.
    intros Hw Hv Ho. destruct (walk_oof_only_visit now sy name done acc Hw Ho) as (n & l & H).
    exact (Hv n l H).
  Qed.
End WalkKeys.

(** * find_children only reads *)

Lemma find_children_lsub ev now : forall rules l acc, lsub (fst (find_children l rules ev now acc)) l.
Proof.
  induction rules as [|[id body] r IH]; intros l acc; cbn [find_children]; [apply lsub_refl|].
  pose proof (rule_enabled_lsub l id now) as H.
  destruct (rule_enabled l id now) as [l1 en]. cbn [fst] in H.
  assert (Hw : forall acc', lsub (fst (find_children l1 r ev now acc')) l).
  { intros acc'. eapply lsub_trans; [apply IH|exact H]. }
  destruct (negb en); [apply Hw|].
  destruct (when_pattern body) as [p|]; [|apply Hw].
  destruct (core_match p ev []) as [[|b bss]|x|w|]; cbn [fst]; try apply Hw; exact H.
Qed.

Lemma find_children_noexp ev now : forall rules l acc,
  nothing_expired l now -> fst (find_children l rules ev now acc) = l.
Proof.
  induction rules as [|[id body] r IH]; intros l acc Hn; cbn [find_children]; [reflexivity|].
  pose proof (rule_enabled_noexp l id now Hn) as H.
  destruct (rule_enabled l id now) as [l1 en]. cbn [fst] in H. subst l1.
  destruct (negb en); [apply IH; exact Hn|].
  destruct (when_pattern body) as [p|]; [|apply IH; exact Hn].
  destruct (core_match p ev []) as [[|b bss]|x|w|]; cbn [fst]; try (apply IH; exact Hn); reflexivity.
Qed.

(** * The parents as a function of the stored property fact *)

Lemma get_prop_snd l id prop now :
  snd (get_prop l id prop now) =
  match alookup (prop_id id prop) (st_facts (l_state l)) with
  | Some f => if fact_expired f now then None else jget (String.append "!" prop) f
  | None => None
  end.
Proof.
  rewrite get_prop_pid.
  pose proof (st_get_snd (l_state l) (prop_id id prop) now) as Hs.
  destruct (st_get (l_state l) (prop_id id prop) now) as [s1 o]. cbn [snd] in Hs. subst o.
  destruct (alookup (prop_id id prop) (st_facts (l_state l))) as [f|]; [|reflexivity].
  destruct (fact_expired f now); reflexivity.
Qed.

Definition parents_of_val (v : option json) : outcome (list string) :=
  match v with
  | None => Ok []
  | Some (JArr xs) =>
      if forallb (fun x => match x with JStr _ => true | _ => false end) xs
      then Ok (map jS xs) else Err "didn't expect parent"
  | Some _ => Err "didn't expect parents"
  end.

Lemma get_parents_snd l now : snd (get_parents l now) = parents_of_val (snd (get_prop l "" "parents" now)).
Proof.
  unfold get_parents. destruct (get_prop l "" "parents" now) as [l' [[| | | |xs|]|]]; reflexivity.
Qed.

Lemma parents_lsub l' l now ps :
  lsub l' l -> snd (get_parents l' now) = Ok ps -> ps = [] \/ snd (get_parents l now) = Ok ps.
Proof.
  intros [Hs _] H. rewrite get_parents_snd, get_prop_snd in *.
  destruct (alookup (prop_id "" "parents") (st_facts (l_state l'))) as [f|] eqn:El.
  - right. rewrite (fsub_lookup _ _ _ _ Hs El). exact H.
  - left. cbn [parents_of_val] in H. injection H as <-. reflexivity.
Qed.

(** * A2: a walk changes only what it purges, and only among the ancestors *)

Section WalkFrame.
  Variable A : Type.
  Variable visit : string -> loc -> loc * outcome A.
  Variable now : Z.

  Definition keeps_live (sy sy' : system) : Prop :=
    forall o, nothing_expired_opt sy o now -> sys_get sy' o = sys_get sy o.

  Lemma keeps_live_refl sy : keeps_live sy sy.
  Proof. intros o _. reflexivity. Qed.

  Lemma keeps_live_trans a b c : keeps_live a b -> keeps_live b c -> keeps_live a c.
  Proof.
    intros H1 H2 o Ho. rewrite <- (H1 o Ho). apply H2.
    intros l Hl. rewrite (H1 o Ho) in Hl. apply Ho; exact Hl.
  Qed.

  Lemma keeps_live_set sy name l l' :
    sys_get sy name = Some l -> (nothing_expired l now -> l' = l) -> keeps_live sy (sys_set sy name l').
  Proof.
    intros Hg Hl o Ho. destruct (String.eqb_spec o name) as [->|Hne].
    - rewrite sys_get_set_same, Hg. f_equal. apply Hl. apply Ho. exact Hg.
    - apply sys_get_set_other; exact Hne.
  Qed.

  Hypothesis visit_noexp : forall n l, nothing_expired l now -> fst (visit n l) = l.

  Lemma walk_keeps_live f sy name visiting done acc :
    keeps_live sy (w_sys A (do_ancestors A visit f sy name now visiting done acc)).
  Proof.
    apply (walk_rel A visit now (fun _ => True) keeps_live (fun _ => True)); auto.
    - apply keeps_live_refl.
    - apply keeps_live_trans.
    - intros sy0 n l _ _ Hg. split; [exact I|]. eapply keeps_live_set; [exact Hg|]. apply get_parents_noexp.
    - intros sy0 n l _ _ Hg. split; [exact I|]. eapply keeps_live_set; [exact Hg|]. apply visit_noexp.
  Qed.

  (** closed sets of names *)
  Variable S : string -> Prop.

  Definition same_outside (sy sy' : system) : Prop :=
    forall o, ~ S o -> sys_get sy' o = sys_get sy o.

  Lemma closed_set_lsub sy name l l' :
    closed_under sy now S -> sys_get sy name = Some l -> lsub l' l ->
    closed_under (sys_set sy name l') now S.
  Proof.
    intros Hc Hg Hs a b Ha (la & ps & Hga & Hps & Hin).
    destruct (String.eqb_spec a name) as [->|Hne].
    - rewrite sys_get_set_same in Hga. injection Hga as <-.
      destruct (parents_lsub l' l now ps Hs Hps) as [->|Hps']; [destruct Hin|].
      apply (Hc name b Ha). exists l, ps. repeat split; assumption.
    - rewrite sys_get_set_other in Hga by exact Hne.
      apply (Hc a b Ha). exists la, ps. repeat split; assumption.
  Qed.

  Lemma same_outside_set sy name l' : S name -> same_outside sy (sys_set sy name l').
  Proof.
    intros Hn o Ho. apply sys_get_set_other. intros ->. contradiction.
  Qed.

  Hypothesis visit_lsub : forall n l, lsub (fst (visit n l)) l.

  Lemma walk_closed f sy name visiting done acc :
    closed_under sy now S -> S name ->
    closed_under (w_sys A (do_ancestors A visit f sy name now visiting done acc)) now S /\
    same_outside sy (w_sys A (do_ancestors A visit f sy name now visiting done acc)).
  Proof.
    apply (walk_rel A visit now (fun sy => closed_under sy now S) same_outside S).
    - intros sy0 o _. reflexivity.
    - intros a b c H1 H2 o Ho. rewrite (H2 o Ho). apply H1; exact Ho.
    - intros sy0 n l Hc Hn Hg. split; [|apply same_outside_set; exact Hn].
      eapply closed_set_lsub; [exact Hc|exact Hg|apply get_parents_lsub].
    - intros sy0 n l ps Hc Hn Hg Hps p Hin. apply (Hc n p Hn). exists l, ps. repeat split; assumption.
    - intros sy0 n l Hc Hn Hg. split; [|apply same_outside_set; exact Hn].
      eapply closed_set_lsub; [exact Hc|exact Hg|apply visit_lsub].
  Qed.
End WalkFrame.

Lemma reach_closed sy now name : closed_under sy now (reach sy now name).
Proof.
  intros a b Ha Hp. induction Ha as [a|a b' c Hab Hbc IH].
  - eapply reach_step; [exact Hp|apply reach_refl].
  - eapply reach_step; [exact Hab|]. apply IH. exact Hp.
Qed.

(** * The two walks of the API *)

Lemma sys_search_inherited sy name c e p :
  sys_search sy name c e p true =
  (let r := do_ancestors _ (fun _ l => loc_search_local l c e p) (anc_fuel sy) sy name (e_now e) [] [] [] in
   (w_sys _ r, w_out _ r)).
Proof.
  unfold sys_search.
  destruct (do_ancestors _ (fun _ l => loc_search_local l c e p) (anc_fuel sy) sy name (e_now e) [] [] [])
    as [[sy' d] r]. reflexivity.
Qed.

Lemma sys_find_rules_sys sy name c e ev :
  let r := do_ancestors _ (fun _ l => loc_rules_local l c e ev) (anc_fuel sy) sy name (e_now e) [] [] [] in
  fst (sys_find_rules sy name c e ev) = w_sys _ r \/
  exists l rules, sys_get (w_sys _ r) name = Some l /\
    fst (sys_find_rules sy name c e ev) =
    sys_set (w_sys _ r) name (fst (find_children l rules ev (e_now e) [])).
Proof.
  unfold sys_find_rules.
  destruct (do_ancestors _ (fun _ l => loc_rules_local l c e ev) (anc_fuel sy) sy name (e_now e) [] [] [])
    as [[sy1 d] r]. unfold w_sys. cbn [fst snd].
  destruct r as [groups|x|w|]; try (left; reflexivity).
  destruct (merge_rules groups []) as [rules|x|w|]; try (left; reflexivity).
  destruct (sys_get sy1 name) as [l|] eqn:Eg; [|left; reflexivity].
  right. exists l, rules. split; [reflexivity|].
  destruct (find_children l rules ev (e_now e) []) as [l' res]. reflexivity.
Qed.

(** * Loops and chains *)

Section WalkShapes.
  Variable A : Type.
  Variable visit : string -> loc -> loc * outcome A.
  Variable now : Z.

  Lemma fchain_set sy x l' xs z :
    ~ In x xs -> fchain sy now xs z -> fchain (sys_set sy x l') now xs z.
  Proof.
    intros Hx H. induction H as [y z l ps Hg Hp|y y' r z l ps Hg Hp Hc IH].
    - eapply fchain_last; [|exact Hp]. rewrite sys_get_set_other; [exact Hg|].
      intros ->. apply Hx. left; reflexivity.
    - eapply fchain_cons; [|exact Hp|].
      + rewrite sys_get_set_other; [exact Hg|]. intros ->. apply Hx. left; reflexivity.
      + apply IH. intros Hin. apply Hx. right; exact Hin.
  Qed.

  Lemma mem_str_false x l : ~ In x l -> mem_str x l = false.
  Proof.
    intros H. destruct (mem_str x l) eqn:E; [|reflexivity]. apply mem_str_In in E. contradiction.
  Qed.

  Lemma finish_err name sy d x : finish A visit name (sy, d, Err x) = (sy, d, Err x).
  Proof. reflexivity. Qed.

  Lemma walk_loop : forall xs z f sy visiting done acc,
    fchain sy now xs z -> NoDup xs ->
    (forall x, In x xs -> ~ In x visiting /\ ~ In x done) -> ~ In z done ->
    (In z xs \/ In z visiting) -> (length xs < f)%nat ->
    w_out A (do_ancestors A visit f sy (hd "" xs) now visiting done acc) = Err E_loop.
  Proof.
    induction xs as [|x r IH]; intros z f sy visiting done acc Hc Hnd Hfresh Hzd Hz Hf.
    - inversion Hc.
    - cbn [hd]. destruct f as [|f']; [cbn [length] in Hf; lia|].
      rewrite do_ancestors_S.
      destruct (Hfresh x (or_introl eq_refl)) as [Hxv Hxd].
      rewrite (mem_str_false x done Hxd), (mem_str_false x visiting Hxv).
      assert (Hhead : exists l y ps, sys_get sy x = Some l /\ snd (get_parents l now) = Ok (y :: ps) /\
                        (r = [] /\ y = z \/ exists r', r = y :: r' /\ fchain sy now (y :: r') z)).
      { inversion Hc; subst.
        - eexists _, _, _. repeat split; try eassumption. left; split; reflexivity.
        - eexists _, _, _. repeat split; try eassumption. right. eexists; split; [reflexivity|eassumption]. }
      destruct Hhead as (l & y & ps & Hg & Hp & Hshape). rewrite Hg.
      destruct (get_parents l now) as [l1 o]. cbn [snd] in Hp. subst o.
      rewrite go_par_cons.
      destruct (String.eqb_spec y x) as [Hyx|Hyx]; [reflexivity|].
      assert (Hrec : w_out A (rec_of A visit f' now x visiting (sys_set sy x l1) y done acc) = Err E_loop).
      { unfold rec_of. destruct Hshape as [[-> ->]|(r' & -> & Hc')].
        - destruct f' as [|f'']; [cbn [length] in Hf; lia|].
          rewrite do_ancestors_S. rewrite (mem_str_false z done Hzd).
          assert (Hzv : mem_str z (x :: visiting) = true).
          { apply mem_str_In. destruct Hz as [[Hz|[]]|Hz]; [congruence|right; exact Hz]. }
          rewrite Hzv. reflexivity.
        - apply (IH z f' (sys_set sy x l1) (x :: visiting) done acc).
          + apply fchain_set; [|exact Hc']. inversion Hnd; assumption.
          + inversion Hnd; assumption.
          + intros x' Hx'. destruct (Hfresh x' (or_intror Hx')) as [H1 H2]. split; [|exact H2].
            intros [<-|Hin]; [|contradiction]. inversion Hnd; contradiction.
          + exact Hzd.
          + destruct Hz as [[<-|Hz]|Hz]; [right; left; reflexivity|left; exact Hz|right; right; exact Hz].
          + cbn [length] in *. lia. }
      destruct (rec_of A visit f' now x visiting (sys_set sy x l1) y done acc) as [[sy' d'] o'].
      unfold w_out in Hrec. cbn [snd] in Hrec. subst o'. reflexivity.
  Qed.

  (** chains: everything is visited once, ancestors first, nothing changes *)
  Lemma walk_chain : forall xs rs f sy visiting done acc,
    sys_wf sy -> chain_ok visit sy now xs rs -> NoDup xs ->
    (forall x, In x xs -> ~ In x visiting /\ ~ In x done) -> (length xs <= f)%nat ->
    do_ancestors A visit f sy (hd "" xs) now visiting done acc =
    (sy, (xs ++ done)%list, Ok (acc ++ rev (List.combine xs rs))%list).
  Proof.
    induction xs as [|x r IH]; intros rs f sy visiting done acc Hw Hc Hnd Hfresh Hf.
    - inversion Hc.
    - cbn [hd]. destruct f as [|f']; [cbn [length] in Hf; lia|].
      rewrite do_ancestors_S.
      destruct (Hfresh x (or_introl eq_refl)) as [Hxv Hxd].
      rewrite (mem_str_false x done Hxd), (mem_str_false x visiting Hxv).
      inversion Hc as [x0 l r0 Hg Hn Hp Hv|x0 y xs' l r0 rs' Hg Hn Hp Hv Hc']; subst.
      + rewrite Hg. pose proof (get_parents_noexp l now Hn) as Hfst.
        destruct (get_parents l now) as [l1 o]. cbn [fst snd] in *. subst l1 o.
        rewrite go_par_nil. rewrite (sys_set_same_id sy x l Hw Hg).
        cbn [finish]. rewrite Hg, Hv. rewrite (sys_set_same_id sy x l Hw Hg). reflexivity.
      + rewrite Hg. pose proof (get_parents_noexp l now Hn) as Hfst.
        destruct (get_parents l now) as [l1 o]. cbn [fst snd] in *. subst l1 o.
        rewrite (sys_set_same_id sy x l Hw Hg).
        rewrite go_par_cons.
        assert (Hyx : y <> x) by (intros ->; inversion Hnd; subst; apply H1; left; reflexivity).
        apply String.eqb_neq in Hyx. rewrite Hyx.
        unfold rec_of at 1.
        assert (HI : do_ancestors A visit f' sy y now (x :: visiting) done acc =
                     (sy, ((y :: xs') ++ done)%list, Ok (acc ++ rev (List.combine (y :: xs') rs'))%list)).
        { apply (IH rs' f' sy (x :: visiting) done acc Hw Hc').
          - inversion Hnd; assumption.
          - intros x' Hx'. destruct (Hfresh x' (or_intror Hx')) as [H1 H2]. split; [|exact H2].
            intros [<-|Hin]; [|contradiction]. inversion Hnd; contradiction.
          - cbn [length] in *. lia. }
        rewrite HI.
        rewrite go_par_nil. cbn [finish]. rewrite Hg, Hv. rewrite (sys_set_same_id sy x l Hw Hg).
        cbn [List.combine rev app]. rewrite app_assoc. reflexivity.
  Qed.
End WalkShapes.

(** * Two systems that agree on a closed set of names walk alike *)

Section WalkAgree.
  Variable A : Type.
  Variable visit : string -> loc -> loc * outcome A.
  Variable now : Z.
  Variable S : string -> Prop.
  Hypothesis visit_lsub : forall n l, lsub (fst (visit n l)) l.

  Definition agree_on (sy sy2 : system) : Prop := forall a, S a -> sys_get sy2 a = sys_get sy a.

  Lemma agree_set sy sy2 n l' : agree_on sy sy2 -> agree_on (sys_set sy n l') (sys_set sy2 n l').
  Proof.
    intros H a Ha. destruct (String.eqb_spec a n) as [->|Hne].
    - rewrite !sys_get_set_same. reflexivity.
    - rewrite !sys_get_set_other by exact Hne. apply H; exact Ha.
  Qed.

  Definition agree_post (r r2 : wres A) : Prop :=
    w_done A r2 = w_done A r /\ w_out A r2 = w_out A r /\ agree_on (w_sys A r) (w_sys A r2) /\
    closed_under (w_sys A r) now S.

  Lemma go_par_agree rec rec2 name :
    (forall sy sy2 p done acc, closed_under sy now S -> S p -> agree_on sy sy2 ->
       agree_post (rec sy p done acc) (rec2 sy2 p done acc)) ->
    forall ps sy sy2 done acc, closed_under sy now S -> agree_on sy sy2 -> (forall p, In p ps -> S p) ->
      agree_post (go_par A rec name sy ps done acc) (go_par A rec2 name sy2 ps done acc).
  Proof.
    intros Hrec. induction ps as [|p r IH]; intros sy sy2 done acc Hc Ha Hps.
    - rewrite !go_par_nil. repeat split; assumption.
    - rewrite !go_par_cons. destruct (String.eqb p name); [repeat split; assumption|].
      destruct (Hrec sy sy2 p done acc Hc (Hps p (or_introl eq_refl)) Ha) as (H1 & H2 & H3 & H4).
      destruct (rec sy p done acc) as [[sy' d'] o'].
      destruct (rec2 sy2 p done acc) as [[sy2' d2'] o2'].
      unfold w_done, w_out, w_sys in *. cbn [fst snd] in *. subst d2' o2'.
      destruct o' as [acc'|x|w|]; try (repeat split; assumption).
      apply IH; [exact H4|exact H3|]. intros q Hq. apply Hps. right; exact Hq.
  Qed.

  Lemma finish_agree name r r2 : S name -> agree_post r r2 ->
    agree_post (finish A visit name r) (finish A visit name r2).
  Proof.
    intros Hn (H1 & H2 & H3 & H4).
    destruct r as [[sy' d'] o']. destruct r2 as [[sy2' d2'] o2'].
    unfold w_done, w_out, w_sys in *. cbn [fst snd] in *. subst d2' o2'.
    destruct o' as [acc'|x|w|]; cbn [finish]; try (repeat split; assumption).
    rewrite (H3 name Hn).
    destruct (sys_get sy' name) as [l2|] eqn:Eg; [|repeat split; assumption].
    pose proof (visit_lsub name l2) as Hl.
    destruct (visit name l2) as [l3 r3]. cbn [fst] in Hl.
    assert (Ha : agree_on (sys_set sy' name l3) (sys_set sy2' name l3)) by (apply agree_set; exact H3).
    assert (Hc : closed_under (sys_set sy' name l3) now S) by (eapply closed_set_lsub; eassumption).
    destruct r3; repeat split; assumption.
  Qed.

  Lemma walk_agree : forall f sy sy2 name visiting done acc,
    closed_under sy now S -> S name -> agree_on sy sy2 ->
    agree_post (do_ancestors A visit f sy name now visiting done acc)
               (do_ancestors A visit f sy2 name now visiting done acc).
  Proof.
    induction f as [|f IH]; intros sy sy2 name visiting done acc Hc Hn Ha.
    - rewrite !do_ancestors_0. repeat split; assumption.
    - rewrite !do_ancestors_S.
      destruct (mem_str name done); [repeat split; assumption|].
      destruct (mem_str name visiting); [repeat split; assumption|].
      rewrite (Ha name Hn).
      destruct (sys_get sy name) as [l|] eqn:Eg; [|repeat split; assumption].
      pose proof (get_parents_lsub l now) as Hl.
      assert (Hpp : forall ps, snd (get_parents l now) = Ok ps -> forall p, In p ps -> S p).
      { intros ps Hps p Hin. apply (Hc name p Hn). exists l, ps. repeat split; assumption. }
      destruct (get_parents l now) as [l1 o]. cbn [fst snd] in *.
      assert (Ha1 : agree_on (sys_set sy name l1) (sys_set sy2 name l1)) by (apply agree_set; exact Ha).
      assert (Hc1 : closed_under (sys_set sy name l1) now S) by (eapply closed_set_lsub; eassumption).
      destruct o as [parents|x|w|]; try (repeat split; assumption).
      apply finish_agree; [exact Hn|].
      apply go_par_agree; [|exact Hc1|exact Ha1|exact (Hpp parents eq_refl)].
      intros sy0 sy02 p d0 a0 Hc0 Hp Ha0. unfold rec_of. apply IH; assumption.
  Qed.
End WalkAgree.

(** * Acyclic ancestry in general: a depth-first post-order *)

Lemma reach_snoc sy now a b c : reach sy now a b -> parent_of sy now b c -> reach sy now a c.
Proof.
  intros H Hp. induction H as [a|a b' c' Hab Hbc IH].
  - eapply reach_step; [exact Hp|apply reach_refl].
  - eapply reach_step; [exact Hab|]. apply IH. exact Hp.
Qed.

Lemma reach_trans sy now a b c : reach sy now a b -> reach sy now b c -> reach sy now a c.
Proof.
  intros H1 H2. induction H1 as [a|a b' c' Hab Hbc IH]; [exact H2|].
  eapply reach_step; [exact Hab|]. apply IH. exact H2.
Qed.

Section WalkDag.
  Variable A : Type.
  Variable visit : string -> loc -> loc * outcome A.
  Variable now : Z.
  Variable sy : system.
  Variable root : string.
  Hypothesis Hw : sys_wf sy.

  Definition node_ok (y : string) : Prop :=
    exists l ps r, sys_get sy y = Some l /\ nothing_expired l now /\
                   snd (get_parents l now) = Ok ps /\ visit y l = (l, Ok r).

  Hypothesis Hgood : forall y, reach sy now root y -> node_ok y.
  Hypothesis Hacyc : forall y z, reach sy now root y -> parent_of sy now y z -> ~ reach sy now z y.

  Fixpoint topo (done : list string) : Prop :=
    match done with
    | [] => True
    | a :: rest => (forall b, parent_of sy now a b -> In b rest) /\ topo rest
    end.

  Definition vals_ok (acc : list (string * A)) : Prop :=
    forall y r, In (y, r) acc -> exists l, sys_get sy y = Some l /\ visit y l = (l, Ok r).

  Definition dag_inv (done : list string) (acc : list (string * A)) : Prop :=
    topo done /\ NoDup done /\ map fst acc = rev done /\ vals_ok acc.

  Definition dag_post (x : string) (done : list string) (acc : list (string * A)) (res : wres A) : Prop :=
    exists new acc_new,
      res = (sy, (new ++ done)%list, Ok (acc ++ acc_new)%list) /\
      (forall y, In y new -> reach sy now x y) /\
      In x (new ++ done)%list /\
      dag_inv (new ++ done)%list (acc ++ acc_new)%list.

  Lemma go_par_dag rec x :
    forall ps done acc,
      (forall p d a, In p ps -> dag_inv d a -> dag_post p d a (rec sy p d a)) ->
      (forall p, In p ps -> p <> x) ->
      dag_inv done acc ->
      exists new acc_new,
        go_par A rec x sy ps done acc = (sy, (new ++ done)%list, Ok (acc ++ acc_new)%list) /\
        (forall y, In y new -> exists p, In p ps /\ reach sy now p y) /\
        (forall p, In p ps -> In p (new ++ done)%list) /\
        dag_inv (new ++ done)%list (acc ++ acc_new)%list.
  Proof.
    induction ps as [|p r IH]; intros done acc Hrec Hne Hinv.
    - exists [], []. rewrite go_par_nil, app_nil_r. cbn [app]. repeat split; try assumption.
      + intros y [].
      + intros p [].
      + apply Hinv.
      + apply Hinv.
      + apply Hinv.
      + apply Hinv.
    - rewrite go_par_cons.
      assert (Hpx : String.eqb p x = false) by (apply String.eqb_neq; apply Hne; left; reflexivity).
      rewrite Hpx.
      destruct (Hrec p done acc (or_introl eq_refl) Hinv) as (new1 & an1 & Hres & Hreach1 & Hin1 & Hinv1).
      rewrite Hres.
      destruct (IH (new1 ++ done)%list (acc ++ an1)%list) as (new2 & an2 & Hres2 & Hreach2 & Hin2 & Hinv2).
      + intros q d a Hq. apply Hrec. right; exact Hq.
      + intros q Hq. apply Hne. right; exact Hq.
      + exact Hinv1.
      + exists (new2 ++ new1)%list, (an1 ++ an2)%list.
        rewrite <- !app_assoc in *. rewrite Hres2. rewrite !app_assoc. split; [reflexivity|].
        rewrite <- !app_assoc. split; [|split].
        * intros y Hy. apply in_app_or in Hy. destruct Hy as [Hy|Hy].
          -- destruct (Hreach2 y Hy) as (q & Hq & Hr). exists q. split; [right; exact Hq|exact Hr].
          -- exists p. split; [left; reflexivity|apply Hreach1; exact Hy].
        * intros q [<-|Hq]; [|apply Hin2; exact Hq].
          apply in_or_app. right. exact Hin1.
        * exact Hinv2.
  Qed.

  Lemma topo_in done : topo done -> forall a b, In a done -> parent_of sy now a b -> In b done.
  Proof.
    induction done as [|d rest IH]; intros Ht a b Ha Hp; [destruct Ha|].
    destruct Ht as [Hd Hrest]. destruct Ha as [<-|Ha].
    - right. apply Hd. exact Hp.
    - right. eapply IH; eassumption.
  Qed.

  Lemma walk_dag : forall f x visiting done acc,
    reach sy now root x ->
    (forall y, reach sy now x y -> ~ In y visiting) ->
    dag_inv done acc ->
    (freek (map fst sy) visiting < f)%nat ->
    dag_post x done acc (do_ancestors A visit f sy x now visiting done acc).
  Proof.
    induction f as [|f IH]; intros x visiting done acc Hrx Hvis Hinv Hf; [lia|].
    rewrite do_ancestors_S.
    destruct (mem_str x done) eqn:Ed.
    { exists [], []. rewrite app_nil_r. cbn [app]. repeat split; try apply Hinv.
      - intros y [].
      - apply mem_str_In. exact Ed. }
    assert (Hxd : ~ In x done).
    { intros H. apply mem_str_In in H. congruence. }
    rewrite (mem_str_false x visiting (Hvis x (reach_refl sy now x))).
    destruct (Hgood x Hrx) as (l & ps & r & Hg & Hn & Hps & Hv).
    rewrite Hg. pose proof (get_parents_noexp l now Hn) as Hfst.
    destruct (get_parents l now) as [l1 o] eqn:Egp. cbn [fst snd] in Hfst, Hps. subst l1 o.
    assert (Hps : snd (get_parents l now) = Ok ps) by (rewrite Egp; reflexivity).
    rewrite (sys_set_same_id sy x l Hw Hg).
    assert (Hpar : forall p, In p ps -> parent_of sy now x p).
    { intros p Hp. exists l, ps. repeat split; assumption. }
    assert (Hpar' : forall b, parent_of sy now x b -> In b ps).
    { intros b (l' & ps' & Hg' & Hps' & Hb). rewrite Hg in Hg'. injection Hg' as <-.
      rewrite Hps in Hps'. injection Hps' as <-. exact Hb. }
    destruct (go_par_dag (rec_of A visit f now x visiting) x ps done acc) as (new2 & an2 & Hres & Hreach & Hin & Hinv2).
    - intros p d a Hp Hinv'. unfold rec_of. apply IH.
      + eapply reach_snoc; [exact Hrx|apply Hpar; exact Hp].
      + intros y Hy [<-|Hyv].
        * apply (Hacyc x p Hrx (Hpar p Hp)). exact Hy.
        * apply (Hvis y); [|exact Hyv]. eapply reach_step; [apply Hpar; exact Hp|exact Hy].
      + exact Hinv'.
      + assert (Hk : In x (map fst sy)) by (eapply AssocLemmas.alookup_In_keys; exact Hg).
        pose proof (freek_lt (map fst sy) x visiting Hk (mem_str_false x visiting (Hvis x (reach_refl sy now x)))).
        lia.
    - intros p Hp ->. apply (Hacyc x x Hrx (Hpar x Hp)). apply reach_refl.
    - exact Hinv.
    - rewrite Hres. cbn [finish]. rewrite Hg, Hv. rewrite (sys_set_same_id sy x l Hw Hg).
      exists (x :: new2), (an2 ++ [(x, r)])%list. rewrite app_assoc. cbn [app].
      split; [reflexivity|]. split; [|split; [left; reflexivity|]].
      + intros y [<-|Hy]; [apply reach_refl|].
        destruct (Hreach y Hy) as (p & Hp & Hr). eapply reach_step; [apply Hpar; exact Hp|exact Hr].
      + destruct Hinv2 as (Ht & Hnd & Hmap & Hvals). split; [|split; [|split]].
        * cbn [topo]. split; [|exact Ht]. intros b Hb. apply Hin. apply Hpar'. exact Hb.
        * constructor; [|exact Hnd]. intros Hx. apply in_app_or in Hx. destruct Hx as [Hx|Hx]; [|contradiction].
          destruct (Hreach x Hx) as (p & Hp & Hr). apply (Hacyc x p Hrx (Hpar p Hp)). exact Hr.
        * rewrite map_app, Hmap. reflexivity.
        * intros y r' Hy. apply in_app_or in Hy. destruct Hy as [Hy|[Hy|[]]].
          -- apply Hvals. exact Hy.
          -- injection Hy as <- <-. exists l. split; assumption.
  Qed.

  (** all the ancestors are there *)
  Lemma topo_reach done x : topo done -> In x done -> forall y, reach sy now x y -> In y done.
  Proof.
    intros Ht Hx y Hr. induction Hr as [a|a b c Hab Hbc IH]; [exact Hx|].
    apply IH. eapply topo_in; eassumption.
  Qed.

  Lemma topo_split u a v : topo (u ++ a :: v)%list -> forall b, parent_of sy now a b -> In b v.
  Proof.
    induction u as [|d u IH]; cbn [app topo].
    - intros [H _]. exact H.
    - intros [_ H]. apply IH. exact H.
  Qed.
End WalkDag.
