(** Proofs about the sliding-window breaker model (C20). *)
From Coq Require Import Lia ZifyBool.
From Verif Require Import Json Breaker.

Local Open Scope Z_scope.

(** * Arithmetic and list lemmas *)

Definition sumZ (l : list Z) : Z := fold_right Z.add 0 l.
Definition psum (j : nat) (c : list Z) : Z := sumZ (firstn j c).

Lemma sumZ_app a b : sumZ (a ++ b) = sumZ a + sumZ b.
Proof. unfold sumZ. induction a as [|x a IH]; cbn [app fold_right] in *; lia. Qed.

Lemma sumZ_zeros n : sumZ (zeros n) = 0.
Proof. unfold sumZ, zeros. induction n as [|n IH]; cbn [repeat fold_right]; lia. Qed.

Lemma zeros_length n : length (zeros n) = n.
Proof. apply repeat_length. Qed.

Lemma firstn_zeros j n : firstn j (zeros n) = zeros (Nat.min j n).
Proof.
  revert n; induction j as [|j IH]; intros [|n]; cbn; try reflexivity.
  f_equal. apply IH.
Qed.

Lemma shift_length c k : (k <= length c)%nat -> length (shift c k) = length c.
Proof.
  intros H. unfold shift. rewrite app_length, zeros_length, firstn_length. lia.
Qed.

Lemma psum_shift c k j :
  (k <= length c)%nat -> (j <= length c)%nat ->
  psum j (shift c k) = if (j <=? k)%nat then 0 else psum (j - k) c.
Proof.
  intros Hk Hj. unfold psum, shift.
  rewrite firstn_app, zeros_length, firstn_zeros, sumZ_app, sumZ_zeros.
  destruct (Nat.leb_spec j k) as [H|H].
  - replace (j - k)%nat with 0%nat by lia. cbn. reflexivity.
  - rewrite firstn_firstn. replace (Nat.min (j - k) (length c - k)) with (j - k)%nat by lia.
    lia.
Qed.

Lemma psum_zeros j n : psum j (zeros n) = 0.
Proof. unfold psum. rewrite firstn_zeros. apply sumZ_zeros. Qed.

Lemma psum_all c j : (length c <= j)%nat -> psum j c = sumZ c.
Proof. intros H. unfold psum. rewrite firstn_all2 by exact H. reflexivity. Qed.

Lemma total_sumZ b : total b = sumZ (b_counts b).
Proof. reflexivity. Qed.

Lemma psum_bump c j : c <> [] -> (1 <= j)%nat -> psum j (bump c) = psum j c + 1.
Proof.
  intros Hc Hj. destruct c as [|x c]; [congruence|].
  destruct j as [|j]; [lia|]. unfold psum. cbn. lia.
Qed.

Lemma psum_0 c : psum 0 c = 0.
Proof. reflexivity. Qed.

Lemma bump_length c : length (bump c) = length c.
Proof. destruct c; reflexivity. Qed.

(** Number of admissions strictly after [x]. *)
Definition cnt_gt (adm : list Z) (x : Z) : Z :=
  Z.of_nat (length (filter (fun a => x <? a) adm)).

Lemma cnt_gt_nil x : cnt_gt [] x = 0.
Proof. reflexivity. Qed.

Lemma cnt_gt_cons a adm x :
  cnt_gt (a :: adm) x = (if x <? a then 1 else 0) + cnt_gt adm x.
Proof.
  unfold cnt_gt. cbn [filter]. destruct (x <? a); cbn [length]; lia.
Qed.

Lemma cnt_gt_nonneg adm x : 0 <= cnt_gt adm x.
Proof. unfold cnt_gt. lia. Qed.

Lemma cnt_gt_mono adm x y : x <= y -> cnt_gt adm y <= cnt_gt adm x.
Proof.
  intros H. induction adm as [|a adm IH]; [reflexivity|].
  rewrite !cnt_gt_cons.
  destruct (Z.ltb_spec y a), (Z.ltb_spec x a); lia.
Qed.

Lemma cnt_gt_zero adm x : (forall a, In a adm -> a <= x) -> cnt_gt adm x = 0.
Proof.
  intros H. induction adm as [|a adm IH]; [reflexivity|].
  rewrite cnt_gt_cons. rewrite IH by (intros; apply H; right; assumption).
  specialize (H a (or_introl eq_refl)). destruct (Z.ltb_spec x a); lia.
Qed.

Lemma count_window_le_cnt_gt adm w T :
  count_in_window adm w T <= cnt_gt adm (T - w).
Proof.
  unfold count_in_window, cnt_gt.
  induction adm as [|a adm IH]; cbn [filter]; [reflexivity|].
  destruct (T - w <? a); cbn [andb].
  - destruct (a <=? T); cbn [length]; lia.
  - lia.
Qed.

Lemma count_window_cons a adm w T :
  count_in_window (a :: adm) w T =
  (if (T - w <? a) && (a <=? T) then 1 else 0) + count_in_window adm w T.
Proof.
  unfold count_in_window. cbn [filter].
  destruct ((T - w <? a) && (a <=? T)); cbn [length]; lia.
Qed.

(** * Well-formed breaker states *)

Definition res_pos (b : breaker) : Prop := 0 < resolution b.

Lemma res_pos_iff b : res_pos b <-> 20 <= b_interval b.
Proof.
  unfold res_pos, resolution, ticksZ. split; intros H.
  - destruct (Z.le_gt_cases 20 (b_interval b)) as [|Hlt]; [assumption|].
    destruct (Z.le_gt_cases 0 (b_interval b)) as [Hnn|Hneg].
    + rewrite Z.quot_small in H by lia. lia.
    + pose proof (Z.quot_opp_l (b_interval b) 20 ltac:(lia)) as Hq.
      assert (0 <= Z.quot (- b_interval b) 20) by (apply Z.quot_pos; lia). lia.
  - apply Z.quot_str_pos. lia.
Qed.

(** Safety invariant, relative to the list [adm] of all admissions so far. *)
Definition SInv (b : breaker) (adm : list Z) : Prop :=
  length (b_counts b) = ticksN /\
  match b_updated b with
  | None => adm = []
  | Some u =>
      (forall a, In a adm -> a <= u) /\
      (forall j, (j <= ticksN)%nat ->
                 cnt_gt adm (u - Z.of_nat j * resolution b) <= psum j (b_counts b))
  end.

(** Every element of [adm] is at most [now] (call instants are monotone). *)
Definition upto (adm : list Z) (now : Z) : Prop := forall a, In a adm -> a <= now.

Definition after_updated (b : breaker) (now : Z) : Prop :=
  match b_updated b with None => True | Some u => u <= now end.

Lemma slide_limit v b now : b_limit (slide v b now) = b_limit b.
Proof. unfold slide. destruct (_ <=? _); reflexivity. Qed.
Lemma slide_interval v b now : b_interval (slide v b now) = b_interval b.
Proof. unfold slide. destruct (_ <=? _); reflexivity. Qed.
Lemma slide_resolution v b now : resolution (slide v b now) = resolution b.
Proof. unfold resolution. rewrite slide_interval. reflexivity. Qed.

Lemma quot_bounds x r : 0 <= x -> 0 < r -> Z.quot x r * r <= x < (Z.quot x r + 1) * r.
Proof.
  intros Hx Hr. rewrite Z.quot_div_nonneg by lia.
  pose proof (Z.div_mod x r ltac:(lia)). pose proof (Z.mod_pos_bound x r Hr). nia.
Qed.

(** After a slide: the invariant still holds, [updated] is some [u'] with
    [u' <= now], and the total bounds the admissions younger than the window. *)
Lemma slide_SInv v b adm now :
  res_pos b -> SInv b adm -> after_updated b now ->
  SInv (slide v b now) adm /\
  exists u', b_updated (slide v b now) = Some u' /\ u' <= now /\
             (v = Pinned -> u' = now).
Proof.
  intros Hres [Hlen Hinv] Hafter. unfold after_updated in Hafter. unfold slide, raw_ticks.
  destruct (b_updated b) as [u|] eqn:Hu.
  2:{ (* zero time: whole window cleared *)
    cbn [Z.leb]. replace (ticksZ <=? ticksZ + 1) with true by (unfold ticksZ; reflexivity).
    subst adm. split.
    - split; [cbn; rewrite zeros_length; exact Hlen|]. cbn [b_updated b_counts].
      split; [intros a []|]. intros j _. rewrite cnt_gt_nil, psum_zeros. lia.
    - exists now. cbn. repeat split; lia. }
  destruct Hinv as [Hle Hcnt].
  set (t := Z.quot (now - u) (resolution b)) in *.
  pose proof (quot_bounds (now - u) (resolution b) ltac:(lia) Hres) as [Hq1 Hq2].
  fold t in Hq1, Hq2.
  assert (Ht0 : 0 <= t) by (apply Z.quot_pos; unfold res_pos in Hres; lia).
  unfold res_pos in Hres.
  destruct (Z.leb_spec ticksZ t) as [Hcap|Hcap]; unfold ticksZ in Hcap.
  - (* whole window aged out *)
    assert (Hold : forall a, In a adm -> a <= now - 20 * resolution b).
    { intros a Ha. specialize (Hle a Ha). nia. }
    split; [|exists now; cbn; repeat split; lia].
    split; [cbn; rewrite zeros_length; exact Hlen|]. cbn [b_updated b_counts].
    split.
    + intros a Ha. specialize (Hold a Ha). lia.
    + intros j Hj. rewrite psum_zeros. unfold resolution at 1. cbn [b_interval].
      fold (resolution b).
      rewrite cnt_gt_zero; [lia|]. intros a Ha. specialize (Hold a Ha).
      unfold ticksN in Hj. nia.
  - (* fewer than 20 ticks *)
    assert (Hk : (Z.to_nat t <= length (b_counts b))%nat) by (rewrite Hlen; unfold ticksN; lia).
    set (u' := match v with Fixed => u + t * resolution b | Pinned => now end).
    assert (Hu' : u + t * resolution b <= u' <= now) by (unfold u'; destruct v; lia).
    replace (match v with Fixed => Some (u + t * resolution b) | Pinned => Some now end)
      with (Some u') by (unfold u'; destruct v; reflexivity).
    split.
    + split; [cbn; rewrite shift_length by exact Hk; exact Hlen|].
      cbn [b_updated b_counts].
      split.
      * intros a Ha. specialize (Hle a Ha). nia.
      * intros j Hj. rewrite psum_shift by (first [exact Hk | rewrite Hlen; exact Hj]).
        unfold resolution at 1. cbn [b_interval]. fold (resolution b).
        destruct (Nat.leb_spec j (Z.to_nat t)) as [Hjk|Hjk].
        -- rewrite cnt_gt_zero; [lia|]. intros a Ha. specialize (Hle a Ha). nia.
        -- specialize (Hcnt (j - Z.to_nat t)%nat ltac:(lia)).
           eapply Z.le_trans; [|exact Hcnt]. apply cnt_gt_mono. nia.
    + exists u'. cbn [b_updated]. split; [reflexivity|]. split; [lia|].
      intros ->. reflexivity.
Qed.

(** What the total after a slide bounds. *)
Lemma slide_total_bound v b adm now :
  res_pos b -> SInv b adm -> after_updated b now ->
  cnt_gt adm (now - ticksZ * resolution b) <= total (slide v b now).
Proof.
  intros Hres Hinv Hafter.
  destruct (slide_SInv v b adm now Hres Hinv Hafter) as [[Hlen Hinv'] (u' & Hu' & Hle & _)].
  rewrite Hu' in Hinv'. destruct Hinv' as [_ Hcnt].
  specialize (Hcnt ticksN (le_n _)). rewrite slide_resolution in Hcnt.
  rewrite psum_all in Hcnt by (rewrite Hlen; apply le_n).
  rewrite total_sumZ. eapply Z.le_trans; [|exact Hcnt].
  apply cnt_gt_mono. unfold ticksN, ticksZ. lia.
Qed.

Lemma do_SInv v b adm now :
  res_pos b -> SInv b adm -> after_updated b now -> upto adm now ->
  let '(b', ok) := b_do v b now in
  SInv b' (if ok then now :: adm else adm) /\ after_updated b' now /\ res_pos b' /\
  b_limit b' = b_limit b /\ resolution b' = resolution b /\
  (ok = true -> cnt_gt adm (now - ticksZ * resolution b) < b_limit b).
Proof.
  intros Hres Hinv Hafter Hupto. unfold b_do.
  pose proof (slide_total_bound v b adm now Hres Hinv Hafter) as Htot.
  destruct (slide_SInv v b adm now Hres Hinv Hafter) as [[Hlen Hinv'] (u' & Hu' & Hle & Hpin)].
  set (b1 := slide v b now) in *.
  assert (Hres1 : resolution b1 = resolution b) by apply slide_resolution.
  assert (Hlim1 : b_limit b1 = b_limit b) by apply slide_limit.
  destruct (Z.ltb_spec (total b1) (b_limit b1)) as [Hok|Hno].
  - (* admitted *)
    rewrite Hu' in Hinv'. destruct Hinv' as [Hle' Hcnt].
    set (un := match v with Fixed => now | Pinned => u' end).
    assert (Hun : un = now) by (unfold un; destruct v; [apply Hpin|]; reflexivity).
    assert (Hupd : match v with Fixed => Some now | Pinned => b_updated b1 end = Some un)
      by (unfold un; destruct v; [exact Hu'|reflexivity]).
    rewrite Hupd.
    repeat split; cbn [b_counts b_updated b_limit b_interval].
    + rewrite bump_length. exact Hlen.
    + intros a [Ha|Ha]; [lia|]. specialize (Hle' a Ha). lia.
    + intros j Hj. unfold resolution at 1. cbn [b_interval]. fold (resolution b1).
      destruct j as [|j].
      * rewrite psum_0. rewrite cnt_gt_zero; [lia|].
        intros a [Ha|Ha]; [lia|]. specialize (Hle' a Ha). lia.
      * rewrite psum_bump by (try lia; intros Hnil; rewrite Hnil in Hlen; discriminate).
        rewrite cnt_gt_cons. specialize (Hcnt (S j) Hj).
        assert (cnt_gt adm (un - Z.of_nat (S j) * resolution b1)
                <= cnt_gt adm (u' - Z.of_nat (S j) * resolution b1))
          by (apply cnt_gt_mono; lia).
        destruct (_ <? _); lia.
    + unfold after_updated. cbn. lia.
    + unfold res_pos, resolution in *. cbn [b_interval]. unfold b1. rewrite slide_interval. exact Hres.
    + exact Hlim1.
    + unfold resolution. cbn [b_interval]. unfold b1. rewrite slide_interval. reflexivity.
    + intros _. lia.
  - repeat split.
    + exact Hlen.
    + exact Hinv'.
    + unfold after_updated. rewrite Hu'. exact Hle.
    + unfold res_pos. rewrite Hres1. exact Hres.
    + exact Hlim1.
    + exact Hres1.
    + discriminate.
Qed.

(** * Rate bound over whole runs *)

Fixpoint nondecreasing (l : list Z) : Prop :=
  match l with
  | [] => True
  | x :: r => (forall y, In y r -> x <= y) /\ nondecreasing r
  end.

Definition RB (limit w : Z) (adm : list Z) : Prop :=
  forall T, count_in_window adm w T <= limit.

Lemma RB_admit limit w adm now :
  0 < w -> RB limit w adm -> upto adm now -> cnt_gt adm (now - w) < limit ->
  RB limit w (now :: adm).
Proof.
  intros Hw Hrb Hupto Hlt T. rewrite count_window_cons.
  destruct (Z.ltb_spec (T - w) now) as [H1|H1]; cbn [andb].
  - destruct (Z.leb_spec now T) as [H2|H2].
    + pose proof (count_window_le_cnt_gt adm w T).
      pose proof (cnt_gt_mono adm (now - w) (T - w) ltac:(lia)). lia.
    + specialize (Hrb T). lia.
  - specialize (Hrb T). lia.
Qed.

(** Generalised run lemma: from any state satisfying the invariant. *)
Lemma run_do_RB v : forall ts b adm,
  res_pos b -> 1 <= b_limit b -> SInv b adm -> RB (b_limit b) (ticksZ * resolution b) adm ->
  nondecreasing ts -> (forall t, In t ts -> after_updated b t /\ upto adm t) ->
  RB (b_limit b) (ticksZ * resolution b)
     (rev (admitted_times (snd (run_do v b ts))) ++ adm).
Proof.
  induction ts as [|t ts IH]; intros b adm Hres Hlim Hinv Hrb Hnd Hts.
  - cbn. exact Hrb.
  - cbn [run_do]. destruct Hnd as [Hhd Hnd].
    destruct (Hts t (or_introl eq_refl)) as [Haft Hupto].
    pose proof (do_SInv v b adm t Hres Hinv Haft Hupto) as Hdo.
    destruct (b_do v b t) as [b1 ok] eqn:Hdo_eq.
    destruct Hdo as (Hinv1 & Haft1 & Hres1 & Hlim1 & Hreso1 & Hcnt).
    destruct (run_do v b1 ts) as [b2 out] eqn:Hrun.
    cbn [snd]. unfold admitted_times. cbn [filter snd].
    assert (Hw : 0 < ticksZ * resolution b) by (unfold res_pos, ticksZ in *; lia).
    assert (Hrb1 : RB (b_limit b1) (ticksZ * resolution b1) (if ok then t :: adm else adm)).
    { rewrite Hlim1, Hreso1. destruct ok; [|exact Hrb].
      apply RB_admit; auto. }
    assert (Hts1 : forall t', In t' ts ->
               after_updated b1 t' /\ upto (if ok then t :: adm else adm) t').
    { intros t' Ht'. specialize (Hhd t' Ht').
      destruct (Hts t' (or_intror Ht')) as [_ Hup'].
      split.
      - unfold after_updated in *. destruct (b_updated b1); [lia|exact I].
      - destruct ok; [|exact Hup']. intros a [Ha|Ha]; [lia|apply Hup'; exact Ha]. }
    specialize (IH b1 (if ok then t :: adm else adm) Hres1 ltac:(lia) Hinv1 Hrb1 Hnd Hts1).
    rewrite Hrun in IH. cbn [snd] in IH. rewrite Hlim1, Hreso1 in IH.
    destruct ok; cbn [fst map rev].
    + unfold admitted_times in IH. rewrite <- app_assoc. cbn [app]. exact IH.
    + exact IH.
Qed.

Lemma count_window_perm_rev adm w T :
  count_in_window (rev adm) w T = count_in_window adm w T.
Proof.
  unfold count_in_window. f_equal.
  induction adm as [|a adm IH]; [reflexivity|].
  cbn [rev filter]. rewrite filter_app, app_length, IH. cbn [filter].
  destruct (_ && _); cbn [length]; lia.
Qed.

Lemma new_SInv limit interval b : b_new limit interval = Some b -> SInv b [] /\ b_limit b = limit /\ b_interval b = interval /\ b_updated b = None /\ 1 <= limit.
Proof.
  unfold b_new, b_init. destruct (Z.ltb_spec limit 1); [discriminate|].
  intros [= <-]. cbn. repeat split; try reflexivity; lia.
Qed.

(** rate_bound: for every variant of the code, every limit >= 1, every
    interval >= 20ns and every non-decreasing sequence of call instants, no
    window (T - 20*res, T] holds more than [limit] admissions. *)
Theorem rate_bound_run : forall v limit interval b ts T,
  b_new limit interval = Some b -> 20 <= interval -> nondecreasing ts ->
  count_in_window (admitted_times (snd (run_do v b ts)))
                  (ticksZ * Z.quot interval ticksZ) T <= limit.
Proof.
  intros v limit interval b ts T Hnew Hint Hnd.
  destruct (new_SInv _ _ _ Hnew) as (Hinv & Hlim & Hintv & Hupd & Hl1).
  assert (Hres : res_pos b) by (apply res_pos_iff; lia).
  pose proof (run_do_RB v ts b [] Hres ltac:(lia) Hinv) as H.
  rewrite Hlim in H. unfold resolution in H. rewrite Hintv in H.
  assert (Hrb0 : RB limit (ticksZ * Z.quot interval ticksZ) []) by (intros T'; cbn; lia).
  specialize (H Hrb0 Hnd).
  assert (Hts : forall t, In t ts -> after_updated b t /\ upto [] t).
  { intros t _. split; [unfold after_updated; rewrite Hupd; exact I|intros a []]. }
  specialize (H Hts T). rewrite app_nil_r, count_window_perm_rev in H. exact H.
Qed.

(** The boolean checker used on implementation traces is implied by the bound. *)
Lemma rate_bound_check_sound limit w adm :
  (forall T, count_in_window adm w T <= limit) -> rate_bound_check limit w adm = true.
Proof.
  intros H. unfold rate_bound_check. apply forallb_forall. intros T _.
  apply Z.leb_le. apply H.
Qed.

(** Conversely the checker is complete: a window with too many admissions can be
    shrunk to one that ends at an admission. *)
Lemma count_window_shrink adm w T :
  0 < w -> 0 < count_in_window adm w T ->
  exists a, In a adm /\ count_in_window adm w T <= count_in_window adm w a.
Proof.
  intros Hw Hpos.
  (* take the largest admission in the window *)
  assert (Hex : exists a, In a adm /\ T - w < a <= T /\
                          forall a', In a' adm -> T - w < a' <= T -> a' <= a).
  { unfold count_in_window in Hpos.
    induction adm as [|x adm IH]; cbn [filter] in Hpos; [cbn in Hpos; lia|].
    destruct (Z.ltb_spec (T - w) x) as [H1|H1], (Z.leb_spec x T) as [H2|H2];
      cbn [andb] in Hpos.
    - destruct (filter (fun a => (T - w <? a) && (a <=? T)) adm) as [|y l] eqn:Hf.
      + exists x. split; [left; reflexivity|]. split; [lia|].
        intros a' [<-|Ha'] Hin; [lia|].
        assert (In a' (filter (fun a => (T - w <? a) && (a <=? T)) adm)).
        { apply filter_In. split; [exact Ha'|]. lia. }
        rewrite Hf in H. destruct H.
      + destruct IH as (a & Ha & Hin & Hmax); [cbn; lia|].
        destruct (Z.le_gt_cases x a).
        * exists a. split; [right; exact Ha|]. split; [exact Hin|].
          intros a' [<-|Ha'] Hin'; [lia|apply Hmax; assumption].
        * exists x. split; [left; reflexivity|]. split; [lia|].
          intros a' [<-|Ha'] Hin'; [lia|]. specialize (Hmax a' Ha' Hin'). lia.
    - destruct IH as (a & Ha & Hin & Hmax); [exact Hpos|].
      exists a. split; [right; exact Ha|]. split; [exact Hin|].
      intros a' [<-|Ha'] Hin'; [lia|apply Hmax; assumption].
    - destruct IH as (a & Ha & Hin & Hmax); [exact Hpos|].
      exists a. split; [right; exact Ha|]. split; [exact Hin|].
      intros a' [<-|Ha'] Hin'; [lia|apply Hmax; assumption].
    - destruct IH as (a & Ha & Hin & Hmax); [exact Hpos|].
      exists a. split; [right; exact Ha|]. split; [exact Hin|].
      intros a' [<-|Ha'] Hin'; [lia|apply Hmax; assumption]. }
  destruct Hex as (a & Ha & Hin & Hmax). exists a. split; [exact Ha|].
  unfold count_in_window. apply inj_le.
  clear Hpos Ha. induction adm as [|x adm IH]; [reflexivity|].
  cbn [filter].
  assert (Hmax' : forall a', In a' adm -> T - w < a' <= T -> a' <= a)
    by (intros; apply Hmax; [right|]; assumption).
  specialize (IH Hmax').
  destruct (Z.ltb_spec (T - w) x) as [H1|H1], (Z.leb_spec x T) as [H2|H2]; cbn [andb].
  - specialize (Hmax x (or_introl eq_refl) ltac:(lia)).
    destruct (Z.ltb_spec (a - w) x), (Z.leb_spec x a); cbn [andb length]; lia.
  - destruct ((a - w <? x) && (x <=? a)); cbn [length]; lia.
  - destruct ((a - w <? x) && (x <=? a)); cbn [length]; lia.
  - destruct ((a - w <? x) && (x <=? a)); cbn [length]; lia.
Qed.

Lemma rate_bound_check_complete limit w adm :
  0 < w -> 0 <= limit -> rate_bound_check limit w adm = true ->
  forall T, count_in_window adm w T <= limit.
Proof.
  intros Hw Hl Hchk T.
  destruct (Z.le_gt_cases (count_in_window adm w T) 0) as [|Hpos]; [lia|].
  destruct (count_window_shrink adm w T Hw ltac:(lia)) as (a & Ha & Hle).
  unfold rate_bound_check in Hchk. rewrite forallb_forall in Hchk.
  specialize (Hchk a Ha). apply Z.leb_le in Hchk. lia.
Qed.

(** * Liveness of the repaired code (variant [Fixed]) *)

(** [last] is the instant of the most recent admission, if any.  Slots whose
    age-offset is smaller than the distance from [updated] back to [last] are
    empty. *)
Definition LInv (b : breaker) (last : option Z) : Prop :=
  length (b_counts b) = ticksN /\
  match last with
  | None => forall j, psum j (b_counts b) = 0
  | Some t0 =>
      exists u, b_updated b = Some u /\
                forall j, (1 <= j <= ticksN)%nat ->
                          (Z.of_nat j - 1) * resolution b < u - t0 ->
                          psum j (b_counts b) = 0
  end.

Definition aged_out (b : breaker) (last : option Z) (now : Z) : Prop :=
  match last with None => True | Some t0 => t0 + ticksZ * resolution b <= now end.

Lemma slide_LInv b last now :
  res_pos b -> LInv b last -> after_updated b now ->
  LInv (slide Fixed b now) last /\
  (exists u', b_updated (slide Fixed b now) = Some u' /\ u' <= now) /\
  (aged_out b last now -> total (slide Fixed b now) = 0).
Proof.
  intros Hres [Hlen Hinv] Hafter. unfold after_updated in Hafter. unfold slide, raw_ticks.
  unfold res_pos in Hres.
  destruct (b_updated b) as [u|] eqn:Hu.
  2:{ replace (ticksZ <=? ticksZ + 1) with true by (unfold ticksZ; reflexivity).
      destruct last as [t0|]; [destruct Hinv as (u & Hu' & _); discriminate|].
      split; [|split].
      - split; [cbn; rewrite zeros_length; exact Hlen|]. cbn [b_counts].
        intros j. apply psum_zeros.
      - exists now. cbn. split; [reflexivity|lia].
      - intros _. rewrite total_sumZ. cbn [b_counts]. apply sumZ_zeros. }
  set (t := Z.quot (now - u) (resolution b)) in *.
  pose proof (quot_bounds (now - u) (resolution b) ltac:(lia) Hres) as [Hq1 Hq2].
  fold t in Hq1, Hq2.
  assert (Ht0 : 0 <= t) by (apply Z.quot_pos; lia).
  destruct (Z.leb_spec ticksZ t) as [Hcap|Hcap]; unfold ticksZ in Hcap.
  - split; [|split].
    + split; [cbn; rewrite zeros_length; exact Hlen|]. cbn [b_counts b_updated].
      destruct last as [t0|].
      * exists now. split; [reflexivity|]. intros j _ _. apply psum_zeros.
      * intros j. apply psum_zeros.
    + exists now. cbn. split; [reflexivity|lia].
    + intros _. rewrite total_sumZ. cbn [b_counts]. apply sumZ_zeros.
  - assert (Hk : (Z.to_nat t <= length (b_counts b))%nat) by (rewrite Hlen; unfold ticksN; lia).
    split; [|split].
    + split; [cbn; rewrite shift_length by exact Hk; exact Hlen|].
      cbn [b_counts b_updated]. destruct last as [t0|].
      * destruct Hinv as (u0 & Hu0 & Hz). injection Hu0 as <-.
        exists (u + t * resolution b). split; [reflexivity|].
        intros j Hj. unfold resolution at 1. cbn [b_interval]. fold (resolution b).
        intros Hlt.
        rewrite psum_shift by (first [exact Hk | rewrite Hlen; lia]).
        destruct (Nat.leb_spec j (Z.to_nat t)) as [Hjk|Hjk]; [reflexivity|].
        apply Hz; [lia|]. nia.
      * intros j.
        destruct (Nat.le_gt_cases j (length (b_counts b))) as [Hjl|Hjl].
        -- rewrite psum_shift by (first [exact Hk | exact Hjl]).
           destruct (_ <=? _)%nat; [reflexivity|apply Hinv].
        -- rewrite psum_all by (rewrite shift_length by exact Hk; lia).
           pose proof (psum_shift (b_counts b) (Z.to_nat t) (length (b_counts b)) Hk (le_n _)) as Hp.
           rewrite psum_all in Hp by (rewrite shift_length by exact Hk; lia).
           rewrite Hp. destruct (_ <=? _)%nat; [reflexivity|apply Hinv].
    + exists (u + t * resolution b). cbn. split; [reflexivity|lia].
    + intros Haged. rewrite total_sumZ. cbn [b_counts].
      pose proof (psum_shift (b_counts b) (Z.to_nat t) (length (b_counts b)) Hk (le_n _)) as Hp.
      rewrite psum_all in Hp by (rewrite shift_length by exact Hk; lia).
      rewrite Hp. destruct (Nat.leb_spec (length (b_counts b)) (Z.to_nat t)) as [Hjk|Hjk];
        [reflexivity|].
      destruct last as [t0|]; [|apply Hinv].
      destruct Hinv as (u0 & Hu0 & Hz). injection Hu0 as <-.
      unfold aged_out, ticksZ in Haged.
      apply Hz; [rewrite Hlen in *; unfold ticksN in *; lia|].
      rewrite Hlen. unfold ticksN. nia.
Qed.

Lemma do_LInv b last now :
  res_pos b -> LInv b last -> after_updated b now ->
  let '(b', ok) := b_do Fixed b now in
  LInv b' (if ok then Some now else last) /\ after_updated b' now /\ res_pos b' /\
  b_limit b' = b_limit b /\ resolution b' = resolution b /\
  (aged_out b last now -> 1 <= b_limit b -> ok = true).
Proof.
  intros Hres Hinv Hafter. unfold b_do.
  destruct (slide_LInv b last now Hres Hinv Hafter) as ([Hlen Hinv'] & (u' & Hu' & Hle) & Hz).
  set (b1 := slide Fixed b now) in *.
  assert (Hres1 : resolution b1 = resolution b) by apply slide_resolution.
  assert (Hlim1 : b_limit b1 = b_limit b) by apply slide_limit.
  assert (Hint1 : b_interval b1 = b_interval b) by apply slide_interval.
  destruct (Z.ltb_spec (total b1) (b_limit b1)) as [Hok|Hno].
  - repeat split; cbn [b_counts b_updated b_limit b_interval].
    + rewrite bump_length. exact Hlen.
    + exists now. split; [reflexivity|]. intros j Hj.
      unfold resolution. cbn [b_interval]. rewrite Hint1. fold (resolution b).
      unfold res_pos in Hres. intros Hlt. nia.
    + unfold after_updated. cbn. lia.
    + unfold res_pos, resolution in *. cbn [b_interval]. rewrite Hint1. exact Hres.
    + exact Hlim1.
    + unfold resolution. cbn [b_interval]. rewrite Hint1. reflexivity.
  - repeat split.
    + exact Hlen.
    + exact Hinv'.
    + unfold after_updated. rewrite Hu'. exact Hle.
    + unfold res_pos. rewrite Hres1. exact Hres.
    + exact Hlim1.
    + exact Hres1.
    + intros Haged Hl. specialize (Hz Haged). lia.
Qed.

Lemma run_do_recovers : forall ts b last,
  res_pos b -> 1 <= b_limit b -> LInv b last ->
  nondecreasing ts -> (forall t, In t ts -> after_updated b t) ->
  recovers_check_aux (ticksZ * resolution b) last (snd (run_do Fixed b ts)) = true.
Proof.
  induction ts as [|t ts IH]; intros b last Hres Hlim Hinv Hnd Hts; [reflexivity|].
  cbn [run_do]. destruct Hnd as [Hhd Hnd].
  pose proof (do_LInv b last t Hres Hinv (Hts t (or_introl eq_refl))) as Hdo.
  destruct (b_do Fixed b t) as [b1 ok] eqn:Hdo_eq.
  destruct Hdo as (Hinv1 & Haft1 & Hres1 & Hlim1 & Hreso1 & Hlive).
  destruct (run_do Fixed b1 ts) as [b2 out] eqn:Hrun. cbn [snd recovers_check_aux].
  apply andb_true_iff. split.
  - destruct last as [t0|].
    + destruct (Z.leb_spec (t0 + ticksZ * resolution b) t) as [Hle|]; [|reflexivity].
      apply Hlive; [exact Hle|exact Hlim].
    + apply Hlive; [exact I|exact Hlim].
  - specialize (IH b1 (if ok then Some t else last) Hres1 ltac:(lia) Hinv1 Hnd).
    rewrite Hrun, Hreso1 in IH. cbn [snd] in IH. apply IH.
    intros t' Ht'. specialize (Hhd t' Ht'). unfold after_updated in *.
    destruct (b_updated b1); [lia|exact I].
Qed.

Lemma new_LInv limit interval b : b_new limit interval = Some b -> LInv b None.
Proof.
  unfold b_new, b_init. destruct (Z.ltb_spec limit 1); [discriminate|].
  intros [= <-]. split; [reflexivity|]. cbn [b_counts]. intros j. apply psum_zeros.
Qed.

Theorem recovers_run : forall limit interval b ts,
  b_new limit interval = Some b -> 20 <= interval -> nondecreasing ts ->
  recovers_check (ticksZ * Z.quot interval ticksZ) (snd (run_do Fixed b ts)) = true.
Proof.
  intros limit interval b ts Hnew Hint Hnd.
  destruct (new_SInv _ _ _ Hnew) as (_ & Hlim & Hintv & Hupd & Hl1).
  assert (Hres : res_pos b) by (apply res_pos_iff; lia).
  pose proof (run_do_recovers ts b None Hres ltac:(lia) (new_LInv _ _ _ Hnew) Hnd) as H.
  unfold resolution in H. rewrite Hintv in H. apply H.
  intros t _. unfold after_updated. rewrite Hupd. exact I.
Qed.

(** Meaning of the liveness checker. *)
Definition recovers_spec (w : Z) (out : list (Z * bool)) : Prop :=
  forall pre t adm post, out = (pre ++ (t, adm) :: post)%list ->
    (forall a, In (a, true) pre -> a + w <= t) -> adm = true.

Lemma recovers_check_aux_spec w : forall out last,
  recovers_check_aux w last out = true ->
  forall pre t adm post, out = (pre ++ (t, adm) :: post)%list ->
    (forall a, In (a, true) pre -> a + w <= t) ->
    match last with Some t0 => t0 + w <= t | None => True end -> adm = true.
Proof.
  induction out as [|[t1 a1] out IH]; intros last Hchk pre t adm post Heq Hpre Hlast.
  - destruct pre; discriminate.
  - cbn [recovers_check_aux] in Hchk. apply andb_true_iff in Hchk. destruct Hchk as [H1 H2].
    destruct pre as [|p pre].
    + cbn in Heq. injection Heq as -> -> ->.
      destruct last as [t0|]; [|exact H1].
      destruct (Z.leb_spec (t0 + w) t); [exact H1|lia].
    + cbn in Heq. injection Heq as <- ->.
      eapply (IH _ H2 pre t adm post eq_refl).
      * intros a Ha. apply Hpre. right. exact Ha.
      * destruct a1; [apply Hpre; left; reflexivity|exact Hlast].
Qed.

Lemma recovers_check_spec w out : recovers_check w out = true -> recovers_spec w out.
Proof.
  intros H pre t adm post Heq Hpre.
  eapply (recovers_check_aux_spec w out None H pre t adm post Heq Hpre). exact I.
Qed.

(** * The pinned code starves under polling (D21) *)

Definition starve_ts : list Z := map (fun k => 1000 + 5 * k) (map Z.of_nat (seq 0 200)).

Lemma polling_starves_pinned :
  exists b, b_new 1 400 = Some b /\
  recovers_check (ticksZ * Z.quot 400 ticksZ) (snd (run_do Pinned b starve_ts)) = false.
Proof. eexists. split; [reflexivity|]. vm_compute. reflexivity. Qed.

(** Repair (A) alone — whole-tick advance without re-alignment on admission —
    loses up to a tick of safety; here it is as a separate function so the
    reason for the chosen repair stays checked. *)
Definition b_do_A (b : breaker) (now : Z) : breaker * bool :=
  let b1 := slide Fixed b now in
  if total b1 <? b_limit b1 then
    (mkBreaker (b_limit b1) (b_interval b1) (bump (b_counts b1)) (b_updated b1), true)
  else (b1, false).
Fixpoint run_do_A (b : breaker) (ts : list Z) : list (Z * bool) :=
  match ts with
  | [] => []
  | t :: r => let '(b1, adm) := b_do_A b t in (t, adm) :: run_do_A b1 r
  end.

Lemma slide_whole_ticks_alone_unsafe :
  exists b, b_new 2 400 = Some b /\
  rate_bound_check 2 400 (admitted_times (run_do_A b [1000; 1019; 1400; 1401])) = false.
Proof. eexists. split; [reflexivity|]. vm_compute. reflexivity. Qed.

(** * Throttle *)

(** With a breaker that honours "attempted <-> ran" (OutboundBreaker), a
    submitted function runs at most once, and exactly once iff Submit reports
    that it worked. *)
Lemma poll_at_most_once : forall attempts polls,
  Forall (fun p => fst p = snd p) polls ->
  let '(k, worked) := poll attempts polls in
  (k = if worked then 1 else 0).
Proof.
  induction attempts as [|n IH]; intros polls Hc; [reflexivity|].
  destruct polls as [|[att ran] r]; [reflexivity|]. cbn [poll].
  inversion Hc as [|p l Hp Hr]; subst. cbn in Hp. subst ran.
  destruct att; [reflexivity|].
  specialize (IH r Hr). destruct (poll n r) as [k w]. lia.
Qed.

(** SimpleBreaker breaks that contract when it is disabled and open (D22). *)
Lemma simple_breaker_disabled_open_runs_every_poll :
  poll 5 (repeat (simple_do false true) 5) = (5, false).
Proof. reflexivity. Qed.

(** Never more than pendingLimit + 1 submissions really waiting, for every
    interleaving of entries and exits. *)
Definition TInv (s : tstate) : Prop :=
  0 <= ts_waiting s <= t_pending (ts_thr s) /\
  ts_waiting s <= Z.max 0 (t_pending_limit (ts_thr s) + 1).

Lemma tstep_inv s e : TInv s -> TInv (tstep s e) /\
  t_pending_limit (ts_thr (tstep s e)) = t_pending_limit (ts_thr s).
Proof.
  intros [[H0 H1] H2]. destruct e; unfold tstep.
  - unfold submit_enter.
    destruct (Z.ltb_spec (t_pending_limit (ts_thr s)) (t_pending (ts_thr s))) as [Hm|Hm];
      cbn [negb orb].
    + destruct (t_disabled (ts_thr s)); cbn; unfold TInv; cbn; repeat split; lia.
    + cbn. unfold TInv; cbn; repeat split; lia.
  - destruct (Z.ltb_spec 0 (ts_waiting s)); [|unfold TInv; repeat split; lia].
    unfold TInv, submit_exit; cbn. repeat split; lia.
Qed.

Theorem pending_le_limit_plus_one_run : forall es attempts disabled plimit,
  0 <= plimit ->
  ts_waiting (fold_left tstep es (mkT (mkThrottle 0 plimit attempts disabled) 0)) <= plimit + 1.
Proof.
  intros es attempts disabled plimit Hp.
  assert (H : forall es s, TInv s ->
            TInv (fold_left tstep es s) /\
            t_pending_limit (ts_thr (fold_left tstep es s)) = t_pending_limit (ts_thr s)).
  { clear. induction es as [|e es IH]; intros s Hs; [split; [exact Hs|reflexivity]|].
    cbn [fold_left]. destruct (tstep_inv s e Hs) as [Hs' Hl].
    destruct (IH _ Hs') as [Hf Hl']. split; [exact Hf|congruence]. }
  destruct (H es (mkT (mkThrottle 0 plimit attempts disabled) 0)) as [[_ Hw] Hl].
  { unfold TInv; cbn; lia. }
  rewrite Hl in Hw. cbn in Hw. lia.
Qed.

(** The counter itself leaks when the throttle is disabled and over its limit
    (an over-limit Submit increments [pending] and returns without the
    matching decrement).  Noted; the property speaks of waiting submissions. *)
Lemma pending_counter_leaks_when_disabled :
  let t := mkThrottle 3 1 5 true in
  submit_enter t = (mkThrottle 4 1 5 true, false).
Proof. reflexivity. Qed.

(** * Throttle: entries, exits and Disable as one event system *)
From Verif Require Import BreakerSpec.

Lemma tstep2_inv s e : TInv s -> TInv (tstep2 s e) /\
  t_pending_limit (ts_thr (tstep2 s e)) = t_pending_limit (ts_thr s).
Proof.
  destruct e as [e|d]; [apply tstep_inv|].
  intros H. unfold tstep2, TInv, set_disabled in *. cbn. split; [exact H|reflexivity].
Qed.

Lemma fold_tstep2_inv : forall es s, TInv s ->
  TInv (fold_left tstep2 es s) /\
  t_pending_limit (ts_thr (fold_left tstep2 es s)) = t_pending_limit (ts_thr s).
Proof.
  induction es as [|e es IH]; intros s Hs; [split; [exact Hs|reflexivity]|].
  cbn [fold_left]. destruct (tstep2_inv s e Hs) as [Hs' Hl].
  destruct (IH _ Hs') as [Hf Hl']. split; [exact Hf|congruence].
Qed.

Theorem throttle_waiting_bounded : throttle_waiting_bounded_statement.
Proof.
  intros es plimit attempts disabled Hp s.
  destruct (fold_tstep2_inv es (fresh_throttle plimit attempts disabled)) as [[[H0 H1] H2] Hl].
  { unfold TInv, fresh_throttle; cbn; lia. }
  fold s in H0, H1, H2, Hl. cbn in Hl. rewrite Hl in H2.
  split; [lia|].
  unfold enter_admits, submit_enter. cbn [snd]. rewrite Hl.
  intros Ha. apply Bool.negb_true_iff in Ha. apply Z.ltb_ge in Ha. lia.
Qed.

(** Never disabled: the counter is the number waiting. *)
Definition XInv (plimit : Z) (s : tstate) : Prop :=
  t_disabled (ts_thr s) = false /\ t_pending_limit (ts_thr s) = plimit /\
  t_pending (ts_thr s) = ts_waiting s /\ 0 <= ts_waiting s.

Lemma tstep_xinv plimit s e : XInv plimit s -> XInv plimit (tstep s e).
Proof.
  intros (Hd & Hl & Hp & H0). destruct e; unfold tstep.
  - unfold submit_enter. rewrite Hd, Hl, Hp.
    destruct (Z.ltb_spec plimit (ts_waiting s)); cbn [negb orb].
    + unfold XInv. cbn. repeat split; assumption.
    + unfold XInv. cbn. repeat split; try assumption; lia.
  - destruct (Z.ltb_spec 0 (ts_waiting s)).
    + unfold XInv, submit_exit. cbn. repeat split; try assumption; lia.
    + unfold XInv. repeat split; assumption.
Qed.

Lemma fold_tstep_xinv plimit : forall es s, XInv plimit s -> XInv plimit (fold_left tstep es s).
Proof.
  induction es as [|e es IH]; intros s Hs; [exact Hs|].
  cbn [fold_left]. apply IH, tstep_xinv, Hs.
Qed.

Lemma fresh_xinv plimit attempts : XInv plimit (fresh_throttle plimit attempts false).
Proof. unfold XInv, fresh_throttle. cbn. repeat split; lia. Qed.

Lemma xinv_enter_admits plimit s : XInv plimit s -> enter_admits s = (ts_waiting s <=? plimit).
Proof.
  intros (Hd & Hl & Hp & H0). unfold enter_admits, submit_enter. cbn [snd].
  rewrite Hl, Hp. rewrite Z.leb_antisym. reflexivity.
Qed.

Theorem throttle_counter_exact : throttle_counter_exact_statement.
Proof.
  intros es plimit attempts s.
  pose proof (fold_tstep_xinv plimit es _ (fresh_xinv plimit attempts)) as Hx. fold s in Hx.
  split; [apply Hx|]. apply (xinv_enter_admits plimit), Hx.
Qed.

Lemma enters_from plimit : forall n s, XInv plimit s -> 0 <= plimit ->
  ts_waiting (fold_left tstep (repeat TEnter n) s) =
  Z.max (ts_waiting s) (Z.min (ts_waiting s + Z.of_nat n) (plimit + 1)).
Proof.
  induction n as [|n IH]; intros s Hx Hp.
  - cbn [repeat fold_left]. destruct Hx as (_ & _ & _ & H0). lia.
  - cbn [repeat fold_left]. rewrite IH; [|apply tstep_xinv, Hx|exact Hp].
    pose proof (xinv_enter_admits plimit s Hx) as Ha.
    destruct Hx as (Hd & Hl & Hpn & H0).
    unfold tstep. unfold enter_admits in Ha.
    destruct (submit_enter (ts_thr s)) as [t' adm] eqn:He. cbn [snd] in Ha. subst adm.
    destruct (Z.leb_spec (ts_waiting s) plimit); cbn [ts_waiting]; lia.
Qed.

Theorem throttle_recovers : throttle_recovers_statement.
Proof.
  intros es plimit attempts n Hp s Hw.
  pose proof (fold_tstep_xinv plimit es _ (fresh_xinv plimit attempts)) as Hx. fold s in Hx.
  split; [destruct Hx as (_ & _ & Hpn & _); lia|].
  rewrite (enters_from plimit n s Hx Hp). lia.
Qed.

Theorem throttle_overflow_no_effect : throttle_overflow_no_effect_statement.
Proof.
  intros s Hd Ha. unfold tstep. unfold enter_admits in Ha.
  destruct (submit_enter (ts_thr s)) as [t' adm] eqn:He. cbn [snd] in Ha. subst adm.
  unfold submit_enter in He. rewrite Hd in He.
  destruct (t_pending_limit (ts_thr s) <? t_pending (ts_thr s)); cbn [negb orb] in He;
    inversion He; subst. destruct s; reflexivity.
Qed.

(** The hypotheses are satisfiable: a history after which nothing waits. *)
Example throttle_recovers_premise :
  ts_waiting (fold_left tstep [TEnter; TEnter; TEnter; TExit; TExit] (fresh_throttle 1 5 false)) = 0.
Proof. reflexivity. Qed.

(** The recovery half does NOT hold for a throttle that has been disabled: an
    over-limit Submit on a disabled throttle increments [pending] and returns
    ThrottleOverflow without the matching decrement
    ([pending_counter_leaks_when_disabled]); after pendingLimit+1 such
    overflows nothing waits, yet every later Submit overflows -- also after
    Disable(false). *)
Lemma disabled_throttle_never_recovers_counterexample :
  let s := fold_left tstep2
             [TDisable true; TEv TEnter; TEv TEnter; TEv TExit; TDisable false]
             (fresh_throttle 0 5 false) in
  ts_waiting s = 0 /\ t_pending (ts_thr s) = 1 /\ enter_admits s = false /\
  forall n, ts_waiting (fold_left tstep2 (repeat (TEv TEnter) n) s) = 0.
Proof.
  cbn. repeat split.
  induction n as [|n IH]; [reflexivity|exact IH].
Qed.
