(** C06 support (A5, linear state): whatever the removal cascade deletes —
    also when a storage call fails in the middle — lies in the deleteWith
    closure of the id that was removed. *)
From Coq Require Import Lia.
From Verif Require Import Json Outcome Match PatIndex State StateSpec MatchLemmas1
  CascadeSpec CascadeLemmas1 CascadeTerm CascadeExact AssocLemmas StateProofs
  DurableFrame DurableInv DurableSpec DurableExpiry.

Definition lin_inv (s : state) (now : Z) : Prop :=
  st_kind s = Linear /\ no_expired s now.

(** [j] is in the storage (or the memory) of [s] and no longer in that of [s']. *)
Definition lost (s s' : state) (j : string) : Prop :=
  (alookup j (st_store s) <> None /\ alookup j (st_store s') = None) \/
  (alookup j (st_facts s) <> None /\ alookup j (st_facts s') = None).

Lemma lost_refl s j : ~ lost s s j.
Proof. intros [[H1 H2]|[H1 H2]]; contradiction. Qed.

Lemma lost_split a b c j : lost a c j -> lost a b j \/ lost b c j.
Proof.
  intros [[H1 H2]|[H1 H2]].
  - destruct (alookup j (st_store b)) eqn:E.
    + right. left. split; [congruence|exact H2].
    + left. left. split; assumption.
  - destruct (alookup j (st_facts b)) eqn:E.
    + right. right. split; [congruence|exact H2].
    + left. right. split; assumption.
Qed.

Lemma lin_inv_Sub s s' now : Sub s s' -> lin_inv s now -> lin_inv s' now.
Proof.
  intros HS (Hk & Hne). pose proof HS as (Hk' & _ & _ & _ & HF & _).
  split; [congruence|]. eapply Sub_no_expired; eassumption.
Qed.

Lemma Clo_Sub s0 s a b : Sub s0 s -> Clo s a b -> Clo s0 a b.
Proof. intros (_ & _ & _ & _ & HF & _). apply Clo_mono. exact HF. Qed.

Lemma rem_head_lost_linear s x k :
  st_kind s = Linear -> lost s (fst (rem_head s x)) k -> k = x.
Proof.
  intros Hk. unfold rem_head. rewrite Hk. unfold store_call.
  destruct (match st_fail s with Some n => Nat.eqb n (st_calls s) | None => false end); cbn [fst].
  - intros H. exfalso. revert H. unfold lost. cbn [st_store st_facts]. intros [[H1 H2]|[H1 H2]]; contradiction.
  - unfold lost. cbn [st_store st_facts set_store set_facts].
    rewrite !AssocLemmas.alookup_aremove.
    destruct (String.eqb_spec k x) as [->|Hne]; [reflexivity|].
    intros [[H1 H2]|[H1 H2]]; contradiction.
Qed.

Section LostGen.
  Variable rr : state -> string -> Z -> state * outcome bool.
  Variable now : Z.
  Hypothesis rr_Sub : forall s id now, Sub s (fst (rr s id now)).
  Hypothesis rr_lost : forall s j, lin_inv s now ->
    forall k, lost s (fst (rr s j now)) k -> Clo s j k.

  Lemma rem_list_lost s0 x skip : forall ids sc,
    lin_inv sc now -> Sub s0 sc ->
    (forall j, In j ids -> Clo s0 x j) ->
    forall k, lost sc (fst (rem_list rr sc ids skip now)) k -> Clo s0 x k.
  Proof.
    induction ids as [|j r IH]; intros sc Hi HS Hids k; cbn [rem_list].
    - cbn [fst]. intros H. exfalso. eapply lost_refl; exact H.
    - assert (Hids' : forall j0, In j0 r -> Clo s0 x j0)
        by (intros; apply Hids; right; assumption).
      destruct (skipped skip j); [apply IH; assumption|].
      pose proof (Hids j (or_introl eq_refl)) as Hcj.
      pose proof (rr_lost sc j Hi) as Hl. pose proof (rr_Sub sc j now) as HS1.
      destruct (rr sc j now) as [s1 o]. cbn [fst] in Hl, HS1.
      assert (Hfirst : forall k0, lost sc s1 k0 -> Clo s0 x k0).
      { intros k0 Hk0. eapply Clo_trans; [exact Hcj|]. eapply Clo_Sub; [exact HS|]. apply Hl. exact Hk0. }
      destruct o as [b|e|w|]; cbn [fst]; try apply Hfirst.
      intros Hk. apply (lost_split sc s1) in Hk. destruct Hk as [Hk|Hk]; [apply Hfirst; exact Hk|].
      eapply (IH s1); [eapply lin_inv_Sub; eassumption|eapply Sub_trans; eassumption|exact Hids'|exact Hk].
  Qed.

  Lemma delete_dependencies_lost s x :
    lin_inv s now ->
    forall k, lost s (fst (delete_dependencies rr s x now)) k -> Clo s x k.
  Proof.
    intros Hi k. pose proof Hi as (Hk & Hne). unfold delete_dependencies.
    destruct (search_state_pure s x now Hk Hne) as (found & Hs & Hfound). rewrite Hs.
    apply (rem_list_lost s x); [exact Hi|apply Sub_refl|].
    intros j Hj. apply dw_targets_In in Hj. destruct Hj as (_ & fact & Hl & Hh).
    eapply Clo_dep; [apply Clo_root|exact Hl|exact Hh].
  Qed.

  Lemma rem_body_lost s x :
    lin_inv s now ->
    forall k, lost s (fst (rem_body rr s x now)) k -> Clo s x k.
  Proof.
    intros Hi k. pose proof Hi as (Hk & _). rewrite rem_body_head.
    pose proof (Sub_head s x) as HS.
    assert (Hh : lost s (fst (rem_head s x)) k -> Clo s x k).
    { intros H. apply rem_head_lost_linear in H; [|exact Hk]. subst k. apply Clo_root. }
    destruct (snd (rem_head s x)); [|exact Hh].
    rewrite fst_wrapb. intros H. apply (lost_split s (fst (rem_head s x))) in H.
    destruct H as [H|H]; [apply Hh; exact H|].
    eapply Clo_Sub; [exact HS|]. apply delete_dependencies_lost; [eapply lin_inv_Sub; eassumption|exact H].
  Qed.
End LostGen.

Lemma rem_fuel_lost now : forall fuel s x, lin_inv s now ->
  forall k, lost s (fst (rem_fuel fuel s x now)) k -> Clo s x k.
Proof.
  induction fuel as [|f IH]; intros s x Hi k; cbn [rem_fuel].
  - cbn [fst]. intros H. exfalso. eapply lost_refl; exact H.
  - apply rem_body_lost; auto. intros s0 j now0. apply rem_fuel_Sub.
Qed.

Lemma st_Rem_lost_in_closure s id now :
  st_kind s = Linear -> no_expired s now ->
  forall k, lost s (fst (st_Rem s id now)) k -> Clo s id k.
Proof.
  intros Hk Hne k. assert (Hi : lin_inv s now) by (repeat split; assumption).
  unfold st_Rem.
  (* nothing is expired: the purges only empty the list of noted ids *)
  assert (Hwrap : forall (r : state * outcome bool) s0,
            Sub s0 (fst r) -> no_expired s0 now ->
            (lost s (fst r) k -> Clo s id k) -> lost s (fst (with_purge r now)) k -> Clo s id k).
  { intros r s0 HS Hne0 H. rewrite (with_purge_noexp r now (Sub_no_expired _ _ _ HS Hne0)).
    cbn [fst]. exact H. }
  destruct (st_hooks s).
  - unfold st_get. rewrite (with_purge_noexp (get_body s id now) now)
      by (rewrite (get_body_noexp s id now Hne); exact Hne).
    rewrite (get_body_noexp s id now Hne). cbn [fst snd].
    assert (Hi' : lin_inv (set_pending s []) now) by exact Hi.
    destruct (snd (get_body s id now)) as [f|e|w|].
    + apply (Hwrap _ (set_pending s [])); [apply st_rem_Sub|exact Hne|].
      intros H. apply (Clo_mono (set_pending s []) s); [intros j f0 Hj; exact Hj|].
      unfold st_rem in H. apply (rem_fuel_lost now (cascade_fuel (set_pending s [])) (set_pending s []) id Hi' k).
      exact H.
    + apply (Hwrap _ (set_pending s [])); [apply Sub_refl|exact Hne|].
      cbn [fst]. intros H. exfalso. eapply (lost_refl s); exact H.
    + apply (Hwrap _ (set_pending s [])); [apply Sub_refl|exact Hne|].
      cbn [fst]. intros H. exfalso. eapply (lost_refl s); exact H.
    + apply (Hwrap _ (set_pending s [])); [apply Sub_refl|exact Hne|].
      cbn [fst]. intros H. exfalso. eapply (lost_refl s); exact H.
  - apply (Hwrap _ s); [apply st_rem_Sub|exact Hne|]. apply rem_fuel_lost; assumption.
Qed.
