(** C15, registry clause, over histories: for EVERY history of operations of
    the state API and restarts, on either kind of state and with a persistent
    or a non-persistent cron service, the registry of the cron service holds
    exactly the stored scheduled rules after every operation (finding D28 is
    repaired: no hypothesis on the operations is left). *)
From Coq Require Import Lia.
From Verif Require Import Json Outcome Match PatIndex State Location CronHooks StateSpec
  MatchLemmas1 AssocLemmas StateProofs DurableFrame DurableInv DurablePrepare DurableSpec
  DurableMirror DurableExpiry DurableReload DurableReach LocBasics HistClosure HistReload
  CronHooksSpec CronHooksProofs.

(** * Restart *)

Definition sched_call (kv : string * json) : list ccall :=
  match fact_schedule (snd kv) with Some sch => [CSched (fst kv) sch] | None => [] end.

Lemma load_calls_fold l : forall acc,
  fold_left apply_call (flat_map sched_call l) acc = fold_left sched_step l acc.
Proof.
  induction l as [|kv r IH]; intros acc; cbn [flat_map fold_left]; [reflexivity|].
  rewrite fold_left_app, IH. f_equal. unfold sched_step, sched_call.
  destruct (fact_schedule (snd kv)); reflexivity.
Qed.

(** registering every stored scheduled rule with a registry that has none of them *)
Lemma scheds_tracks s reg :
  st_wf s -> (forall j, alookup j reg = None) -> tracks (run (flat_map sched_call (st_facts s)) reg) s.
Proof.
  intros (W & _) Hn j. unfold run. rewrite load_calls_fold, (sched_fold_lookup _ reg j W). unfold olk.
  destruct (alookup j (st_facts s)) as [f|]; [|apply Hn].
  destruct (fact_schedule f); [reflexivity|apply Hn].
Qed.

Lemma rems_keep_other cs : forall reg j,
  Forall is_remj cs -> ~ In (CRemJ j) cs -> alookup j (fold_left apply_call cs reg) = alookup j reg.
Proof.
  induction cs as [|c r IH]; intros reg j Hf Hn; cbn [fold_left]; [reflexivity|].
  inversion Hf as [|c0 r0 Hc Hr]; subst. rewrite IH; [|exact Hr|intros Hin; apply Hn; right; exact Hin].
  destruct c as [i sch|i]; [destruct Hc|]. cbn [apply_call]. apply alookup_aremove_other.
  intros ->. apply Hn. left; reflexivity.
Qed.

(** the calls for the expired records that the indexed state drops at load *)
Definition drop_calls (s' : state) (now : Z) (F : list (string * json)) : list ccall :=
  flat_map (fun kv => if load_expired now kv then unhook_calls s' (fst kv) (snd kv) else []) F.

Lemma drop_calls_rems s' now F : Forall is_remj (drop_calls s' now F).
Proof.
  apply Forall_forall. intros c Hin. unfold drop_calls in Hin. apply in_flat_map in Hin.
  destruct Hin as (kv & _ & Hin). destruct (load_expired now kv); [|destruct Hin].
  unfold unhook_calls in Hin. destruct (st_hooks s'); [|destruct Hin].
  destruct (fact_schedule (snd kv)); [|destruct Hin]. destruct Hin as [<-|[]]. exact I.
Qed.

(** for a prepared fact, "PrepareFact says expired" is "expired" *)
Lemma load_expired_iff id fact now :
  (forall now', fact_expired fact now' = false -> prepare_fact id fact now' id None = Ok (id, fact)) ->
  load_expired now (id, fact) = fact_expired fact now.
Proof.
  intros Hp. unfold load_expired. cbn [fst snd]. destruct (fact_expired fact now) eqn:Hx.
  - rewrite (prepare_expired_err id fact now Hp Hx). reflexivity.
  - rewrite (Hp now Hx). reflexivity.
Qed.

(** * The invariant carried along an instrumented run *)

Definition CI (sr : state * registry) : Prop :=
  registry_exact (snd sr) (fst sr) = true /\ st_wf (fst sr) /\ st_hooks (fst sr) = true /\ M (fst sr) /\
  (st_kind (fst sr) = Indexed -> Idx_sup (fst sr) /\ prepared (fst sr) /\ all_indexable_in (fst sr)).

Lemma CI_init k : CI (cinit k).
Proof.
  unfold CI, cinit. cbn [fst snd]. split; [destruct k; reflexivity|].
  split; [destruct k; repeat split|]. split; [destruct k; reflexivity|].
  split; [destruct k; split; reflexivity|].
  intros _. split; [|split].
  - intros id fact t Hl. destruct k; discriminate.
  - intros id fact Hl. destruct k; discriminate.
  - intros id fact Hl. destruct k; discriminate.
Qed.

Lemma CI_op persistent sr op now : CI sr -> CI (cstep persistent sr (COp op, now)).
Proof.
  destruct sr as [s reg]. unfold CI. cbn [fst snd]. intros (Hex & W & Hh & HM & HI).
  pose proof (cstep_exact persistent s reg op now Hex W Hh (proj1 HM)) as Hex'.
  destruct (cstep persistent (s, reg) (COp op, now)) as [s' reg'] eqn:Ec.
  assert (Es : s' = sstep s (op, now)) by (injection Ec as <- _; reflexivity).
  cbn [fst snd]. subst s'.
  destruct (sstep_Pres s (op, now)) as (P1 & P2 & P3 & _).
  split; [exact Hex'|]. split; [apply sstep_wf; exact W|]. split; [congruence|].
  split; [apply sstep_M; exact HM|].
  intros Hk. rewrite P1 in Hk. destruct (HI Hk) as (Hsup & Hprep & Hix).
  assert (HQ : QI s) by (destruct HM as [Hf Hm]; repeat split; try assumption; apply W).
  destruct (QI_step s (op, now) HQ) as (_ & _ & _ & _ & Hsup' & Hprep' & Hix').
  repeat split; assumption.
Qed.

Lemma CI_reload_linear persistent s reg now :
  st_kind s = Linear -> CI (s, reg) -> CI (cstep persistent (s, reg) (CReload, now)).
Proof.
  intros Hk (Hex & W & Hh & (Hf & Hm) & _). cbn [fst snd] in *.
  unfold cstep, ccalls, reg_before, cstate_step. cbn [fst snd]. rewrite Hk, load_linear. cbn [fst].
  set (s' := mkState Linear (st_store s) [] pn_empty (st_store s) (st_hooks s) 1 None false []).
  assert (W' : st_wf s') by (unfold st_wf, s'; cbn; repeat split; try apply W; reflexivity).
  assert (Hsame : scheduled_rules s' = scheduled_rules s).
  { unfold scheduled_rules, s'. cbn [st_facts]. rewrite Hm. reflexivity. }
  unfold CI. cbn [fst snd].
  split; [|split; [exact W'|split; [exact Hh|split; [split; reflexivity|intros E; discriminate]]]].
  unfold calls_load. replace (st_hooks s') with true by (symmetry; exact Hh). cbn [negb st_kind s' app].
  destruct persistent.
  - cbn [fold_left]. apply registry_exact_eq. rewrite Hsame. apply registry_exact_eq. exact Hex.
  - apply tracks_exact; [exact W'|apply run_sorted; reflexivity|].
    apply (scheds_tracks s' []); [exact W'|reflexivity].
Qed.

Lemma CI_reload_indexed persistent s reg now :
  st_kind s = Indexed -> CI (s, reg) -> CI (cstep persistent (s, reg) (CReload, now)).
Proof.
  intros Hk (Hex & W & Hh & (Hf & Hm) & HI). cbn [fst snd] in *.
  destruct (HI Hk) as (Hsup & Hprep & Hix).
  destruct (exact_tracks reg s W Hex) as [Hsr Htr].
  unfold cstep, ccalls, reg_before, cstate_step. cbn [fst snd]. rewrite Hk, st_load_indexed_unfold.
  set (F := st_store s) in *. set (s1 := mkState Indexed [] [] pn_empty F (st_hooks s) 1 None false []).
  assert (HsF : sorted_keys (map fst F) = true) by apply W.
  assert (HP1 : P s1).
  { unfold P, st_wf, Idx_sup, s1. cbn [st_kind st_facts st_tindex st_store map].
    repeat split; try reflexivity; try exact HsF. intros id fact t Hl. discriminate. }
  assert (HF : forall id fact, In (id, fact) F ->
            (forall now', fact_expired fact now' = false -> prepare_fact id fact now' id None = Ok (id, fact)) /\
            idx_err fact = None).
  { intros id fact Hin. pose proof (In_sorted_alookup _ _ _ HsF Hin) as Hlk. rewrite Hm in Hlk.
    split; [intros now' Hne; apply (Hprep id fact Hlk now' Hne)|].
    apply indexable_fact_iff. apply (Hix id fact Hlk). }
  destruct (load_idx_live now F [] s1 HP1 eq_refl eq_refl) as (s' & Hl & Hfs & Hst & Hk' & Hh' & Hfl' & HP');
    [intros k1 k2 []|exact HsF|exact HF|].
  rewrite Hl. cbn [fst app] in *.
  assert (Hlk' : forall j, alookup j (st_facts s') =
                           match alookup j F with Some x => if live_at now (j, x) then Some x else None | None => None end).
  { intros j. rewrite Hfs. apply alookup_filter_sorted. exact HsF. }
  assert (Hsub : forall j f, alookup j (st_facts s') = Some f -> alookup j (st_facts s) = Some f).
  { intros j f Hj. rewrite Hlk' in Hj. rewrite <- Hm. fold F.
    destruct (alookup j F) as [x|]; [|discriminate]. destruct (live_at now (j, x)); [exact Hj|discriminate]. }
  destruct HP' as (HkP & HwfP & HsupP).
  assert (Hhs' : st_hooks s' = true) by (rewrite Hh'; exact Hh).
  unfold CI. cbn [fst snd]. split; [|split; [exact HwfP|split; [exact Hhs'|split; [split; [exact Hfl'|]|intros _; split; [exact HsupP|split]]]]].
  - (* the registry *)
    unfold calls_load. rewrite Hhs', HkP. cbn [negb]. fold (drop_calls s' now F).
    change (fold_left apply_call (drop_calls s' now F ++ (if persistent then [] else flat_map sched_call (st_facts s')))%list
                      (if persistent then reg else []))
      with (run (drop_calls s' now F ++ (if persistent then [] else flat_map sched_call (st_facts s')))%list
                (if persistent then reg else [])).
    rewrite run_app. destruct persistent.
    + rewrite run_nil. apply tracks_exact; [exact HwfP|apply run_sorted; exact Hsr|].
      intros j. unfold olk. rewrite Hlk'. unfold run.
      destruct (alookup j F) as [x|] eqn:EF.
      * assert (Hin : In (j, x) F) by (apply AssocLemmas.alookup_In; exact EF).
        destruct (HF j x Hin) as [Hpx _].
        pose proof (load_expired_iff j x now Hpx) as Hle.
        assert (Hreg : alookup j reg = fact_schedule x).
        { rewrite Htr. unfold olk. rewrite <- Hm. fold F. rewrite EF. reflexivity. }
        unfold live_at. cbn [snd]. destruct (fact_expired x now) eqn:Hx; cbn [negb].
        -- (* dropped *)
           destruct (fact_schedule x) as [sch|] eqn:Es.
           ++ apply rems_remove; [apply drop_calls_rems|].
              unfold drop_calls. apply in_flat_map. exists (j, x). split; [exact Hin|].
              rewrite Hle. cbn [fst snd]. unfold unhook_calls. rewrite Hhs', Es. left; reflexivity.
           ++ apply rems_keep_none; [apply drop_calls_rems|exact Hreg].
        -- (* kept *)
           rewrite rems_keep_other; [exact Hreg|apply drop_calls_rems|].
           intros Hin'. unfold drop_calls in Hin'. apply in_flat_map in Hin'.
           destruct Hin' as ([j' x'] & Hin2 & Hc).
           destruct (load_expired now (j', x')) eqn:Hle'; [|destruct Hc].
           unfold unhook_calls in Hc. cbn [fst snd] in Hc. destruct (st_hooks s'); [|destruct Hc].
           destruct (fact_schedule x'); [|destruct Hc]. destruct Hc as [Hc|[]]. injection Hc as ->.
           pose proof (In_sorted_alookup _ _ _ HsF Hin2) as E2. rewrite EF in E2. injection E2 as <-.
           rewrite Hle in Hle'. congruence.
      * apply rems_keep_none; [apply drop_calls_rems|].
        rewrite Htr. unfold olk. rewrite <- Hm. fold F. rewrite EF. reflexivity.
    + apply tracks_exact; [exact HwfP|apply run_sorted; apply run_sorted; reflexivity|].
      apply scheds_tracks; [exact HwfP|].
      intros j. apply rems_keep_none; [apply drop_calls_rems|reflexivity].
  - (* the storage mirrors the memory *)
    apply assoc_ext; [apply HwfP|apply HwfP|]. intros j. rewrite Hst, Hlk'.
    rewrite existsb_sorted by exact HsF.
    unfold s1. cbn [st_store]. destruct (alookup j F) as [x|]; [|reflexivity].
    destruct (live_at now (j, x)); reflexivity.
  - intros id fact Hj. apply (Hprep id fact (Hsub id fact Hj)).
  - intros id fact Hj. apply (Hix id fact (Hsub id fact Hj)).
Qed.

Lemma CI_step persistent sr o : CI sr -> CI (cstep persistent sr o).
Proof.
  destruct o as [[op|] now]; [apply CI_op|].
  destruct sr as [s reg]. destruct (st_kind s) eqn:Hk; [apply CI_reload_indexed|apply CI_reload_linear]; exact Hk.
Qed.

Lemma crun_snoc persistent k l o : crun persistent k (l ++ [o]) = cstep persistent (crun persistent k l) o.
Proof. unfold crun. rewrite fold_left_app. reflexivity. Qed.

Lemma CI_crun persistent k ops : CI (crun persistent k ops).
Proof.
  induction ops as [|o l IH] using rev_ind; [apply CI_init|].
  rewrite crun_snoc. apply CI_step. exact IH.
Qed.

(** * THE property *)

Theorem registry_exact_all_ops : registry_exact_all_ops_statement.
Proof.
  intros persistent k ops. pose proof (CI_crun persistent k ops) as (H & _).
  destruct (crun persistent k ops) as [s reg]. exact H.
Qed.

Theorem registry_exact_every_prefix : registry_exact_every_prefix_statement.
Proof. intros persistent k ops ops1 ops2 _. apply registry_exact_all_ops. Qed.

(** * Consequences, per former bypass *)

Lemma crun_tracks persistent k ops :
  let sr := crun persistent k ops in
  st_wf (fst sr) /\ sorted_keys (map fst (snd sr)) = true /\ tracks (snd sr) (fst sr).
Proof.
  cbv zeta. pose proof (CI_crun persistent k ops) as (Hex & W & _).
  destruct (exact_tracks _ _ W Hex) as [Hs Ht]. split; [exact W|split; [exact Hs|exact Ht]].
Qed.

Theorem overwrite_unschedules : overwrite_unschedules_statement.
Proof.
  intros persistent k ops g x fr aux now id.
  pose proof (crun_tracks persistent k (ops ++ [(COp (SAdd g x fr aux), now)])) as (_ & _ & Ht).
  rewrite crun_snoc in Ht. destruct (crun persistent k ops) as [s reg]. intros _.
  destruct (cstep persistent (s, reg) (COp (SAdd g x fr aux), now)) as [s' reg']. cbn [fst snd] in Ht.
  apply Ht.
Qed.

Theorem removed_is_unscheduled : removed_is_unscheduled_statement.
Proof.
  intros persistent k ops o j.
  pose proof (crun_tracks persistent k (ops ++ [o])) as (_ & _ & Ht).
  destruct (crun persistent k (ops ++ [o])) as [s' reg']. cbn [fst snd] in Ht.
  intros Hn. rewrite Ht. unfold olk. rewrite Hn. reflexivity.
Qed.

Theorem clear_unschedules_all : clear_unschedules_all_statement.
Proof.
  intros persistent k ops now.
  pose proof (CI_crun persistent k (ops ++ [(COp SClear, now)])) as (Hex & _).
  pose proof (CI_crun persistent k ops) as (_ & _ & _ & (Hf & _) & _).
  rewrite crun_snoc in *. destruct (crun persistent k ops) as [s reg]. cbn [fst snd] in *.
  apply registry_exact_eq in Hex. rewrite Hex.
  unfold cstep, cstate_step, sstep. cbn [fst snd].
  destruct (st_clear_shape s) as (_ & _ & _ & _ & Hsh). rewrite (will_fail_nofail s Hf) in Hsh.
  destruct Hsh as (_ & _ & F5 & _). unfold scheduled_rules. rewrite F5. reflexivity.
Qed.

Theorem load_reregisters : load_reregisters_statement.
Proof.
  intros persistent k ops now.
  pose proof (registry_exact_all_ops persistent k (ops ++ [(CReload, now)])%list) as Hex.
  rewrite crun_snoc in *. destruct (crun persistent k ops) as [s reg].
  destruct (cstep persistent (s, reg) (CReload, now)) as [s' reg'] eqn:Ec.
  split; [exact Hex|]. intros ->. cbn [fst].
  unfold cstep in Ec. cbn [fst snd reg_before ccalls] in Ec. injection Ec as <- <-. reflexivity.
Qed.

(** * The calls of an operation amount to the difference of the scheduled rules *)

Lemma rems_lookup cs : forall reg j,
  Forall is_remj cs ->
  alookup j (fold_left apply_call cs reg) = if existsb (fun c => match c with CRemJ i => String.eqb i j | _ => false end) cs
                                            then None else alookup j reg.
Proof.
  induction cs as [|c r IH]; intros reg j Hf; cbn [fold_left existsb]; [reflexivity|].
  inversion Hf as [|c0 r0 Hc Hr]; subst. rewrite (IH _ j Hr).
  destruct c as [i sch|i]; [destruct Hc|]. cbn [apply_call]. rewrite alookup_aremove.
  rewrite (String.eqb_sym j i). destruct (String.eqb i j); cbn [orb]; [|reflexivity].
  destruct (existsb _ r); reflexivity.
Qed.

Definition diff_rems (s s' : state) : list ccall :=
  flat_map (fun js : string * string => match sched_of s' (fst js) with None => [CRemJ (fst js)] | Some _ => [] end)
           (scheduled_rules s).

Lemma diff_rems_rems s s' : Forall is_remj (diff_rems s s').
Proof.
  apply Forall_forall. intros c Hin. unfold diff_rems in Hin. apply in_flat_map in Hin.
  destruct Hin as (js & _ & Hin). destruct (sched_of s' (fst js)); [destruct Hin|].
  destruct Hin as [<-|[]]. exact I.
Qed.

Lemma diff_rems_has s s' j :
  st_wf s ->
  existsb (fun c => match c with CRemJ i => String.eqb i j | _ => false end) (diff_rems s s') =
  match olk j s, olk j s' with Some _, None => true | _, _ => false end.
Proof.
  intros W. rewrite <- (sched_lookup s j W).
  destruct (existsb _ (diff_rems s s')) eqn:E.
  - apply existsb_exists in E. destruct E as (c & Hin & Hc). unfold diff_rems in Hin. apply in_flat_map in Hin.
    destruct Hin as ([i sch] & Hin & Hc'). cbn [fst] in Hc'.
    destruct (sched_of s' i) eqn:Es; [destruct Hc'|]. destruct Hc' as [<-|[]]. apply String.eqb_eq in Hc. subst i.
    rewrite (In_sorted_alookup j sch _ (scheduled_rules_sorted s) Hin). unfold olk. unfold sched_of in Es. rewrite Es. reflexivity.
  - destruct (alookup j (scheduled_rules s)) as [sch|] eqn:El; [|reflexivity].
    destruct (olk j s') eqn:Eo; [reflexivity|]. exfalso.
    assert (Hex : existsb (fun c => match c with CRemJ i => String.eqb i j | _ => false end) (diff_rems s s') = true).
    { apply existsb_exists. exists (CRemJ j). split; [|apply String.eqb_refl].
      unfold diff_rems. apply in_flat_map. exists (j, sch). split; [apply AssocLemmas.alookup_In; exact El|].
      cbn [fst]. unfold olk in Eo. unfold sched_of. rewrite Eo. left; reflexivity. }
    congruence.
Qed.

(** what an operation other than a successful add leaves stored was stored before, unchanged *)
Lemma op_keeps s op now j x :
  st_fail s = None ->
  match op with
  | SAdd g x0 fr aux => match snd (st_add s g x0 now fr aux) with Ok _ => False | _ => True end
  | _ => True
  end ->
  olk j (sstep s (op, now)) = Some x -> olk j s = Some x.
Proof.
  intros Hf Hop. unfold olk.
  assert (HS : forall s', (forall i f, alookup i (st_facts s') = Some f -> alookup i (st_facts s) = Some f) ->
               match alookup j (st_facts s') with Some f => fact_schedule f | None => None end = Some x ->
               match alookup j (st_facts s) with Some f => fact_schedule f | None => None end = Some x).
  { intros s' HF H. destruct (alookup j (st_facts s')) as [f|] eqn:E; [|discriminate].
    rewrite (HF j f E). exact H. }
  destruct op as [g x0 fr aux|id|id|p|ev|]; unfold sstep.
  - apply HS. intros i f.
    destruct (prepare_fact g x0 now fr aux) as [[id fact]|e|w|] eqn:Hp.
    2-4: rewrite st_add_prepare_err by (rewrite Hp; intros q; discriminate); cbn [fst]; auto.
    destruct (st_add_shape s g x0 now fr aux id fact Hp) as (c & (_ & _ & _ & _ & F5 & _) & Hcnd).
    pose proof (will_fail_nofail s Hf) as Hwf.
    assert (Hm : ac_mem c = false).
    { destruct c; cbn [ac_cond ac_mem] in *; try reflexivity.
      - destruct Hcnd as (_ & Hw & _). congruence.
      - destruct Hcnd as (_ & _ & _ & Hr). rewrite Hr in Hop. destruct Hop.
      - destruct Hcnd as (_ & _ & _ & Hr). rewrite Hr in Hop. destruct Hop. }
    rewrite F5, Hm. auto.
  - apply HS. apply (st_Rem_Sub s id now).
  - apply HS. apply (st_get_Sub s id now).
  - apply HS. apply (st_search_Sub s p now).
  - apply HS. apply (st_find_rules_Sub s ev now).
  - destruct (st_clear_shape s) as (_ & _ & _ & _ & Hsh). rewrite (will_fail_nofail s Hf) in Hsh.
    destruct Hsh as (_ & _ & F5 & _). rewrite F5. discriminate.
Qed.

Theorem calls_effect_is_diff : calls_effect_is_diff_statement.
Proof.
  intros persistent k ops op now.
  pose proof (CI_crun persistent k ops) as HCI.
  pose proof (CI_op persistent _ op now HCI) as HCI'.
  destruct (crun persistent k ops) as [s reg]. destruct HCI as (Hex & W & Hh & (Hf & _) & _). cbn [fst snd] in *.
  destruct (cstep persistent (s, reg) (COp op, now)) as [s' reg'] eqn:Ec.
  destruct HCI' as (Hex' & W' & _). cbn [fst snd] in *.
  assert (Es : s' = sstep s (op, now)) by (injection Ec as <- _; reflexivity).
  destruct (exact_tracks reg s W Hex) as [Hsr Htr].
  apply registry_exact_eq in Hex'. rewrite Hex'. symmetry.
  apply sorted_alist_ext; [apply apply_calls_sorted; exact Hsr|apply scheduled_rules_sorted|].
  intros j. rewrite (sched_lookup s' j W').
  unfold diff_calls. rewrite Hh. cbn [negb andb]. rewrite app_nil_r. fold (diff_rems s s').
  rewrite fold_left_app.
  set (reg1 := fold_left apply_call (diff_rems s s') reg).
  assert (H1 : alookup j reg1 = match olk j s, olk j s' with Some _, None => None | o, _ => o end).
  { unfold reg1. rewrite (rems_lookup _ reg j (diff_rems_rems s s')), (diff_rems_has s s' j W), Htr.
    destruct (olk j s); [destruct (olk j s')|]; reflexivity. }
  destruct op as [g x fr aux|id|id|p|ev|];
    try (cbn [fold_left]; rewrite H1;
         destruct (olk j s') as [x'|] eqn:Eo;
         [rewrite Es in Eo; match type of Eo with olk _ (sstep _ (?o, _)) = _ => rewrite (op_keeps s o now j x' Hf I Eo) end; reflexivity
         |destruct (olk j s); reflexivity]).
  (* add *)
  destruct (snd (st_add s g x now fr aux)) as [id|e|w|] eqn:Er.
  2-4: cbn [fold_left]; rewrite H1; destruct (olk j s') as [x'|] eqn:Eo;
       [rewrite Es in Eo; rewrite (op_keeps s (SAdd g x fr aux) now j x' Hf) by (try rewrite Er; try exact I; exact Eo); reflexivity
       |destruct (olk j s); reflexivity].
  (* a successful add of [id] *)
  destruct (prepare_fact g x now fr aux) as [[id0 fact]|e|w|] eqn:Hp.
  2-4: rewrite st_add_prepare_err in Er by (rewrite Hp; intros q; discriminate); rewrite Hp in Er; discriminate.
  destruct (st_add_shape s g x now fr aux id0 fact Hp) as (c & (_ & _ & _ & _ & F5 & _) & Hcnd).
  assert (Hm : ac_mem c = true /\ id = id0).
  { rewrite Er in Hcnd. destruct c; cbn [ac_cond ac_mem] in *.
    - destruct Hcnd as (_ & e & He). discriminate.
    - destruct Hcnd as (_ & _ & He). discriminate.
    - destruct Hcnd as (_ & _ & _ & He). injection He as ->. split; reflexivity.
    - destruct Hcnd as (_ & _ & He). discriminate.
    - destruct Hcnd as (_ & e & _ & He). discriminate.
    - destruct Hcnd as (_ & _ & _ & He). injection He as ->. split; reflexivity. }
  destruct Hm as [Hm <-]. rewrite Hm in F5.
  assert (Hf' : st_facts s' = ainsert id fact (st_facts s)) by (rewrite Es; exact F5).
  assert (Ho : forall i, i <> id -> olk i s' = olk i s).
  { intros i Hne. unfold olk. rewrite Hf', (alookup_ainsert_other id i fact _ Hne). reflexivity. }
  change (sched_of s' id) with (olk id s').
  destruct (String.eqb_spec j id) as [->|Hne].
  - destruct (olk id s') as [sch|] eqn:Eo.
    + cbn [fold_left apply_call]. apply alookup_ainsert_same.
    + cbn [fold_left]. rewrite H1. destruct (olk id s); reflexivity.
  - assert (E2 : alookup j (fold_left apply_call
                     (match olk id s' with Some sch => [CSched id sch] | None => [] end) reg1) = alookup j reg1).
    { destruct (olk id s'); cbn [fold_left apply_call]; [apply alookup_ainsert_other; exact Hne|reflexivity]. }
    rewrite E2, H1, (Ho j Hne). destruct (olk j s); reflexivity.
Qed.

(** The hypotheses-free theorem applies to histories that take every former
    bypass (CronHooksProofs.history_example computes one). *)

Print Assumptions registry_exact_all_ops.
Print Assumptions registry_exact_every_prefix.
Print Assumptions overwrite_unschedules.
Print Assumptions removed_is_unscheduled.
Print Assumptions clear_unschedules_all.
Print Assumptions load_reregisters.
Print Assumptions calls_effect_is_diff.
