(** C02: fact search is exact behind the inverted index.
    Proofs of the five statements of StateSpec.v:
      idx_sup_reachable, terms_subset, search_exact, get_exact, add_visible.
    Depends on AssocLemmas.v (string order, association lists, string sets). *)
From Coq Require Import Lia.
From Verif Require Import Json Outcome Match PatIndex State StateSpec AssocLemmas.

(** C02, part 1: the superset invariant of the inverted index holds in every
    reachable state. *)

(** * The inverted index *)

Lemma ti_ids_ti_add t id idx t' :
  ti_ids (ti_add t id idx) t' =
  if String.eqb t' t then sset_add id (ti_ids idx t) else ti_ids idx t'.
Proof.
  unfold ti_add. unfold ti_ids at 1. rewrite alookup_ainsert.
  destruct (String.eqb t' t); reflexivity.
Qed.

Lemma ti_ids_ti_rem t id idx t' :
  ti_ids (ti_rem t id idx) t' =
  if String.eqb t' t then sset_rem id (ti_ids idx t) else ti_ids idx t'.
Proof.
  unfold ti_rem. destruct (alookup t idx) as [ids|] eqn:E.
  - destruct (sset_rem id ids) as [|a l] eqn:R.
    + unfold ti_ids at 1. rewrite alookup_aremove.
      destruct (String.eqb t' t); [|reflexivity].
      unfold ti_ids. rewrite E, R. reflexivity.
    + unfold ti_ids at 1. rewrite alookup_ainsert.
      destruct (String.eqb t' t); [|reflexivity].
      unfold ti_ids. rewrite E, R. reflexivity.
  - destruct (String.eqb_spec t' t) as [->|Hne]; [|reflexivity].
    unfold ti_ids. rewrite E. reflexivity.
Qed.

Lemma sorted_ti_add t id idx :
  sorted_keys (map fst idx) = true -> sorted_keys (map fst (ti_add t id idx)) = true.
Proof. unfold ti_add. apply sorted_ainsert. Qed.

Lemma sorted_ti_rem t id idx :
  sorted_keys (map fst idx) = true -> sorted_keys (map fst (ti_rem t id idx)) = true.
Proof.
  unfold ti_rem. intros H. destruct (alookup t idx) as [ids|]; [|exact H].
  destruct (sset_rem id ids); [apply sorted_aremove|apply sorted_ainsert]; exact H.
Qed.

Lemma sorted_fold_ti_add id terms : forall idx,
  sorted_keys (map fst idx) = true ->
  sorted_keys (map fst (fold_left (fun idx t => ti_add t id idx) terms idx)) = true.
Proof.
  induction terms as [|t r IH]; intros idx H; cbn [fold_left]; [exact H|].
  apply IH. apply sorted_ti_add; exact H.
Qed.

Lemma sorted_fold_ti_rem id terms : forall idx,
  sorted_keys (map fst idx) = true ->
  sorted_keys (map fst (fold_left (fun idx t => ti_rem t id idx) terms idx)) = true.
Proof.
  induction terms as [|t r IH]; intros idx H; cbn [fold_left]; [exact H|].
  apply IH. apply sorted_ti_rem; exact H.
Qed.

Lemma In_fold_ti_add id terms x t' : forall idx,
  In x (ti_ids (fold_left (fun idx t => ti_add t id idx) terms idx) t') <->
  In x (ti_ids idx t') \/ (x = id /\ In t' terms).
Proof.
  induction terms as [|t r IH]; intros idx; cbn [fold_left In].
  - tauto.
  - rewrite IH, ti_ids_ti_add. destruct (String.eqb_spec t' t) as [->|Hne].
    + rewrite In_sset_add. tauto.
    + intuition congruence.
Qed.

Lemma In_fold_ti_rem_other id terms x t' : forall idx,
  x <> id -> In x (ti_ids idx t') ->
  In x (ti_ids (fold_left (fun idx t => ti_rem t id idx) terms idx) t').
Proof.
  induction terms as [|t r IH]; intros idx Hne Hin; cbn [fold_left]; [exact Hin|].
  apply IH; [exact Hne|]. rewrite ti_ids_ti_rem.
  destruct (String.eqb_spec t' t) as [->|Hne']; [|exact Hin].
  apply In_sset_rem. split; assumption.
Qed.

(** * The invariant *)

Definition P (s : state) : Prop := st_kind s = Indexed /\ st_wf s /\ Idx_sup s.

Lemma P_ext s s' :
  st_kind s' = st_kind s -> st_facts s' = st_facts s ->
  st_tindex s' = st_tindex s -> st_store s' = st_store s -> P s -> P s'.
Proof.
  unfold P, st_wf, Idx_sup. intros -> -> -> ->. auto.
Qed.

(** Equality up to the rule index. *)
Definition eqp (s s' : state) : Prop :=
  st_kind s' = st_kind s /\ st_facts s' = st_facts s /\ st_tindex s' = st_tindex s /\
  st_store s' = st_store s /\ st_hooks s' = st_hooks s /\ st_calls s' = st_calls s /\
  st_fail s' = st_fail s /\ st_amb s' = st_amb s /\ st_pending s' = st_pending s.

Lemma eqp_refl s : eqp s s.
Proof. unfold eqp; tauto. Qed.

Lemma eqp_trans a b c : eqp a b -> eqp b c -> eqp a c.
Proof. unfold eqp. intuition congruence. Qed.

Lemma eqp_set_pindex s p : eqp s (set_pindex s p).
Proof. unfold eqp; cbn. tauto. Qed.

Lemma eqp_unindex_rule s id rule : eqp s (unindex_rule s id rule).
Proof.
  unfold unindex_rule. destruct (is_scheduled rule); [apply eqp_refl|].
  destruct (rule_patterns rule); [apply eqp_set_pindex|apply eqp_refl].
Qed.

Lemma eqp_index_rule s id rule : eqp s (fst (index_rule s id rule)).
Proof.
  unfold index_rule. destruct (rule_patterns rule); [|apply eqp_refl].
  destruct (pi_add (st_pindex s) j id). apply eqp_set_pindex.
Qed.

Lemma eqp_P s s' : eqp s s' -> P s -> P s'.
Proof. unfold eqp. intros H. apply P_ext; tauto. Qed.

Lemma P_store_call s : P s -> P (fst (store_call s)).
Proof. apply P_ext; reflexivity. Qed.

Lemma P_set_amb s a : P s -> P (set_amb s a).
Proof. apply P_ext; reflexivity. Qed.

Lemma P_set_pending s p : P s -> P (set_pending s p).
Proof. apply P_ext; reflexivity. Qed.

Lemma P_set_fail s f : P s -> P (set_fail s f).
Proof. apply P_ext; reflexivity. Qed.

Lemma P_set_store_ainsert s id fact : P s -> P (set_store s (ainsert id fact (st_store s))).
Proof.
  unfold P, st_wf, Idx_sup. cbn [st_kind st_facts st_tindex st_store set_store].
  intros (Hk & (H1 & H2 & H3) & Hi). repeat split; try assumption.
  apply sorted_ainsert; exact H3.
Qed.

Lemma P_set_store_aremove s id : P s -> P (set_store s (aremove id (st_store s))).
Proof.
  unfold P, st_wf, Idx_sup. cbn [st_kind st_facts st_tindex st_store set_store].
  intros (Hk & (H1 & H2 & H3) & Hi). repeat split; try assumption.
  apply sorted_aremove; exact H3.
Qed.

(** Recording a fact. *)
Lemma P_record s id fact :
  P s ->
  P (set_facts (set_tindex s (fold_left (fun idx t => ti_add t id idx) (extract_terms fact) (st_tindex s)))
               (ainsert id fact (st_facts s))).
Proof.
  unfold P, st_wf, Idx_sup. cbn [st_kind st_facts st_tindex st_store set_facts set_tindex].
  intros (Hk & (H1 & H2 & H3) & Hi). repeat split; try assumption.
  - apply sorted_ainsert; exact H1.
  - apply sorted_fold_ti_add; exact H2.
  - intros id' fact' t Hl Ht. rewrite alookup_ainsert in Hl.
    apply In_fold_ti_add. destruct (String.eqb_spec id' id) as [->|Hne].
    + injection Hl as <-. right. split; [reflexivity|exact Ht].
    + left. eapply Hi; eassumption.
Qed.

(** Dropping a fact. *)
Lemma P_drop s id fact :
  P s ->
  P (set_tindex (set_facts s (aremove id (st_facts s)))
                (fold_left (fun idx t => ti_rem t id idx) (extract_terms fact) (st_tindex s))).
Proof.
  unfold P, st_wf, Idx_sup. cbn [st_kind st_facts st_tindex st_store set_facts set_tindex].
  intros (Hk & (H1 & H2 & H3) & Hi). repeat split; try assumption.
  - apply sorted_aremove; exact H1.
  - apply sorted_fold_ti_rem; exact H2.
  - intros id' fact' t Hl Ht. rewrite alookup_aremove in Hl.
    destruct (String.eqb_spec id' id) as [->|Hne]; [discriminate|].
    apply In_fold_ti_rem_other; [exact Hne|]. eapply Hi; eassumption.
Qed.

(** * st_add_mem_idx *)

Lemma st_add_mem_idx_spec s id fact s' e :
  st_add_mem_idx s id fact = (s', e) ->
  exists s2, eqp s s2 /\
    match e with
    | Some _ => s' = s2
    | None =>
        s' = set_facts (set_tindex s2 (fold_left (fun idx t => ti_add t id idx) (extract_terms fact) (st_tindex s2)))
                       (ainsert id fact (st_facts s2))
    end.
Proof.
  unfold st_add_mem_idx.
  destruct (extract_rule fact false) as [rule|e0|w|].
  2-4: intros H; injection H as <- <-; exists s; split; [apply eqp_refl|reflexivity].
  set (oldrule := match alookup id (st_facts s) with
                  | Some old => match extract_rule old false with Ok r => r | _ => None end
                  | None => None
                  end).
  clearbody oldrule.
  set (s1 := match oldrule with Some r => unindex_rule s id r | None => s end).
  assert (H1 : eqp s s1).
  { subst s1. destruct oldrule; [apply eqp_unindex_rule|apply eqp_refl]. }
  clearbody s1.
  match goal with
  | |- (let '(a, b) := ?X in _) = _ -> _ => assert (H2 : eqp s (fst X)); [|destruct X as [s2 err]]
  end.
  { destruct rule as [r|]; [|exact H1].
    destruct (is_scheduled r); [exact H1|].
    pose proof (eqp_index_rule s1 id r) as H3.
    destruct (index_rule s1 id r) as [sx [ex|]]; cbn [fst] in *.
    - destruct oldrule as [o|]; [|eapply eqp_trans; eassumption].
      destruct (is_scheduled o); [eapply eqp_trans; eassumption|].
      eapply eqp_trans; [|apply eqp_index_rule]. eapply eqp_trans; eassumption.
    - eapply eqp_trans; eassumption. }
  cbn [fst] in H2.
  destruct err as [e1|]; intros H; injection H as <- <-; exists s2; split; try exact H2; reflexivity.
Qed.

Lemma P_st_add_mem_idx s id fact :
  P s -> P (fst (st_add_mem_idx s id fact)).
Proof.
  intros HP. destruct (st_add_mem_idx s id fact) as [s' e] eqn:E.
  apply st_add_mem_idx_spec in E. destruct E as (s2 & He & Hs'). cbn [fst].
  apply (eqp_P _ _ He) in HP.
  destruct e; subst s'; [exact HP|]. apply P_record; exact HP.
Qed.

(** * Removal *)

Section RemInv.
  Variable rem_rec : state -> string -> Z -> state * outcome bool.
  Hypothesis rem_rec_P : forall s id now, P s -> P (fst (rem_rec s id now)).

  Lemma expire_P s id fact now : P s -> P (fst (expire s id fact now)).
  Proof.
    intros HP. unfold expire. destruct (fact_expired fact now); [|exact HP].
    cbn [fst]. apply P_set_pending; exact HP.
  Qed.

  Lemma search_ids_P ids : forall s pattern now acc,
    P s -> P (fst (search_ids s ids pattern now acc)).
  Proof.
    induction ids as [|id r IH]; intros s pattern now acc HP; cbn [search_ids].
    - exact HP.
    - destruct (alookup id (st_facts s)) as [fact|]; [|apply IH; exact HP].
      pose proof (expire_P s id fact now HP) as H.
      destruct (expire s id fact now) as [s1 expired]. cbn [fst] in H.
      destruct expired; [apply IH; exact H|].
      destruct (core_match pattern fact []) as [[|b bss]|e|w|]; try exact H; apply IH; exact H.
  Qed.

  Lemma search_state_P s pattern now :
    P s -> P (fst (search_state s pattern now)).
  Proof.
    intros HP. unfold search_state. destruct (st_kind s).
    - destruct (ti_search (st_tindex s) (extract_terms pattern)); try exact HP.
      apply search_ids_P; exact HP.
    - apply search_ids_P; exact HP.
  Qed.

  Lemma rem_list_P ids : forall s skip now,
    P s -> P (fst (rem_list rem_rec s ids skip now)).
  Proof.
    induction ids as [|j r IH]; intros s skip now HP; cbn [rem_list].
    - exact HP.
    - destruct (skipped skip j); [apply IH; exact HP|].
      pose proof (rem_rec_P s j now HP) as H.
      destruct (rem_rec s j now) as [s1 [b|e|w|]]; cbn [fst] in *; try exact H.
      apply IH; exact H.
  Qed.

  Lemma delete_dependencies_P s id now :
    P s -> P (fst (delete_dependencies rem_rec s id now)).
  Proof.
    intros HP. unfold delete_dependencies.
    pose proof (search_state_P s (dw_pattern id) now HP) as H.
    destruct (search_state s (dw_pattern id) now) as [s1 [found|e|w|]]; cbn [fst] in *; try exact H.
    apply rem_list_P; exact H.
  Qed.

  Lemma rem_body_P s id now : P s -> P (fst (rem_body rem_rec s id now)).
  Proof.
    intros HP. unfold rem_body.
    assert (Hk : st_kind s = Indexed) by apply HP. rewrite Hk.
    destruct (alookup id (st_facts s)) as [fact|] eqn:El.
    - set (s1 := match extract_rule fact false with
                 | Ok (Some rule) => unindex_rule s id rule
                 | _ => s
                 end).
      assert (H1 : eqp s s1).
      { subst s1. destruct (extract_rule fact false) as [[rule|]| | |]; try apply eqp_refl.
        apply eqp_unindex_rule. }
      apply (eqp_P _ _ H1) in HP.
      pose proof (P_drop s1 id fact HP) as H3.
      cbn [st_tindex set_facts] in H3 |- *.
      set (s3 := set_tindex _ _) in *.
      apply P_store_call in H3.
      destruct (store_call s3) as [s4 failed]. cbn [fst] in H3.
      destruct failed; [exact H3|].
      apply (P_set_store_aremove s4 id) in H3.
      pose proof (delete_dependencies_P _ id now H3) as H6.
      destruct (delete_dependencies rem_rec (set_store s4 (aremove id (st_store s4))) id now) as [s6 [u|e|w|]];
        exact H6.
    - pose proof (delete_dependencies_P _ id now HP) as H6.
      destruct (delete_dependencies rem_rec s id now) as [s6 [u|e|w|]]; exact H6.
  Qed.
End RemInv.

Lemma rem_fuel_P fuel : forall s id now, P s -> P (fst (rem_fuel fuel s id now)).
Proof.
  induction fuel as [|f IH]; intros s id now HP; cbn [rem_fuel].
  - exact HP.
  - apply rem_body_P; assumption.
Qed.

Lemma st_rem_P s id now : P s -> P (fst (st_rem s id now)).
Proof. apply rem_fuel_P. Qed.

Lemma st_rem_rec_P s id now : P s -> P (fst (st_rem_rec s id now)).
Proof. apply rem_fuel_P. Qed.

(** * The purge: any invariant kept by the removals and blind to the list of
    noted ids is kept by the purge, hence by the public entry points *)
Section PurgeInv.
  Variable Q : state -> Prop.
  Hypothesis Q_pending : forall s p, Q s -> Q (set_pending s p).
  Hypothesis Q_rem : forall s id now, Q s -> Q (fst (st_rem s id now)).

  Lemma purge_ids_inv ids : forall s now, Q s -> Q (fst (purge_ids s ids now)).
  Proof.
    induction ids as [|id r IH]; intros s now HQ; cbn [purge_ids]; [exact HQ|].
    destruct (alookup id (st_facts s)) as [fact|]; [|apply IH; exact HQ].
    destruct (fact_expired fact now); [|apply IH; exact HQ].
    pose proof (Q_rem s id now HQ) as H.
    destruct (st_rem s id now) as [s1 [b|e|w|]]; cbn [fst] in *; try exact H; apply IH; exact H.
  Qed.

  Lemma purge_fuel_inv fuel : forall s now, Q s -> Q (fst (purge_fuel fuel s now)).
  Proof.
    induction fuel as [|f IH]; intros s now HQ; cbn [purge_fuel].
    - destruct (st_pending s); exact HQ.
    - destruct (st_pending s) as [|i ids] eqn:Ep; [exact HQ|].
      pose proof (purge_ids_inv (i :: ids) (set_pending s []) now (Q_pending s [] HQ)) as H.
      destruct (purge_ids (set_pending s []) (i :: ids) now) as [s1 [u|e|w|]]; cbn [fst] in *; try exact H.
      apply IH; exact H.
  Qed.

  Lemma purge_inv s now : Q s -> Q (fst (purge s now)).
  Proof. apply purge_fuel_inv. Qed.

  Lemma with_purge_inv {A} (r : state * outcome A) now : Q (fst r) -> Q (fst (with_purge r now)).
  Proof. intros H. unfold with_purge. cbn [fst]. apply purge_inv; exact H. Qed.
End PurgeInv.

Lemma fst_with_purge {A} (r : state * outcome A) now : fst (with_purge r now) = fst (purge (fst r) now).
Proof. reflexivity. Qed.

(** nothing noted: the purge does nothing *)
Lemma purge_nil s now : st_pending s = [] -> purge s now = (s, Ok tt).
Proof. intros H. unfold purge, purge_rounds. cbn [purge_fuel]. rewrite H. reflexivity. Qed.

Lemma with_purge_nil {A} (s : state) (o : outcome A) now :
  st_pending s = [] -> with_purge (s, o) now = (s, o).
Proof.
  intros H. unfold with_purge. cbn [fst snd]. rewrite (purge_nil s now H). cbn [fst snd].
  destruct o; reflexivity.
Qed.

Lemma expire_false s id fact now : fact_expired fact now = false -> expire s id fact now = (s, false).
Proof. intros H. unfold expire. rewrite H. reflexivity. Qed.

Lemma expire_true s id fact now :
  fact_expired fact now = true -> expire s id fact now = (note_expired s id, true).
Proof. intros H. unfold expire. rewrite H. reflexivity. Qed.

Lemma P_with_purge {A} (r : state * outcome A) now : P (fst r) -> P (fst (with_purge r now)).
Proof. apply (with_purge_inv P P_set_pending st_rem_P). Qed.

Lemma st_search_P s p now : P s -> P (fst (st_search s p now)).
Proof. intros HP. unfold st_search. apply P_with_purge. apply search_state_P; exact HP. Qed.

Lemma get_body_P s id now : P s -> P (fst (get_body s id now)).
Proof.
  intros HP. unfold get_body. destruct (alookup id (st_facts s)) as [fact|]; [|exact HP].
  pose proof (expire_P s id fact now HP) as H.
  destruct (expire s id fact now) as [s1 [|]]; exact H.
Qed.

Lemma st_get_P s id now : P s -> P (fst (st_get s id now)).
Proof. intros HP. unfold st_get. apply P_with_purge. apply get_body_P; exact HP. Qed.

Lemma st_Rem_P s id now : P s -> P (fst (st_Rem s id now)).
Proof.
  intros HP. unfold st_Rem. apply P_with_purge.
  destruct (st_hooks s); [|apply st_rem_P; exact HP].
  pose proof (st_get_P s id now HP) as H.
  destruct (st_get s id now) as [s1 [b|e|w|]]; cbn [fst] in *; try exact H.
  apply st_rem_P; exact H.
Qed.

Lemma find_ids_idx_P ids : forall s now acc, P s -> P (fst (find_ids_idx s ids now acc)).
Proof.
  induction ids as [|id r IH]; intros s now acc HP; cbn [find_ids_idx].
  - exact HP.
  - destruct (alookup id (st_facts s)) as [fact|]; [|exact HP].
    pose proof (expire_P s id fact now HP) as H.
    destruct (expire s id fact now) as [s1 expired]. cbn [fst] in H.
    destruct expired; [apply IH; exact H|].
    destruct (extract_rule fact true) as [[body|]|e|w|]; try exact H. apply IH; exact H.
Qed.

Lemma do_find_rules_P s ev now : P s -> P (fst (do_find_rules s ev now)).
Proof.
  intros HP. unfold do_find_rules. apply P_with_purge.
  assert (Hk : st_kind s = Indexed) by apply HP. rewrite Hk.
  destruct (pi_search (st_pindex s) ev); try exact HP. apply find_ids_idx_P; exact HP.
Qed.

Lemma st_find_rules_P s ev now : P s -> P (fst (st_find_rules s ev now)).
Proof.
  intros HP. unfold st_find_rules.
  pose proof (do_find_rules_P s ev now HP) as H.
  destruct (do_find_rules s ev now) as [s1 res]. cbn [fst] in H.
  destruct res as [l|e|w|]; exact H.
Qed.

Lemma st_clear_P s : P s -> P (fst (st_clear s)).
Proof.
  intros HP. unfold st_clear.
  assert (Hk : st_kind s = Indexed) by apply HP.
  pose proof (P_store_call s HP) as H.
  destruct (store_call s) as [s1 failed] eqn:E. rewrite Hk. cbn [fst] in *.
  destruct failed; [exact H|]. cbn [fst].
  destruct H as (Hk1 & _ & _).
  unfold P, st_wf, Idx_sup. cbn. repeat split; try assumption.
  intros id fact t Hl. discriminate.
Qed.

Lemma st_add_P s given x now fresh aux : P s -> P (fst (st_add s given x now fresh aux)).
Proof.
  intros HP. unfold st_add.
  assert (Hk : st_kind s = Indexed) by apply HP.
  destruct (prepare_fact given x now fresh aux) as [[id fact]|e|w|]; try exact HP.
  rewrite Hk.
  destruct (extract_rule fact false) as [rule|e|w|]; try exact HP.
  destruct (add_hook_err s fact) as [e|].
  - cbn [fst]. exact HP.
  - pose proof (P_st_add_mem_idx s id fact HP) as H1.
    destruct (st_add_mem_idx s id fact) as [s1 [e|]]; cbn [fst] in *; [exact H1|].
    apply P_store_call in H1.
    destruct (store_call s1) as [s2 failed]. cbn [fst] in H1.
    destruct failed; [exact H1|]. cbn [fst]. apply P_set_store_ainsert; exact H1.
Qed.

Lemma P_empty hooks fail : P (set_fail (empty_state Indexed hooks) fail).
Proof.
  unfold P, st_wf, Idx_sup. cbn. repeat split; try reflexivity.
  intros id fact t Hl. discriminate.
Qed.

Lemma sstep_P s o : P s -> P (sstep s o).
Proof.
  destruct o as [op now]. unfold sstep. destruct op.
  - apply st_add_P.
  - apply st_Rem_P.
  - apply st_get_P.
  - apply st_search_P.
  - apply st_find_rules_P.
  - apply st_clear_P.
Qed.

Lemma fold_sstep_P ops : forall s, P s -> P (fold_left sstep ops s).
Proof.
  induction ops as [|o r IH]; intros s HP; cbn [fold_left]; [exact HP|].
  apply IH. apply sstep_P; exact HP.
Qed.

Lemma idx_sup_reachable_main : idx_sup_reachable_statement.
Proof.
  unfold idx_sup_reachable_statement, reachable. intros hooks fail ops.
  pose proof (fold_sstep_P ops _ (P_empty hooks fail)) as H.
  cbv zeta. split; apply H.
Qed.

(** C02, part 2: exactness of the indexed search; get; add. *)

(** * TermIndex.Search computes the intersection *)

Lemma ti_pick_smallest_Some idx r : forall i lowest sm0 sm,
  ti_pick_smallest idx r i lowest sm0 = Some sm ->
  sm = sm0 \/ (i <= sm < i + length r)%nat.
Proof.
  induction r as [|t r IH]; intros i lowest sm0 sm; cbn [ti_pick_smallest length].
  - intros H. injection H as <-. left; reflexivity.
  - destruct (Nat.eqb (length (ti_ids idx t)) 0); [discriminate|].
    intros H. apply IH in H. destruct H as [H|H].
    + destruct (length (ti_ids idx t) <? lowest)%nat; [right; lia|left; exact H].
    + right; lia.
Qed.

Lemma ti_pick_smallest_None idx r : forall i lowest sm0,
  ti_pick_smallest idx r i lowest sm0 = None ->
  exists t, In t r /\ ti_ids idx t = [].
Proof.
  induction r as [|t r IH]; intros i lowest sm0; cbn [ti_pick_smallest].
  - discriminate.
  - destruct (Nat.eqb (length (ti_ids idx t)) 0) eqn:E.
    + intros _. exists t. split; [left; reflexivity|].
      apply Nat.eqb_eq in E. destruct (ti_ids idx t); [reflexivity|discriminate].
    + intros H. apply IH in H. destruct H as (t' & Hin & Ht'). exists t'. split; [right; exact Hin|exact Ht'].
Qed.

Lemma In_fold_inter idx terms : forall acc x,
  In x (fold_left (fun acc t => sset_inter acc (ti_ids idx t)) terms acc) <->
  In x acc /\ forall t, In t terms -> In x (ti_ids idx t).
Proof.
  induction terms as [|t r IH]; intros acc x; cbn [fold_left In].
  - split; [intros H; split; [exact H|intros ? []]|intros [H _]; exact H].
  - rewrite IH, In_sset_inter. split.
    + intros [[H1 H2] H3]. split; [exact H1|]. intros t' [<-|Hin]; [exact H2|apply H3; exact Hin].
    + intros [H1 H2]. split; [split; [exact H1|apply H2; left; reflexivity]|].
      intros t' Hin. apply H2. right; exact Hin.
Qed.

Lemma ti_search_spec idx terms :
  terms <> [] ->
  exists ids, ti_search idx terms = Ok ids /\
              forall x, In x ids <-> forall t, In t terms -> In x (ti_ids idx t).
Proof.
  intros Hne. destruct terms as [|t0 r]; [congruence|]. clear Hne.
  unfold ti_search.
  destruct (ti_pick_smallest idx r 1 (length (ti_ids idx t0)) 0) as [sm|] eqn:E.
  - eexists. split; [reflexivity|]. intros x. rewrite In_fold_inter.
    split; [intros [_ H]; exact H|]. intros H. split; [|exact H].
    apply H. apply nth_In. apply ti_pick_smallest_Some in E. cbn [length]. lia.
  - exists []. split; [reflexivity|]. intros x. split; [intros []|].
    intros H. apply ti_pick_smallest_None in E. destruct E as (t & Hin & Ht).
    specialize (H t (or_intror Hin)). rewrite Ht in H. exact H.
Qed.

(** * The candidate loop when nothing has expired *)

Lemma search_ids_noexp pattern now ids : forall s acc,
  no_expired s now ->
  (forall id fact, alookup id (st_facts s) = Some fact ->
                   exists bss, core_match pattern fact [] = Ok bss) ->
  exists res, search_ids s ids pattern now acc = (s, Ok res) /\
    forall i b, In (i, b) res <->
      In (i, b) acc \/
      (In i ids /\ b <> [] /\
       exists fact, alookup i (st_facts s) = Some fact /\ core_match pattern fact [] = Ok b).
Proof.
  induction ids as [|id r IH]; intros s acc Hexp Hok; cbn [search_ids].
  - exists (rev acc). split; [reflexivity|]. intros i b. rewrite <- in_rev.
    split; [intros H; left; exact H|]. intros [H|[[] _]]; exact H.
  - destruct (alookup id (st_facts s)) as [fact|] eqn:El.
    + assert (Hx : expire s id fact now = (s, false)).
      { unfold expire. rewrite (Hexp id fact El). reflexivity. }
      rewrite Hx. destruct (Hok id fact El) as (bss & Hm). rewrite Hm.
      destruct bss as [|b0 bss].
      * destruct (IH s acc Hexp Hok) as (res & Hres & Hin). exists res. split; [exact Hres|].
        intros i b. rewrite Hin. cbn [In]. split.
        -- intros [H|(H1 & H2 & H3)]; [left; exact H|right]. repeat split; try assumption. right; exact H1.
        -- intros [H|([<-|H1] & H2 & fact' & H3 & H4)]; [left; exact H| |].
           ++ rewrite El in H3. injection H3 as <-. rewrite Hm in H4. injection H4 as <-. congruence.
           ++ right. repeat split; try assumption. exists fact'. split; assumption.
      * destruct (IH s ((id, b0 :: bss) :: acc) Hexp Hok) as (res & Hres & Hin). exists res.
        split; [exact Hres|].
        intros i b. rewrite Hin. cbn [In]. split.
        -- intros [[H|H]|(H1 & H2 & H3)].
           ++ injection H as <- <-. right. split; [left; reflexivity|]. split; [discriminate|].
              exists fact. split; assumption.
           ++ left; exact H.
           ++ right. repeat split; try assumption. right; exact H1.
        -- intros [H|([<-|H1] & H2 & fact' & H3 & H4)]; [left; right; exact H| |].
           ++ rewrite El in H3. injection H3 as <-. rewrite Hm in H4. injection H4 as <-.
              left; left; reflexivity.
           ++ right. repeat split; try assumption. exists fact'. split; assumption.
    + destruct (IH s acc Hexp Hok) as (res & Hres & Hin). exists res. split; [exact Hres|].
      intros i b. rewrite Hin. cbn [In]. split.
      * intros [H|(H1 & H2 & H3)]; [left; exact H|right]. repeat split; try assumption. right; exact H1.
      * intros [H|([<-|H1] & H2 & fact' & H3 & H4)]; [left; exact H| |].
        -- rewrite El in H3. discriminate.
        -- right. repeat split; try assumption. exists fact'. split; assumption.
Qed.

Lemma search_exact_main : search_exact_statement.
Proof.
  unfold search_exact_statement.
  intros s pattern now Hk Hwf Hsup Hexp Hpend Hterms Hok Hsub.
  unfold st_search, search_state. rewrite Hk.
  destruct (ti_search_spec (st_tindex s) (extract_terms pattern) Hterms) as (ids & Hts & Hids).
  rewrite Hts.
  destruct (search_ids_noexp pattern now ids s [] Hexp Hok) as (res1 & Hr1 & Hin1).
  assert (Hexp' : no_expired (as_linear s) now) by exact Hexp.
  assert (Hok' : forall id fact, alookup id (st_facts (as_linear s)) = Some fact ->
                                 exists bss, core_match pattern fact [] = Ok bss) by exact Hok.
  destruct (search_ids_noexp pattern now (map fst (st_facts s)) (as_linear s) [] Hexp' Hok')
    as (res2 & Hr2 & Hin2).
  exists (Ok res1), (Ok res2). split; [rewrite Hr1; apply with_purge_nil; exact Hpend|]. split.
  - cbn [st_kind as_linear st_facts]. rewrite Hr2. apply with_purge_nil. exact Hpend.
  - intros [i b]. rewrite Hin1, Hin2. cbn [In st_facts as_linear].
    split; intros [[]|(H1 & H2 & fact & H3 & H4)]; right; (split; [|split; [exact H2|exists fact; split; assumption]]).
    + eapply alookup_In_keys; exact H3.
    + apply Hids. intros t Ht. eapply Hsup; [exact H3|]. eapply Hsub; eassumption.
Qed.

(** * Get *)

Lemma get_exact_main : get_exact_statement.
Proof.
  unfold get_exact_statement. intros s id now _ Hpend. unfold st_get, get_body.
  destruct (alookup id (st_facts s)) as [fact|]; [|apply with_purge_nil; exact Hpend].
  intros Hf. rewrite (expire_false s id fact now Hf). apply with_purge_nil; exact Hpend.
Qed.

(** C02, part 3: terms of a pattern that lays over a fact; add. *)

(** * extract_terms_raw, unfolded *)

Fixpoint raw_list (l : list json) : list string :=
  match l with [] => [] | y :: r => (extract_terms_raw y ++ raw_list r)%list end.

Definition key_terms (k : string) : list string :=
  if negb (is_var k) && (String.length k <? 1024)%nat then [k] else [].
Definition val_terms (k : string) (v : json) : list string :=
  if String.eqb k "rule" || has_suffix "!" k then [] else extract_terms_raw v.

Fixpoint raw_kvs (l : list (string * json)) : list string :=
  match l with
  | [] => []
  | (k, v) :: r => (key_terms k ++ val_terms k v ++ raw_kvs r)%list
  end.

Lemma raw_arr l : extract_terms_raw (JArr l) = raw_list l.
Proof.
  induction l as [|y r IH]; [reflexivity|]. cbn [raw_list]. rewrite <- IH. reflexivity.
Qed.

Lemma raw_obj kvs : extract_terms_raw (JObj kvs) = raw_kvs kvs.
Proof.
  induction kvs as [|[k v] r IH]; [reflexivity|]. cbn [raw_kvs]. rewrite <- IH. reflexivity.
Qed.

Lemma In_raw_list t l :
  In t (raw_list l) <-> exists y, In y l /\ In t (extract_terms_raw y).
Proof.
  induction l as [|y r IH]; cbn [raw_list In].
  - split; [intros []|intros (y & [] & _)].
  - rewrite in_app_iff, IH. split.
    + intros [H|(y' & H1 & H2)]; [exists y; split; [left; reflexivity|exact H]|].
      exists y'. split; [right; exact H1|exact H2].
    + intros (y' & [<-|H1] & H2); [left; exact H2|]. right. exists y'. split; assumption.
Qed.

Lemma In_raw_kvs t l :
  In t (raw_kvs l) <->
  exists k v, In (k, v) l /\ (In t (key_terms k) \/ In t (val_terms k v)).
Proof.
  induction l as [|[k v] r IH]; cbn [raw_kvs In].
  - split; [intros []|intros (k & v & [] & _)].
  - rewrite !in_app_iff, IH. split.
    + intros [H|[H|(k' & v' & H1 & H2)]].
      * exists k, v. split; [left; reflexivity|left; exact H].
      * exists k, v. split; [left; reflexivity|right; exact H].
      * exists k', v'. split; [right; exact H1|exact H2].
    + intros (k' & v' & [E|H1] & H2).
      * injection E as <- <-. destruct H2 as [H2|H2]; [left; exact H2|right; left; exact H2].
      * right; right. exists k', v'. split; assumption.
Qed.

Lemma In_extract_terms t x : In t (extract_terms x) <-> In t (extract_terms_raw x).
Proof. unfold extract_terms. apply In_fold_sset_add. Qed.

(** * Laying *)

Lemma picks_In {A} (l : list A) y rest :
  In (y, rest) (picks l) -> In y l /\ incl rest l.
Proof.
  revert y rest. induction l as [|x r IH]; intros y rest; cbn [picks In].
  - intros [].
  - intros [E|H].
    + injection E as <- <-. split; [left; reflexivity|apply incl_tl, incl_refl].
    + apply in_map_iff in H. destruct H as ([y' rest'] & E & Hin). cbn [fst snd] in E.
      injection E as <- <-. apply IH in Hin. destruct Hin as [H1 H2].
      split; [right; exact H1|]. intros z [<-|Hz]; [left; reflexivity|right; apply H2; exact Hz].
Qed.

Lemma lay_inj_In rec n : forall pl dl,
  lay_inj rec n pl dl = true ->
  forall x, In x pl -> exists y, In y dl /\ rec x y = true.
Proof.
  induction n as [|f IH]; intros pl dl; cbn [lay_inj].
  - discriminate.
  - destruct pl as [|x0 r]; [intros _ x []|].
    intros H x Hx. apply existsb_exists in H. destruct H as ([y rest] & Hp & H).
    cbn [fst snd] in H. apply andb_true_iff in H. destruct H as [H1 H2].
    apply picks_In in Hp. destruct Hp as [Hy Hrest].
    destruct Hx as [<-|Hx].
    + exists y. split; assumption.
    + destruct (IH r rest H2 x Hx) as (y' & Hy' & Hr). exists y'. split; [apply Hrest; exact Hy'|exact Hr].
Qed.

Lemma dedup_scalars_In y l : forall seen, In y (dedup_scalars l seen) -> In y l.
Proof.
  induction l as [|z r IH]; intros seen; cbn [dedup_scalars In].
  - intros [].
  - destruct (is_scalar z).
    + destruct (mem_json z seen).
      * intros H. right. eapply IH; exact H.
      * intros [<-|H]; [left; reflexivity|right; eapply IH; exact H].
    + intros [<-|H]; [left; reflexivity|right; eapply IH; exact H].
Qed.

Lemma no_propvar_arr l : no_propvar (JArr l) = forallb no_propvar l.
Proof. reflexivity. Qed.

Lemma no_propvar_obj kvs :
  no_propvar (JObj kvs) = forallb (fun kv => negb (is_var (fst kv)) && no_propvar (snd kv)) kvs.
Proof. reflexivity. Qed.

Lemma lay_obj f b pk dk :
  no_propvar (JObj pk) = true -> lay (S f) b (JObj pk) (JObj dk) = true ->
  forall k pv, In (k, pv) pk ->
               exists dv, alookup k dk = Some dv /\ lay f b pv dv = true.
Proof.
  rewrite no_propvar_obj. intros Hnp. cbn [lay].
  destruct pk as [|[k0 pv0] [|kv2 r]].
  - intros _ k pv [].
  - cbn [forallb fst snd] in Hnp. rewrite andb_true_r in Hnp.
    apply andb_true_iff in Hnp. destruct Hnp as [Hv _]. apply negb_true_iff in Hv. rewrite Hv.
    intros H k pv [E|[]]. injection E as <- <-.
    destruct (alookup k0 dk) as [dv|]; [|discriminate]. exists dv. split; [reflexivity|exact H].
  - intros H k pv Hin. rewrite forallb_forall in H. specialize (H (k, pv) Hin). cbn [fst snd] in H.
    apply andb_true_iff in H. destruct H as [_ H].
    destruct (alookup k dk) as [dv|]; [|discriminate]. exists dv. split; [reflexivity|exact H].
Qed.

Lemma lay_terms fuel : forall b p d,
  no_propvar p = true -> lay fuel b p d = true ->
  forall t, In t (extract_terms_raw p) -> In t (extract_terms_raw d).
Proof.
  induction fuel as [|f IH]; intros b p d Hnp; [discriminate|].
  destruct p as [|x|z|s|pl|pk].
  - intros _ t [].
  - intros _ t [].
  - intros _ t [].
  - cbn [lay extract_terms_raw]. destruct (is_var s) eqn:V; cbn [negb andb].
    + intros _ t [].
    + destruct d as [| | |s'| |]; try discriminate.
      intros H. apply String.eqb_eq in H. subst s'. cbn [extract_terms_raw]. rewrite V. cbn [negb andb].
      intros t Ht; exact Ht.
  - cbn [lay]. destruct d as [| | | |dl|]; try discriminate.
    intros H t. rewrite !raw_arr, !In_raw_list. intros (x & Hx & Ht).
    destruct (lay_inj_In _ _ _ _ H x Hx) as (y & Hy & Hl).
    apply dedup_scalars_In in Hy. exists y. split; [exact Hy|].
    rewrite no_propvar_arr, forallb_forall in Hnp.
    eapply IH; [apply Hnp; exact Hx|exact Hl|exact Ht].
  - destruct d as [| | | | |dk]; try (cbn [lay]; discriminate).
    intros H t. rewrite !raw_obj, !In_raw_kvs. intros (k & pv & Hin & Ht).
    destruct (lay_obj f b pk dk Hnp H k pv Hin) as (dv & Hl & Hlay).
    exists k, dv. split; [apply alookup_In; exact Hl|].
    destruct Ht as [Ht|Ht]; [left; exact Ht|right].
    unfold val_terms in *. destruct (String.eqb k "rule" || has_suffix "!" k); [exact Ht|].
    rewrite no_propvar_obj, forallb_forall in Hnp. specialize (Hnp (k, pv) Hin). cbn [fst snd] in Hnp.
    apply andb_true_iff in Hnp. destruct Hnp as [_ Hnp].
    eapply IH; eassumption.
Qed.

Lemma terms_subset_main : terms_subset_statement.
Proof.
  unfold terms_subset_statement. intros p fact b Hnp _ _ Hlay t.
  rewrite !In_extract_terms. eapply lay_terms; eassumption.
Qed.

(** * Add *)

Lemma prepare_fact_id given x now fresh aux id fact :
  prepare_fact given x now fresh aux = Ok (id, fact) ->
  id_props (jO x) = [] -> id = if String.eqb given "" then fresh else given.
Proof.
  unfold prepare_fact, gen_id. intros H Hnil. rewrite Hnil in H. cbn [obind] in H.
  destruct (set_expires (jO x) now aux) as [[[m' expiring] E]|e|w|]; cbn [obind] in H; try discriminate.
  destruct (expiring && not_after E now); [discriminate|]. injection H as <- _. reflexivity.
Qed.

Lemma add_visible_main : add_visible_statement.
Proof.
  unfold add_visible_statement. intros s given x now fresh aux s' id _ H.
  unfold st_add in H.
  destruct (prepare_fact given x now fresh aux) as [[id0 fact]|e|w|] eqn:Hp; try discriminate.
  assert (Hgoal : id = id0 /\ alookup id0 (st_facts s') = Some fact /\
                  alookup id0 (st_store s') = Some fact /\
                  (forall j, j <> id0 -> alookup j (st_facts s') = alookup j (st_facts s))).
  { destruct (st_kind s).
    - destruct (extract_rule fact false) as [rule|e|w|]; try discriminate.
      destruct (add_hook_err s fact); [discriminate|].
      destruct (st_add_mem_idx s id0 fact) as [s1 [e|]] eqn:E; [discriminate|].
      apply st_add_mem_idx_spec in E. destruct E as (s2 & He & ->).
      match type of H with (let '(a, b) := ?X in _) = _ => destruct X as [s3 failed] eqn:Esc end.
      destruct failed; [discriminate|]. injection H as <- <-.
      unfold store_call in Esc. injection Esc as <- _.
      cbn [st_facts st_store set_store set_facts set_tindex].
      destruct He as (_ & Hf & _). rewrite Hf.
      split; [reflexivity|]. split; [apply alookup_ainsert_same|].
      split; [apply alookup_ainsert_same|].
      intros j Hj. apply alookup_ainsert_other; exact Hj.
    - destruct (add_hook_err s fact); [discriminate|].
      destruct (store_call s) as [s1 failed] eqn:Esc.
      destruct failed; [discriminate|]. injection H as <- <-.
      unfold store_call in Esc. injection Esc as <- _.
      cbn [st_facts st_store set_store set_facts].
      split; [reflexivity|]. split; [apply alookup_ainsert_same|].
      split; [apply alookup_ainsert_same|].
      intros j Hj. apply alookup_ainsert_other; exact Hj. }
  destruct Hgoal as (-> & H1 & H2 & H3).
  split.
  - eapply prepare_fact_id; exact Hp.
  - exists fact. repeat split; assumption.
Qed.

(** * The five theorems *)

Theorem idx_sup_reachable : idx_sup_reachable_statement.
Proof. exact idx_sup_reachable_main. Qed.

Theorem terms_subset : terms_subset_statement.
Proof. exact terms_subset_main. Qed.

Theorem search_exact : search_exact_statement.
Proof. exact search_exact_main. Qed.

Theorem get_exact : get_exact_statement.
Proof. exact get_exact_main. Qed.

Theorem add_visible : add_visible_statement.
Proof. exact add_visible_main. Qed.

Print Assumptions idx_sup_reachable.
Print Assumptions terms_subset.
Print Assumptions search_exact.
Print Assumptions get_exact.
Print Assumptions add_visible.
