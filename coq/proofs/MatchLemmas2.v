(** The specification side: lay, Lay, LS, ExtG. *)
From Coq Require Import Lia Permutation.
From Verif Require Import Json Outcome Match MatchSpec MatchLemmas1.

(** * Generic list helpers *)

Lemma existsb_ext_in {A} (f g : A -> bool) l :
  (forall x, In x l -> f x = g x) -> existsb f l = existsb g l.
Proof.
  induction l as [|a l IH]; cbn; intros H; auto.
  rewrite H by auto. rewrite IH; auto.
Qed.

Lemma forallb_ext_in {A} (f g : A -> bool) l :
  (forall x, In x l -> f x = g x) -> forallb f l = forallb g l.
Proof.
  induction l as [|a l IH]; cbn; intros H; auto.
  rewrite H by auto. rewrite IH; auto.
Qed.

Lemma Forall2_imp_in {A B} (R R' : A -> B -> Prop) l l' :
  (forall x y, In x l -> In y l' -> R x y -> R' x y) -> Forall2 R l l' -> Forall2 R' l l'.
Proof.
  intros H HF. induction HF; constructor.
  - apply H; cbn; auto.
  - apply IHHF. intros; apply H; cbn; auto.
Qed.

Lemma bool_eq_iff (a b : bool) : (a = true <-> b = true) -> a = b.
Proof.
  destruct a, b; intros [H1 H2]; try reflexivity; [symmetry; apply H1|apply H2]; reflexivity.
Qed.

(** * picks *)

Lemma picks_In {A} (l : list A) y r :
  In (y, r) (picks l) <-> exists l1 l2, l = (l1 ++ y :: l2)%list /\ r = (l1 ++ l2)%list.
Proof.
  revert y r. induction l as [|x l IH]; intros y r; cbn [picks In].
  - split; [tauto|]. intros [l1 [l2 [H _]]]. destruct l1; discriminate.
  - split.
    + intros [H|H].
      * inversion H; subst. exists []. eexists. split; reflexivity.
      * apply in_map_iff in H. destruct H as [[y' r'] [H1 H2]]. cbn in H1. inversion H1; subst.
        apply IH in H2. destruct H2 as [l1 [l2 [-> ->]]].
        exists (x :: l1), l2. auto.
    + intros [l1 [l2 [H1 H2]]]. destruct l1 as [|x' l1]; cbn in H1; inversion H1; subst.
      * left. reflexivity.
      * right. apply in_map_iff. exists (y, (l1 ++ l2)%list). split; auto.
        apply IH. eauto.
Qed.

(** * lay_inj *)

Lemma lay_inj_mono_rec (rec rec' : json -> json -> bool) : forall n pl dl,
  (forall x y, In x pl -> rec x y = true -> rec' x y = true) ->
  lay_inj rec n pl dl = true -> lay_inj rec' n pl dl = true.
Proof.
  induction n as [|n IH]; intros pl dl H; cbn [lay_inj]; auto.
  destruct pl as [|x r]; auto.
  rewrite !existsb_exists. intros [pr [Hin Hpr]]. exists pr. split; auto.
  apply andb_true_iff in Hpr. destruct Hpr as [H1 H2]. apply andb_true_iff. split.
  - apply H; cbn; auto.
  - apply IH; auto. intros; apply H; cbn; auto.
Qed.

Lemma lay_inj_ext_rec (rec rec' : json -> json -> bool) n pl dl :
  (forall x y, In x pl -> rec x y = rec' x y) ->
  lay_inj rec n pl dl = lay_inj rec' n pl dl.
Proof.
  intros H. apply bool_eq_iff. split; apply lay_inj_mono_rec; intros x y Hin Hr.
  - rewrite <- H; auto.
  - rewrite H; auto.
Qed.

Lemma lay_inj_perm (rec : json -> json -> bool) : forall pl n D,
  (length pl <= n)%nat ->
  (lay_inj rec (S n) pl D = true <->
   exists ys rest, Forall2 (fun x y => rec x y = true) pl ys /\ Permutation D (ys ++ rest)%list).
Proof.
  induction pl as [|x r IH]; intros n D Hn.
  - cbn [lay_inj]. split; auto. intros _. exists [], D. split; [constructor|reflexivity].
  - destruct n as [|n]; [cbn in Hn; lia|]. cbn [length] in Hn.
    remember (S n) as n1. cbn [lay_inj]. subst n1.
    rewrite existsb_exists. split.
    + intros [[y D'] [Hin Hpr]]. cbn [fst snd] in Hpr.
      apply andb_true_iff in Hpr. destruct Hpr as [H1 H2].
      apply IH in H2; [|lia]. destruct H2 as [ys [rest [HF HP]]].
      apply picks_In in Hin. destruct Hin as [l1 [l2 [-> ->]]].
      exists (y :: ys), rest. split; [constructor; auto|].
      cbn. rewrite <- Permutation_middle. constructor. exact HP.
    + intros [ys [rest [HF HP]]]. inversion HF as [|x' y r' ys' Hxy HF']; subst.
      assert (Hin : In y D).
      { eapply Permutation_in; [symmetry; exact HP|]. cbn. auto. }
      apply in_split in Hin. destruct Hin as [l1 [l2 ->]].
      exists (y, (l1 ++ l2)%list). split.
      * apply picks_In. eauto.
      * cbn [fst snd]. rewrite Hxy. cbn [andb]. apply IH; [lia|].
        exists ys', rest. split; auto.
        cbn in HP. symmetry in HP. apply Permutation_cons_app_inv in HP. symmetry. exact HP.
Qed.

Lemma lay_inj_In (rec : json -> json -> bool) : forall n pl dl x,
  lay_inj rec n pl dl = true -> In x pl -> exists y, In y dl /\ rec x y = true.
Proof.
  induction n as [|n IH]; intros pl dl x H Hin; cbn [lay_inj] in H; [discriminate|].
  destruct pl as [|x0 r]; [destruct Hin|].
  apply existsb_exists in H. destruct H as [[y D'] [Hp Hpr]]. cbn [fst snd] in Hpr.
  apply andb_true_iff in Hpr. destruct Hpr as [H1 H2].
  apply picks_In in Hp. destruct Hp as [l1 [l2 [-> ->]]].
  destruct Hin as [<-|Hin].
  - exists y. split; auto. apply in_or_app. right. left. reflexivity.
  - destruct (IH _ _ _ H2 Hin) as [y' [Hy' Hr]]. exists y'. split; auto.
    apply in_app_or in Hy'. apply in_or_app. destruct Hy'; [left|right; right]; auto.
Qed.

Lemma dedup_scalars_incl : forall l seen y, In y (dedup_scalars l seen) -> In y l.
Proof.
  induction l as [|x l IH]; intros seen y; cbn [dedup_scalars]; auto.
  destruct (is_scalar x).
  - destruct (mem_json x seen).
    + intros H. right. eapply IH; eauto.
    + intros [H|H]; [left; auto|right; eapply IH; eauto].
  - intros [H|H]; [left; auto|right; eapply IH; eauto].
Qed.

(** * lay: unfolding, fuel *)

Lemma lay_S f b p d :
  lay (S f) b p d =
  match p with
  | JNull => match d with JNull => true | _ => false end
  | JBool x => match d with JBool y => Bool.eqb x y | _ => false end
  | JNum x => match d with JNum y => x =? y | _ => false end
  | JStr s =>
      if negb (is_var s) then match d with JStr t => String.eqb s t | _ => false end
      else if is_anon s then true
      else match alookup s b with Some v => json_eqb v d | None => false end
  | JObj pk =>
      match d with
      | JObj dk =>
          match pk with
          | [(k, pv)] =>
              if is_var k
              then existsb (fun e => lay f b (JStr k) (JStr (fst e)) && lay f b pv (snd e)) dk
              else match alookup k dk with Some dv => lay f b pv dv | None => false end
          | _ =>
              forallb (fun kv => negb (is_var (fst kv)) &&
                                 match alookup (fst kv) dk with
                                 | Some dv => lay f b (snd kv) dv
                                 | None => false
                                 end) pk
          end
      | _ => false
      end
  | JArr pl =>
      match d with
      | JArr dl => lay_inj (lay f b) (S (length pl)) pl (dedup_scalars dl [])
      | _ => false
      end
  end.
Proof. reflexivity. Qed.

Lemma lay_mono : forall f b p d, lay f b p d = true -> lay (S f) b p d = true.
Proof.
  induction f as [|f IH]; intros b p d H; [discriminate|].
  rewrite lay_S in H. rewrite lay_S.
  destruct p as [| | | |pl|pk]; auto.
  - destruct d; auto. eapply lay_inj_mono_rec; [|exact H]. intros x y _ Hxy; apply IH; auto.
  - destruct d as [| | | | |dk]; auto.
    destruct pk as [|[k pv] [|kv2 r]]; auto.
    + destruct (is_var k).
      * apply existsb_exists in H. destruct H as [e [Hin He]].
        apply existsb_exists. exists e. split; auto.
        apply andb_true_iff in He. destruct He as [H1 H2].
        rewrite (IH _ _ _ H1), (IH _ _ _ H2). reflexivity.
      * destruct (alookup k dk); auto.
    + rewrite forallb_forall in H. apply forallb_forall. intros kv Hin.
      specialize (H kv Hin). apply andb_true_iff in H. destruct H as [H1 H2].
      rewrite H1. cbn [andb]. destruct (alookup (fst kv) dk); auto.
Qed.

Lemma lay_le f f' b p d : (f <= f')%nat -> lay f b p d = true -> lay f' b p d = true.
Proof. intros Hle. induction Hle; auto. intros Hl. apply lay_mono. auto. Qed.

Lemma lay_enough : forall f' f b p d,
  (jsize p <= f)%nat -> lay f' b p d = true -> lay f b p d = true.
Proof.
  induction f' as [|f' IH]; intros f b p d Hf H; [discriminate|].
  destruct f as [|f]; [pose proof (jsize_pos p); lia|].
  rewrite lay_S in H. rewrite lay_S.
  destruct p as [| | | |pl|pk]; auto.
  - destruct d; auto. eapply lay_inj_mono_rec; [|exact H].
    intros x y Hin Hl. eapply IH; [|exact Hl].
    pose proof (jsize_arr_In _ _ Hin). lia.
  - destruct d as [| | | | |dk]; auto.
    destruct pk as [|[k pv] [|kv2 r]]; auto.
    + assert (Hsz : (jsize pv + 1 <= f)%nat).
      { pose proof (jsize_obj_In (k, pv) [(k, pv)] (or_introl eq_refl)) as Hsz. cbn [snd] in Hsz. lia. }
      destruct (is_var k).
      * apply existsb_exists in H. destruct H as [e [Hin He]].
        apply existsb_exists. exists e. split; auto.
        apply andb_true_iff in He. destruct He as [H1 H2].
        assert (Hk1 : (jsize (JStr k) <= f)%nat) by (cbn; lia).
        assert (Hk2 : (jsize pv <= f)%nat) by lia.
        rewrite (IH f _ _ _ Hk1 H1), (IH f _ _ _ Hk2 H2). reflexivity.
      * destruct (alookup k dk); auto. eapply IH; [|exact H]. lia.
    + rewrite forallb_forall in H. apply forallb_forall. intros kv Hin.
      specialize (H kv Hin). apply andb_true_iff in H. destruct H as [H1 H2].
      rewrite H1. cbn [andb]. destruct (alookup (fst kv) dk); auto.
      eapply IH; [|exact H2]. pose proof (jsize_obj_In _ _ Hin). lia.
Qed.

Definition Lay (b : bindings) (p d : json) : Prop := exists f, lay f b p d = true.

Lemma Lay_fuel b p d : lay (lay_fuel p) b p d = true <-> Lay b p d.
Proof.
  split.
  - intros H. exists (lay_fuel p). exact H.
  - intros [f H]. eapply lay_enough; [|exact H]. unfold lay_fuel. lia.
Qed.

(** * lay depends on the assignment only through the pattern's variables *)

Definition agreeV (V : list string) (b b' : bindings) : Prop :=
  forall x, In x V -> alookup x b = alookup x b'.

Lemma pvars_str_in s : is_var s = true -> is_anon s = false -> In s (pvars (JStr s)).
Proof. intros H1 H2. cbn [pvars]. rewrite H1, H2. cbn. auto. Qed.

Lemma pvars_arr_in x l v : In x l -> In v (pvars x) -> In v (pvars (JArr l)).
Proof. intros H1 H2. cbn [pvars]. apply in_flat_map. eauto. Qed.

Lemma pvars_obj_in_val kv l v : In kv l -> In v (pvars (snd kv)) -> In v (pvars (JObj l)).
Proof.
  intros H1 H2. cbn [pvars]. apply in_flat_map. exists kv. split; auto.
  apply in_or_app. auto.
Qed.

Lemma pvars_obj_in_key kv l v : In kv l -> In v (pvars (JStr (fst kv))) -> In v (pvars (JObj l)).
Proof.
  intros H1 H2. cbn [pvars]. apply in_flat_map. exists kv. split; auto.
  apply in_or_app. left. exact H2.
Qed.

Lemma lay_agree : forall f b b' p d, agreeV (pvars p) b b' -> lay f b p d = lay f b' p d.
Proof.
  induction f as [|f IH]; intros b b' p d H; auto.
  rewrite !lay_S.
  destruct p as [| | |s|pl|pk]; auto.
  - destruct (is_var s) eqn:Ev; cbn [negb]; auto.
    destruct (is_anon s) eqn:Ea; auto.
    rewrite (H s); auto. apply pvars_str_in; auto.
  - destruct d; auto. apply lay_inj_ext_rec. intros x y Hin. apply IH.
    intros v Hv. apply H. eapply pvars_arr_in; eauto.
  - destruct d as [| | | | |dk]; auto.
    destruct pk as [|[k pv] [|kv2 r]]; auto.
    + assert (H1 : agreeV (pvars (JStr k)) b b').
      { intros v Hv. apply H. apply (pvars_obj_in_key (k, pv)); cbn; auto. }
      assert (H2 : agreeV (pvars pv) b b').
      { intros v Hv. apply H. apply (pvars_obj_in_val (k, pv)); cbn; auto. }
      destruct (is_var k).
      * apply existsb_ext_in. intros e He. rewrite (IH b b' (JStr k)), (IH b b' pv); auto.
      * destruct (alookup k dk); auto.
    + apply forallb_ext_in. intros kv Hin. f_equal.
      destruct (alookup (fst kv) dk); auto. apply IH.
      intros v Hv. apply H. eapply pvars_obj_in_val; eauto.
Qed.

Lemma Lay_agree b b' p d : agreeV (pvars p) b b' -> Lay b p d -> Lay b' p d.
Proof. intros H [f Hf]. exists f. rewrite <- (lay_agree f b b'); auto. Qed.

(** * Characterisations of Lay *)

Definition nonvar (p : json) : bool :=
  match p with JStr s => negb (is_var s) | _ => true end.

Lemma Lay_scalar b p d : is_scalar p = true -> nonvar p = true -> (Lay b p d <-> d = p).
Proof.
  intros Hs Hn. split.
  - intros [[|f] H]; [discriminate|]. rewrite lay_S in H.
    destruct p as [|x|x|s| |]; try discriminate.
    + destruct d; try discriminate; auto.
    + destruct d; try discriminate. apply Bool.eqb_prop in H. subst; auto.
    + destruct d; try discriminate. apply Z.eqb_eq in H. subst; auto.
    + cbn [nonvar] in Hn. rewrite Hn in H. destruct d; try discriminate.
      apply String.eqb_eq in H. subst; auto.
  - intros ->. exists 1%nat. rewrite lay_S.
    destruct p as [|x|x|s| |]; try discriminate; auto.
    + apply Bool.eqb_reflx.
    + apply Z.eqb_refl.
    + cbn [nonvar] in Hn. rewrite Hn. apply String.eqb_refl.
Qed.

Lemma Lay_anon b s d : is_var s = true -> is_anon s = true -> Lay b (JStr s) d.
Proof. intros H1 H2. exists 1%nat. rewrite lay_S. rewrite H1, H2. reflexivity. Qed.

Lemma Lay_var b s d : is_var s = true -> is_anon s = false ->
  (Lay b (JStr s) d <-> alookup s b = Some d).
Proof.
  intros H1 H2. split.
  - intros [[|f] H]; [discriminate|]. rewrite lay_S in H. rewrite H1, H2 in H. cbn [negb] in H.
    destruct (alookup s b); [|discriminate]. apply json_eqb_eq in H. subst; auto.
  - intros H. exists 1%nat. rewrite lay_S. rewrite H1, H2, H. cbn [negb]. apply json_eqb_refl.
Qed.

Lemma Lay_struct_data b p d : is_scalar p = false -> Lay b p d -> is_scalar d = false.
Proof.
  intros Hp [[|f] H]; [discriminate|]. rewrite lay_S in H.
  destruct p; try discriminate; destruct d; try discriminate; auto.
Qed.

Lemma Forall_Lay_fuel {A} b (pf : A -> json) (df : A -> json) (l : list A) :
  Forall (fun a => Lay b (pf a) (df a)) l ->
  exists f, Forall (fun a => lay f b (pf a) (df a) = true) l.
Proof.
  induction 1 as [|a l [f1 H1] _ [f2 H2]].
  - exists O. constructor.
  - exists (f1 + f2)%nat. constructor.
    + eapply lay_le; [|exact H1]. lia.
    + eapply Forall_impl; [|exact H2]. cbn. intros a' Ha'. eapply lay_le; [|exact Ha']. lia.
Qed.

Lemma Forall2_Lay_fuel b pl ys :
  Forall2 (Lay b) pl ys -> exists f, Forall2 (fun x y => lay f b x y = true) pl ys.
Proof.
  induction 1 as [|x y pl ys [f1 H1] _ [f2 H2]].
  - exists O. constructor.
  - exists (f1 + f2)%nat. constructor.
    + eapply lay_le; [|exact H1]. lia.
    + eapply Forall2_imp_in; [|exact H2]. cbn. intros a c _ _ Ha. eapply lay_le; [|exact Ha]. lia.
Qed.

Lemma Lay_arr b pl d :
  Lay b (JArr pl) d <->
  exists dl, d = JArr dl /\
  exists ys rest, Forall2 (Lay b) pl ys /\ Permutation (dedup_scalars dl []) (ys ++ rest)%list.
Proof.
  split.
  - intros [[|f] H]; [discriminate|]. rewrite lay_S in H.
    destruct d as [| | | |dl|]; try discriminate. exists dl. split; auto.
    apply lay_inj_perm in H; [|lia]. destruct H as [ys [rest [HF HP]]].
    exists ys, rest. split; auto.
    eapply Forall2_imp_in; [|exact HF]. cbn. intros x y _ _ Hxy. exists f. exact Hxy.
  - intros [dl [-> [ys [rest [HF HP]]]]].
    apply Forall2_Lay_fuel in HF. destruct HF as [f HF].
    exists (S f). rewrite lay_S. apply lay_inj_perm; [lia|]. eauto.
Qed.

Lemma any_var_key_false pk kv : any_var_key pk = false -> In kv pk -> is_var (fst kv) = false.
Proof. unfold any_var_key. intros H Hin. exact (existsb_false _ _ _ H Hin). Qed.

Lemma lay_obj_nonvar f b pk dk :
  any_var_key pk = false ->
  lay (S f) b (JObj pk) (JObj dk) =
  forallb (fun kv => match alookup (fst kv) dk with
                     | Some dv => lay f b (snd kv) dv
                     | None => false
                     end) pk.
Proof.
  intros H. rewrite lay_S.
  assert (Hall : forallb (fun kv => negb (is_var (fst kv)) &&
                                 match alookup (fst kv) dk with
                                 | Some dv => lay f b (snd kv) dv
                                 | None => false
                                 end) pk =
                 forallb (fun kv => match alookup (fst kv) dk with
                     | Some dv => lay f b (snd kv) dv
                     | None => false
                     end) pk).
  { apply forallb_ext_in. intros kv Hin. rewrite (any_var_key_false _ _ H Hin). reflexivity. }
  destruct pk as [|[k pv] [|kv2 r]]; auto.
  pose proof (any_var_key_false _ (k, pv) H (or_introl eq_refl)) as Hk. cbn [fst] in Hk.
  rewrite Hk. cbn [forallb fst snd]. rewrite andb_true_r. reflexivity.
Qed.

Definition entry_lays (b : bindings) (dk : list (string * json)) (kv : string * json) : Prop :=
  exists dv, alookup (fst kv) dk = Some dv /\ Lay b (snd kv) dv.

Lemma Lay_obj_nonvar b pk d :
  any_var_key pk = false ->
  (Lay b (JObj pk) d <-> exists dk, d = JObj dk /\ Forall (entry_lays b dk) pk).
Proof.
  intros Hk. split.
  - intros [[|f] H]; [discriminate|].
    destruct d as [| | | | |dk]; try (rewrite lay_S in H; discriminate).
    exists dk. split; auto.
    rewrite lay_obj_nonvar in H by auto. rewrite forallb_forall in H.
    apply Forall_forall. intros kv Hin. specialize (H kv Hin).
    destruct (alookup (fst kv) dk) as [dv|] eqn:E; [|discriminate].
    exists dv. split; auto. exists f. exact H.
  - intros [dk [-> HF]].
    assert (HF' : Forall (fun kv => exists dv, alookup (fst kv) dk = Some dv) pk).
    { eapply Forall_impl; [|exact HF]. intros kv [dv [H1 _]]. eauto. }
    assert (HF2 : Forall (fun kv => Lay b (snd kv)
                     (match alookup (fst kv) dk with Some dv => dv | None => JNull end)) pk).
    { eapply Forall_impl; [|exact HF]. intros kv [dv [H1 H2]]. rewrite H1. exact H2. }
    apply Forall_Lay_fuel in HF2. destruct HF2 as [f HF2].
    exists (S f). rewrite lay_obj_nonvar by auto. apply forallb_forall. intros kv Hin.
    rewrite Forall_forall in HF', HF2.
    destruct (HF' kv Hin) as [dv Hdv]. specialize (HF2 kv Hin). rewrite Hdv in *. exact HF2.
Qed.

Lemma Lay_obj_var b k pv d :
  is_var k = true ->
  (Lay b (JObj [(k, pv)]) d <->
   exists dk, d = JObj dk /\
   exists e, In e dk /\ Lay b (JStr k) (JStr (fst e)) /\ Lay b pv (snd e)).
Proof.
  intros Hk. split.
  - intros [[|f] H]; [discriminate|]. rewrite lay_S in H.
    destruct d as [| | | | |dk]; try discriminate.
    exists dk. split; auto. rewrite Hk in H.
    apply existsb_exists in H. destruct H as [e [Hin He]].
    apply andb_true_iff in He. destruct He as [H1 H2].
    exists e. split; auto. split; exists f; auto.
  - intros [dk [-> [e [Hin [[f1 H1] [f2 H2]]]]]].
    exists (S (f1 + f2)). rewrite lay_S. rewrite Hk.
    apply existsb_exists. exists e. split; auto.
    rewrite (lay_le f1 (f1 + f2) _ _ _ ltac:(lia) H1).
    rewrite (lay_le f2 (f1 + f2) _ _ _ ltac:(lia) H2). reflexivity.
Qed.

(** * lands_struct: the fuel-free safety predicate LS *)

Definition LS (risky : string -> bool) (p d : json) : Prop :=
  exists f, lands_struct f risky p d = false.

Lemma lands_S f risky p d :
  lands_struct (S f) risky p d =
  match p with
  | JStr s => is_var s && risky s && negb (is_scalar d)
  | JObj pk =>
      match d with
      | JObj dk =>
          existsb (fun kv =>
                     if is_var (fst kv)
                     then existsb (fun e => lands_struct f risky (snd kv) (snd e)) dk
                     else match alookup (fst kv) dk with
                          | Some dv => lands_struct f risky (snd kv) dv
                          | None => false
                          end) pk
      | _ => false
      end
  | JArr pl =>
      match d with
      | JArr dl => existsb (fun x => existsb (fun y => lands_struct f risky x y) dl) pl
      | _ => false
      end
  | _ => false
  end.
Proof. reflexivity. Qed.

Lemma LS_str risky s d :
  LS risky (JStr s) d -> is_var s = true -> risky s = true -> is_scalar d = true.
Proof.
  intros [[|f] H] H1 H2; [discriminate|]. rewrite lands_S in H. rewrite H1, H2 in H.
  cbn [andb] in H. destruct (is_scalar d); auto.
Qed.

Lemma LS_str_str risky s t : LS risky (JStr s) (JStr t).
Proof. exists 1%nat. rewrite lands_S. cbn [is_scalar negb]. apply andb_false_r. Qed.

Lemma LS_obj_nonvar risky pk dk kv dv :
  LS risky (JObj pk) (JObj dk) -> In kv pk -> is_var (fst kv) = false ->
  alookup (fst kv) dk = Some dv -> LS risky (snd kv) dv.
Proof.
  intros [[|f] H] Hin Hk Hl; [discriminate|]. rewrite lands_S in H.
  pose proof (existsb_false _ _ _ H Hin) as H1. cbn beta in H1.
  rewrite Hk, Hl in H1. exists f. exact H1.
Qed.

Lemma LS_obj_var risky pk dk kv e :
  LS risky (JObj pk) (JObj dk) -> In kv pk -> is_var (fst kv) = true ->
  In e dk -> LS risky (snd kv) (snd e).
Proof.
  intros [[|f] H] Hin Hk He; [discriminate|]. rewrite lands_S in H.
  pose proof (existsb_false _ _ _ H Hin) as H1. cbn beta in H1.
  rewrite Hk in H1. exists f. exact (existsb_false _ _ _ H1 He).
Qed.

Lemma LS_arr risky pl dl x y :
  LS risky (JArr pl) (JArr dl) -> In x pl -> In y dl -> LS risky x y.
Proof.
  intros [[|f] H] Hx Hy; [discriminate|]. rewrite lands_S in H.
  pose proof (existsb_false _ _ _ H Hx) as H1. cbn beta in H1.
  exists f. exact (existsb_false _ _ _ H1 Hy).
Qed.

Lemma lands_mono_risky (risky risky' : string -> bool) :
  (forall s, risky' s = true -> risky s = true) ->
  forall f p d, lands_struct f risky' p d = true -> lands_struct f risky p d = true.
Proof.
  intros Hr. induction f as [|f IH]; intros p d H; auto.
  rewrite lands_S in H. rewrite lands_S.
  destruct p as [| | |s|pl|pk]; auto.
  - apply andb_true_iff in H. destruct H as [H H3]. apply andb_true_iff in H. destruct H as [H1 H2].
    rewrite H1, H3, (Hr _ H2). reflexivity.
  - destruct d as [| | | |dl|]; auto.
    apply existsb_exists in H. destruct H as [x [Hx H]].
    apply existsb_exists in H. destruct H as [y [Hy H]].
    apply existsb_exists. exists x. split; auto.
    apply existsb_exists. exists y. split; auto.
  - destruct d as [| | | | |dk]; auto.
    apply existsb_exists in H. destruct H as [kv [Hkv H]].
    apply existsb_exists. exists kv. split; auto.
    destruct (is_var (fst kv)).
    + apply existsb_exists in H. destruct H as [e [He H]].
      apply existsb_exists. exists e. split; auto.
    + destruct (alookup (fst kv) dk); auto.
Qed.

Lemma LS_mono_risky (risky risky' : string -> bool) p d :
  (forall s, risky' s = true -> risky s = true) -> LS risky p d -> LS risky' p d.
Proof.
  intros Hr [f H]. exists f.
  destruct (lands_struct f risky' p d) eqn:E; auto.
  rewrite (lands_mono_risky risky risky' Hr f p d E) in H. discriminate.
Qed.

(** * A laid pattern binds its variables to ground (and, if risky, scalar) values *)

Lemma ground_arr_In l y : ground (JArr l) = true -> In y l -> ground y = true.
Proof. cbn [ground]. rewrite forallb_forall. auto. Qed.

Lemma ground_obj_In dk e :
  ground (JObj dk) = true -> In e dk -> is_var (fst e) = false /\ ground (snd e) = true.
Proof.
  cbn [ground]. rewrite forallb_forall. intros H Hin. specialize (H e Hin).
  apply andb_true_iff in H. destruct H as [H1 H2]. split; auto.
  destruct (is_var (fst e)); auto; discriminate.
Qed.

Lemma ground_obj_lookup dk k dv :
  ground (JObj dk) = true -> alookup k dk = Some dv -> ground dv = true.
Proof.
  intros H Hl. apply alookup_In in Hl. destruct (ground_obj_In _ _ H Hl) as [_ H2]. exact H2.
Qed.

Lemma lay_bound risky : forall f b p d x,
  lay f b p d = true -> In x (pvars p) -> ground d = true ->
  exists v, alookup x b = Some v /\ ground v = true /\
            (risky x = true -> LS risky p d -> is_scalar v = true).
Proof.
  induction f as [|f IH]; intros b p d x H Hin Hg; [discriminate|].
  rewrite lay_S in H.
  destruct p as [| | |s|pl|pk]; cbn [pvars] in Hin; try (now destruct Hin).
  - destruct (is_var s) eqn:Ev; destruct (is_anon s) eqn:Ea; cbn in Hin; try (now destruct Hin).
    destruct Hin as [Hin|[]]. subst x. cbn [negb] in H.
    destruct (alookup s b) as [v|] eqn:El; [|discriminate].
    apply json_eqb_eq in H. subst v. exists d. split; auto. split; auto.
    intros Hr HLS. eapply LS_str; eauto.
  - destruct d as [| | | |dl|]; try discriminate.
    apply in_flat_map in Hin. destruct Hin as [x0 [Hx0 Hx]].
    destruct (lay_inj_In _ _ _ _ _ H Hx0) as [y [Hy Hl]].
    apply dedup_scalars_incl in Hy.
    destruct (IH _ _ _ _ Hl Hx (ground_arr_In _ _ Hg Hy)) as [v [H1 [H2 H3]]].
    exists v. split; auto. split; auto. intros Hr HLS. apply H3; auto.
    eapply LS_arr; eauto.
  - destruct d as [| | | | |dk]; try discriminate.
    apply in_flat_map in Hin. destruct Hin as [kv [Hkv Hx]].
    assert (Hnv : forall dv, is_var (fst kv) = false -> alookup (fst kv) dk = Some dv ->
                   lay f b (snd kv) dv = true ->
                   exists v, alookup x b = Some v /\ ground v = true /\
                     (risky x = true -> LS risky (JObj pk) (JObj dk) -> is_scalar v = true)).
    { intros dv Hk Hl Hlay. rewrite Hk in Hx. cbn in Hx.
      destruct (IH _ _ _ _ Hlay Hx (ground_obj_lookup _ _ _ Hg Hl)) as [v [H1 [H2 H3]]].
      exists v. split; auto. split; auto. intros Hr HLS. apply H3; auto.
      eapply LS_obj_nonvar; eauto. }
    destruct pk as [|[k pv] [|kv2 r]].
    + destruct Hkv.
    + destruct Hkv as [<-|[]]. cbn [fst snd] in *.
      destruct (is_var k) eqn:Ek.
      * apply existsb_exists in H. destruct H as [e [He H]].
        apply andb_true_iff in H. destruct H as [H1 H2].
        destruct (ground_obj_In _ _ Hg He) as [Hg1 Hg2].
        apply in_app_or in Hx. destruct Hx as [Hx|Hx].
        -- cbn [andb] in Hx.
           assert (Hx' : In x (pvars (JStr k))) by (cbn [pvars]; rewrite Ek; exact Hx).
           destruct (IH _ _ _ _ H1 Hx') as [v [H3 [H4 H5]]].
           { cbn [ground]. rewrite Hg1. reflexivity. }
           exists v. split; auto. split; auto. intros Hr _. apply H5; auto. apply LS_str_str.
        -- destruct (IH _ _ _ _ H2 Hx Hg2) as [v [H3 [H4 H5]]].
           exists v. split; auto. split; auto. intros Hr HLS. apply H5; auto.
           apply (LS_obj_var risky [(k, pv)] dk (k, pv) e); cbn; auto.
      * destruct (alookup k dk) as [dv|] eqn:El; [|discriminate].
        apply (Hnv dv); auto.
    + rewrite forallb_forall in H. specialize (H kv Hkv).
      apply andb_true_iff in H. destruct H as [H1 H2].
      destruct (alookup (fst kv) dk) as [dv|] eqn:El; [|discriminate].
      apply (Hnv dv); auto. destruct (is_var (fst kv)); auto; discriminate.
Qed.

(** * Extensions by a set of variables under a goal *)

Definition domV (V : list string) (b0 b : bindings) : Prop :=
  forall x, alookup x b <> None <-> (alookup x b0 <> None \/ In x V).

Definition ExtG (V : list string) (G : bindings -> Prop) (b0 b : bindings) : Prop :=
  sorted_keys (map fst b) = true /\ extends b0 b /\ domV V b0 b /\ G b.

Definition Ext' (p d : json) (b0 b : bindings) : Prop :=
  ExtG (pvars p) (fun b => Lay b p d) b0 b.

Lemma Ext_Ext' p d b0 b : Ext p d b0 b <-> Ext' p d b0 b.
Proof.
  unfold Ext, Ext', ExtG, dom_ok, domV. rewrite Lay_fuel. tauto.
Qed.

Definition dep_on (V : list string) (G : bindings -> Prop) : Prop :=
  forall b b', agreeV V b b' -> G b -> G b'.

Lemma Lay_dep p d : dep_on (pvars p) (fun b => Lay b p d).
Proof. intros b b' H. apply Lay_agree; auto. Qed.

Lemma ExtG_nil G b0 b :
  sorted_keys (map fst b0) = true -> (ExtG [] G b0 b <-> b = b0 /\ G b0).
Proof.
  intros Hs. split.
  - intros [H1 [H2 [H3 H4]]].
    assert (b = b0).
    { apply sorted_alist_ext; auto. intros x.
      destruct (alookup x b0) as [v|] eqn:E.
      - apply H2; auto.
      - destruct (alookup x b) eqn:E'; auto.
        assert (Hn : alookup x b <> None) by congruence.
        apply H3 in Hn. destruct Hn as [Hn|[]]. congruence. }
    subst. auto.
  - intros [-> HG]. split; auto. split; [intros x v; auto|]. split; auto.
    intros x. tauto.
Qed.

Lemma ExtG_congr V V' (G G' : bindings -> Prop) b0 b :
  (forall x, In x V <-> In x V') -> (G b <-> G' b) ->
  (ExtG V G b0 b <-> ExtG V' G' b0 b).
Proof.
  intros HV HG. unfold ExtG, domV. rewrite HG.
  assert ((forall x, alookup x b <> None <-> alookup x b0 <> None \/ In x V) <->
          (forall x, alookup x b <> None <-> alookup x b0 <> None \/ In x V')).
  { split; intros H x; rewrite (H x), (HV x); tauto. }
  tauto.
Qed.

Lemma ExtG_goal V (G G' : bindings -> Prop) b0 b :
  (G b <-> G' b) -> (ExtG V G b0 b <-> ExtG V G' b0 b).
Proof. intros H. apply ExtG_congr; auto. tauto. Qed.

Lemma ExtG_sorted V G b0 b : ExtG V G b0 b -> sorted_keys (map fst b) = true.
Proof. intros [H _]. exact H. Qed.

Lemma ExtG_extends V G b0 b : ExtG V G b0 b -> extends b0 b.
Proof. intros [_ [H _]]. exact H. Qed.

Lemma ExtG_G V (G : bindings -> Prop) b0 b : ExtG V G b0 b -> G b.
Proof. intros [_ [_ [_ H]]]. exact H. Qed.

Lemma ExtG_dom V G b0 b : ExtG V G b0 b -> domV V b0 b.
Proof. intros [_ [_ [H _]]]. exact H. Qed.

Definition keepV (b0 : bindings) (V : list string) (x : string) : bool :=
  match alookup x b0 with Some _ => true | None => mem_str x V end.

Lemma keepV_true b0 V x : keepV b0 V x = true <-> (alookup x b0 <> None \/ In x V).
Proof.
  unfold keepV. destruct (alookup x b0) eqn:E.
  - split; auto. intros _. left. congruence.
  - rewrite mem_str_In. split; auto. intros [H|H]; auto. congruence.
Qed.

Lemma ExtG_seq V1 V2 (G1 G2 : bindings -> Prop) b0 b :
  dep_on V1 G1 ->
  (ExtG (V1 ++ V2) (fun b => G1 b /\ G2 b) b0 b <->
   exists b1, ExtG V1 G1 b0 b1 /\ ExtG V2 G2 b1 b).
Proof.
  intros Hdep. split.
  - intros [Hs [He [Hd [HG1 HG2]]]].
    set (b1 := afilter (keepV b0 V1) b).
    assert (Hl : forall x, alookup x b1 = if keepV b0 V1 x then alookup x b else None).
    { intros x. apply alookup_afilter. }
    exists b1. split.
    + split; [apply sorted_afilter; auto|]. split; [|split].
      * intros x v Hx. rewrite Hl.
        assert (Hk : keepV b0 V1 x = true) by (apply keepV_true; left; congruence).
        rewrite Hk. apply He; auto.
      * intros x. rewrite Hl. destruct (keepV b0 V1 x) eqn:Ek.
        -- apply keepV_true in Ek. split; auto. intros _. apply Hd.
           destruct Ek; auto. right. apply in_or_app. auto.
        -- split; [congruence|]. intros H. apply keepV_true in H. congruence.
      * apply (Hdep b); auto. intros x Hx. rewrite Hl.
        assert (Hk : keepV b0 V1 x = true) by (apply keepV_true; auto).
        rewrite Hk. reflexivity.
    + split; auto. split; [|split; auto].
      * intros x v. rewrite Hl. destruct (keepV b0 V1 x); auto. discriminate.
      * intros x. rewrite Hl. split.
        -- intros H. pose proof H as H'. apply Hd in H'.
           destruct (keepV b0 V1 x) eqn:Ek; auto.
           right. destruct H' as [H'|H'].
           ++ assert (keepV b0 V1 x = true) by (apply keepV_true; auto). congruence.
           ++ apply in_app_or in H'. destruct H' as [H'|H']; auto.
              assert (keepV b0 V1 x = true) by (apply keepV_true; auto). congruence.
        -- intros [H|H].
           ++ destruct (keepV b0 V1 x); auto.
           ++ apply Hd. right. apply in_or_app. auto.
  - intros [b1 [[Hs1 [He1 [Hd1 HG1]]] [Hs [He [Hd HG2]]]]].
    split; auto. split; [|split; [|split; auto]].
    + intros x v Hx. apply He, He1, Hx.
    + intros x. rewrite (Hd x), (Hd1 x), in_app_iff. tauto.
    + apply (Hdep b1); auto. intros x Hx.
      assert (Hn : alookup x b1 <> None) by (apply Hd1; auto).
      destruct (alookup x b1) as [v|] eqn:E; [|congruence].
      symmetry. apply He; auto.
Qed.

Lemma ExtG_exists {A} V (P : A -> Prop) (G : A -> bindings -> Prop) b0 b :
  ExtG V (fun b => exists e, P e /\ G e b) b0 b <-> exists e, P e /\ ExtG V (G e) b0 b.
Proof.
  unfold ExtG. split.
  - intros [H1 [H2 [H3 [e [H4 H5]]]]]. exists e. tauto.
  - intros [e [H4 [H1 [H2 [H3 H5]]]]]. split; auto. split; auto. split; auto. eauto.
Qed.
