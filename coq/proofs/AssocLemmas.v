(** Association-list, string-order and string-set lemmas used by the state proofs. *)
From Coq Require Import Lia OrderedTypeEx.
From Verif Require Import Json Outcome PatIndex.

(** * String order *)

Lemma scmp_refl a : String.compare a a = Eq.
Proof. apply (proj2 (String_as_OT.cmp_eq a a)). reflexivity. Qed.

Lemma scmp_eq a b : String.compare a b = Eq -> a = b.
Proof. apply (proj1 (String_as_OT.cmp_eq a b)). Qed.

Lemma scmp_gt_lt a b : String.compare a b = Gt -> String.compare b a = Lt.
Proof.
  intros H. rewrite String.compare_antisym, H. reflexivity.
Qed.

Lemma scmp_lt_gt a b : String.compare a b = Lt -> String.compare b a = Gt.
Proof.
  intros H. rewrite String.compare_antisym, H. reflexivity.
Qed.

Lemma scmp_lt_trans a b c :
  String.compare a b = Lt -> String.compare b c = Lt -> String.compare a c = Lt.
Proof.
  intros H1 H2.
  apply (proj2 (String_as_OT.cmp_lt a c)).
  eapply String_as_OT.lt_trans; apply String_as_OT.cmp_lt; eassumption.
Qed.

Lemma str_ltb_lt a b : str_ltb a b = true <-> String.compare a b = Lt.
Proof. unfold str_ltb. destruct (String.compare a b); split; congruence. Qed.

Lemma str_ltb_trans a b c : str_ltb a b = true -> str_ltb b c = true -> str_ltb a c = true.
Proof. rewrite !str_ltb_lt. apply scmp_lt_trans. Qed.

Lemma scmp_lt_neq a b : String.compare a b = Lt -> a <> b.
Proof. intros H E. subst. rewrite scmp_refl in H. discriminate. Qed.

Lemma scmp_gt_neq a b : String.compare a b = Gt -> a <> b.
Proof. intros H E. subst. rewrite scmp_refl in H. discriminate. Qed.

Lemma eqb_false_of_lt a b : String.compare a b = Lt -> String.eqb a b = false.
Proof. intros H. apply String.eqb_neq. apply scmp_lt_neq; exact H. Qed.

Lemma eqb_false_of_gt a b : String.compare a b = Gt -> String.eqb a b = false.
Proof. intros H. apply String.eqb_neq. apply scmp_gt_neq; exact H. Qed.

(** * Sorted key lists *)

Definition lb (k : string) (l : list string) : Prop :=
  forall k', In k' l -> str_ltb k k' = true.

Lemma sorted_cons k r : sorted_keys (k :: r) = true <-> lb k r /\ sorted_keys r = true.
Proof.
  revert k. induction r as [|k1 r IH]; intros k.
  - cbn. split; [intros _; split; [intros ? []|reflexivity]|reflexivity].
  - change (sorted_keys (k :: k1 :: r)) with (str_ltb k k1 && sorted_keys (k1 :: r)).
    rewrite andb_true_iff. split.
    + intros [H1 H2]. split; [|exact H2].
      intros k' [<-|Hin]; [exact H1|].
      apply IH in H2. destruct H2 as [H2 _].
      eapply str_ltb_trans; [exact H1|]. apply H2; exact Hin.
    + intros [H1 H2]. split; [|exact H2]. apply H1. left; reflexivity.
Qed.

Lemma sorted_nil : sorted_keys [] = true.
Proof. reflexivity. Qed.

Lemma keys_ainsert {A} k (v : A) l x :
  In x (map fst (ainsert k v l)) -> x = k \/ In x (map fst l).
Proof.
  induction l as [|[k' v'] r IH]; cbn [ainsert map fst In].
  - intros [<-|[]]; left; reflexivity.
  - destruct (String.compare k k') eqn:E; cbn [map fst In].
    + intros [<-|H]; [left; reflexivity|right; right; exact H].
    + intros [<-|H]; [left; reflexivity|right; exact H].
    + intros [<-|H]; [right; left; reflexivity|].
      destruct (IH H) as [->|H']; [left; reflexivity|right; right; exact H'].
Qed.

Lemma sorted_ainsert {A} k (v : A) l :
  sorted_keys (map fst l) = true -> sorted_keys (map fst (ainsert k v l)) = true.
Proof.
  induction l as [|[k' v'] r IH]; cbn [ainsert map fst]; intros Hs.
  - reflexivity.
  - apply sorted_cons in Hs. destruct Hs as [Hlb Hs].
    destruct (String.compare k k') eqn:E; cbn [map fst].
    + apply scmp_eq in E. subst k'. apply sorted_cons. split; assumption.
    + apply sorted_cons. split.
      * intros x [<-|Hx]; [apply str_ltb_lt; exact E|].
        eapply str_ltb_trans; [apply str_ltb_lt; exact E|]. apply Hlb; exact Hx.
      * apply sorted_cons. split; assumption.
    + apply sorted_cons. split.
      * intros x Hx. apply keys_ainsert in Hx. destruct Hx as [->|Hx].
        -- apply str_ltb_lt. apply scmp_gt_lt. exact E.
        -- apply Hlb; exact Hx.
      * apply IH; exact Hs.
Qed.

Lemma keys_aremove {A} k (l : list (string * A)) x :
  In x (map fst (aremove k l)) -> In x (map fst l).
Proof.
  induction l as [|[k' v'] r IH]; cbn [aremove map fst In].
  - intros [].
  - destruct (String.eqb k k'); cbn [map fst In].
    + intros H; right; apply IH; exact H.
    + intros [<-|H]; [left; reflexivity|right; apply IH; exact H].
Qed.

Lemma sorted_aremove {A} k (l : list (string * A)) :
  sorted_keys (map fst l) = true -> sorted_keys (map fst (aremove k l)) = true.
Proof.
  induction l as [|[k' v'] r IH]; cbn [aremove map fst]; intros Hs.
  - reflexivity.
  - apply sorted_cons in Hs. destruct Hs as [Hlb Hs].
    destruct (String.eqb k k'); cbn [map fst].
    + apply IH; exact Hs.
    + apply sorted_cons. split.
      * intros x Hx. apply Hlb. eapply keys_aremove; exact Hx.
      * apply IH; exact Hs.
Qed.

(** * Lookup after insert / remove (no sortedness needed: lookup finds the first entry) *)

Lemma alookup_ainsert_same {A} k (v : A) l : alookup k (ainsert k v l) = Some v.
Proof.
  induction l as [|[k' v'] r IH]; cbn [ainsert alookup].
  - rewrite String.eqb_refl. reflexivity.
  - destruct (String.compare k k') eqn:E; cbn [alookup].
    + rewrite String.eqb_refl. reflexivity.
    + rewrite String.eqb_refl. reflexivity.
    + rewrite (eqb_false_of_gt _ _ E). exact IH.
Qed.

Lemma alookup_ainsert_other {A} k j (v : A) l :
  j <> k -> alookup j (ainsert k v l) = alookup j l.
Proof.
  intros Hne. induction l as [|[k' v'] r IH]; cbn [ainsert alookup].
  - apply String.eqb_neq in Hne. rewrite Hne. reflexivity.
  - destruct (String.compare k k') eqn:E; cbn [alookup].
    + apply scmp_eq in E. subst k'. apply String.eqb_neq in Hne. rewrite Hne. reflexivity.
    + apply String.eqb_neq in Hne. rewrite Hne. reflexivity.
    + rewrite IH. reflexivity.
Qed.

Lemma alookup_ainsert {A} k j (v : A) l :
  alookup j (ainsert k v l) = if String.eqb j k then Some v else alookup j l.
Proof.
  destruct (String.eqb_spec j k) as [->|Hne].
  - apply alookup_ainsert_same.
  - apply alookup_ainsert_other; exact Hne.
Qed.

Lemma alookup_aremove_same {A} k (l : list (string * A)) : alookup k (aremove k l) = None.
Proof.
  induction l as [|[k' v'] r IH]; cbn [aremove alookup].
  - reflexivity.
  - destruct (String.eqb k k') eqn:E; cbn [alookup].
    + exact IH.
    + rewrite E. exact IH.
Qed.

Lemma alookup_aremove_other {A} k j (l : list (string * A)) :
  j <> k -> alookup j (aremove k l) = alookup j l.
Proof.
  intros Hne. induction l as [|[k' v'] r IH]; cbn [aremove alookup].
  - reflexivity.
  - destruct (String.eqb_spec k k') as [<-|Hkk]; cbn [alookup].
    + apply String.eqb_neq in Hne. rewrite Hne. exact IH.
    + rewrite IH. reflexivity.
Qed.

Lemma alookup_aremove {A} k j (l : list (string * A)) :
  alookup j (aremove k l) = if String.eqb j k then None else alookup j l.
Proof.
  destruct (String.eqb_spec j k) as [->|Hne].
  - apply alookup_aremove_same.
  - apply alookup_aremove_other; exact Hne.
Qed.

Lemma alookup_In {A} k (v : A) l : alookup k l = Some v -> In (k, v) l.
Proof.
  induction l as [|[k' v'] r IH]; cbn [alookup In].
  - discriminate.
  - destruct (String.eqb_spec k k') as [<-|Hne].
    + intros H. injection H as <-. left; reflexivity.
    + intros H. right. apply IH; exact H.
Qed.

Lemma alookup_In_keys {A} k (v : A) l : alookup k l = Some v -> In k (map fst l).
Proof.
  intros H. apply alookup_In in H. apply (in_map fst) in H. exact H.
Qed.

Lemma alookup_None_keys {A} k (l : list (string * A)) : alookup k l = None -> ~ In k (map fst l).
Proof.
  induction l as [|[k' v'] r IH]; cbn [alookup map fst In].
  - intros _ [].
  - destruct (String.eqb_spec k k') as [<-|Hne].
    + discriminate.
    + intros H [E|Hin]; [congruence|]. apply IH; assumption.
Qed.

(** * String sets *)

Lemma mem_str_In x l : mem_str x l = true <-> In x l.
Proof.
  induction l as [|y r IH]; cbn [mem_str In].
  - split; [discriminate|intros []].
  - rewrite orb_true_iff, IH. split.
    + intros [H|H]; [left; symmetry; apply String.eqb_eq; exact H|right; exact H].
    + intros [H|H]; [left; subst; apply String.eqb_refl|right; exact H].
Qed.

Lemma In_sset_add y x l : In y (sset_add x l) <-> y = x \/ In y l.
Proof.
  induction l as [|z r IH]; cbn [sset_add In].
  - split; [intros [<-|[]]; left; reflexivity|intros [->|[]]; left; reflexivity].
  - destruct (String.compare x z) eqn:E; cbn [In].
    + apply scmp_eq in E. subst z. split; [intros H; right; exact H|].
      intros [->|H]; [left; reflexivity|exact H].
    + split; [intros [<-|H]; [left; reflexivity|right; exact H]|].
      intros [->|H]; [left; reflexivity|right; exact H].
    + rewrite IH. split.
      * intros [H|[H|H]]; [right; left; exact H|left; exact H|right; right; exact H].
      * intros [H|[H|H]]; [right; left; exact H|left; exact H|right; right; exact H].
Qed.

Lemma In_sset_rem y x l : In y (sset_rem x l) <-> In y l /\ y <> x.
Proof.
  unfold sset_rem. rewrite filter_In. rewrite negb_true_iff.
  split; intros [H1 H2]; (split; [exact H1|]).
  - apply String.eqb_neq in H2. congruence.
  - apply String.eqb_neq. congruence.
Qed.

Lemma In_sset_inter y a b : In y (sset_inter a b) <-> In y a /\ In y b.
Proof.
  unfold sset_inter. rewrite filter_In, mem_str_In. reflexivity.
Qed.

Lemma In_fold_sset_add y l : In y (fold_right sset_add [] l) <-> In y l.
Proof.
  induction l as [|x r IH]; cbn [fold_right In].
  - reflexivity.
  - rewrite In_sset_add, IH. split; intros [H|H]; auto.
Qed.
