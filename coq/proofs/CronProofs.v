(** C16 (in-memory cron): proofs of the statements of CronSpec.v over the model
    of Cron.v (the code after the repairs of D26, D38, D49 and D50), closed
    examples showing the repaired behaviour on the traces that exhibited the
    defects, and satisfiability witnesses for the hypotheses of the
    conditional theorems. *)
From Coq Require Import Sorting.Sorted Lia.
From Verif Require Import Json Cron CronSpec.

Arguments schedule : simpl never.
Arguments c_rem : simpl never.

(** * Generic facts about [run] *)

Lemma run_snoc ops o c : run (ops ++ [o])%list c = step (run ops c) o.
Proof. unfold run. rewrite fold_left_app. reflexivity. Qed.

Lemma run_inv (P : cron -> Prop) :
  (forall c o, P c -> P (step c o)) -> forall ops c, P c -> P (run ops c).
Proof.
  intros Hs ops. induction ops as [|o ops IH]; intros c Hc; simpl.
  - exact Hc.
  - apply IH. apply Hs. exact Hc.
Qed.

(** * [c_rem], [schedule] and the Rem step by cases *)

Lemma c_rem_eq id tl infl :
  c_rem id tl infl =
  (fst (tl_rem id tl) || fst (mark_removed id infl),
   snd (tl_rem id tl), snd (mark_removed id infl)).
Proof.
  unfold c_rem. destruct (tl_rem id tl) as [f1 tl'].
  destruct (mark_removed id infl) as [f2 infl']. reflexivity.
Qed.

Lemma step_rem c id now :
  step c (CRem id now) =
  mkCron (snd (tl_rem id (c_tl c))) (snd (mark_removed id (c_inflight c)))
         (c_susp c) (c_limit c)
         (if fst (tl_rem id (c_tl c)) || fst (mark_removed id (c_inflight c))
          then reset_timer (c_susp c) (snd (tl_rem id (c_tl c))) now
          else c_armed c)
         (c_fires c).
Proof. unfold step. rewrite c_rem_eq. reflexivity. Qed.

Lemma schedule_spec c j b now :
  (b = true /\ over_limit c (j_id j) = true /\ schedule c j b now = (c, false)) \/
  ((b = false \/ over_limit c (j_id j) = false) /\
   schedule c j b now =
     (mkCron (tl_insert j (snd (tl_rem (j_id j) (c_tl c))))
             (snd (mark_removed (j_id j) (c_inflight c)))
             (c_susp c) (c_limit c)
             (reset_timer (c_susp c) (tl_insert j (snd (tl_rem (j_id j) (c_tl c)))) now)
             (c_fires c), true)).
Proof.
  unfold schedule. rewrite c_rem_eq.
  destruct b; simpl.
  - destruct (over_limit c (j_id j)); auto.
  - right. auto.
Qed.

Ltac sched :=
  match goal with
  | |- context [schedule ?c ?j ?b ?n] =>
      let E := fresh "E" in
      let Hb := fresh "Hb" in
      let Hl := fresh "Hl" in
      destruct (schedule_spec c j b n) as [(Hb & Hl & E)|(Hl & E)];
      [try discriminate Hb|]; rewrite E; clear E; simpl
  end.

(** * [tl_rem], [mark_removed], [tl_insert], [take_inflight] *)

Lemma tl_rem_In id l x : In x (snd (tl_rem id l)) -> In x l.
Proof.
  induction l as [|y r IH]; simpl; auto.
  destruct (String.eqb (j_id y) id); simpl; auto.
  destruct (tl_rem id r) as [f r']. simpl in *. intuition.
Qed.

Lemma tl_rem_In_id id l s : In s (map j_id (snd (tl_rem id l))) -> In s (map j_id l).
Proof.
  rewrite !in_map_iff. intros (x & Hx & Hin). exists x. split; auto.
  eapply tl_rem_In; eauto.
Qed.

Lemma tl_rem_sorted id l :
  StronglySorted next_le l -> StronglySorted next_le (snd (tl_rem id l)).
Proof.
  induction 1 as [|y r Hs IH Hf]; simpl.
  - constructor.
  - destruct (String.eqb (j_id y) id); simpl; auto.
    pose proof (tl_rem_In id r) as Hin.
    destruct (tl_rem id r) as [f r']. simpl in *.
    constructor; auto.
    rewrite Forall_forall in *. auto.
Qed.

Lemma tl_rem_nodup id l :
  NoDup (map j_id l) ->
  NoDup (map j_id (snd (tl_rem id l))) /\ ~ In id (map j_id (snd (tl_rem id l))).
Proof.
  induction l as [|y r IH]; simpl; intros H.
  - split; auto.
  - inversion H as [|? ? Hn Hd]; subst.
    destruct (String.eqb (j_id y) id) eqn:E; simpl.
    + apply String.eqb_eq in E. subst. split; auto.
    + pose proof (tl_rem_In_id id r) as Hin.
      destruct (tl_rem id r) as [f r']. simpl in *.
      destruct (IH Hd) as [H1 H2]. apply String.eqb_neq in E.
      split.
      * constructor; auto.
      * intros [?|?]; auto.
Qed.

Lemma tl_rem_found id l : fst (tl_rem id l) = true <-> In id (map j_id l).
Proof.
  induction l as [|y r IH]; simpl.
  - split; [discriminate|tauto].
  - destruct (String.eqb (j_id y) id) eqn:E; simpl.
    + apply String.eqb_eq in E. tauto.
    + apply String.eqb_neq in E. destruct (tl_rem id r) as [f r']. simpl in *.
      rewrite IH. tauto.
Qed.

Lemma tl_rem_notfound id l : fst (tl_rem id l) = false -> snd (tl_rem id l) = l.
Proof.
  induction l as [|y r IH]; simpl; auto.
  destruct (String.eqb (j_id y) id); simpl.
  - discriminate.
  - destruct (tl_rem id r) as [f r']. simpl in *. intros H. rewrite IH; auto.
Qed.

Lemma mark_removed_In i l j m :
  In (j, m) (snd (mark_removed i l)) -> In (j, m) l \/ m = true.
Proof.
  induction l as [|[x rm] r IH]; simpl; auto.
  destruct (mark_removed i r) as [f r']. simpl in IH.
  destruct (String.eqb (j_id x) i && negb rm); simpl.
  - intros [H|H]; [inversion H; auto|]. destruct (IH H); auto.
  - intros [H|H]; auto. destruct (IH H); auto.
Qed.

Lemma mark_removed_marks id l j m :
  In (j, m) (snd (mark_removed id l)) -> j_id j = id -> m = true.
Proof.
  induction l as [|[x rm] r IH]; simpl.
  - tauto.
  - destruct (mark_removed id r) as [f r']. simpl in IH.
    destruct (String.eqb (j_id x) id && negb rm) eqn:E; simpl.
    + intros [H|H] Hid; [inversion H; auto|auto].
    + intros [H|H] Hid; auto. inversion H; subst.
      rewrite String.eqb_refl in E. simpl in E. destruct m; auto.
Qed.

Lemma mark_removed_found id l :
  fst (mark_removed id l) = true <->
  exists j, In (j, false) l /\ j_id j = id /\ j_rec j = true.
Proof.
  induction l as [|[x rm] r IH]; simpl.
  - split; [discriminate|]. intros (j & [] & _).
  - destruct (mark_removed id r) as [f r']. simpl in IH.
    destruct (String.eqb (j_id x) id) eqn:E; destruct rm; simpl.
    + rewrite IH. split.
      * intros (j & H1 & H2). exists j. auto.
      * intros (j & [H1|H1] & H2); [discriminate|]. exists j. auto.
    + apply String.eqb_eq in E. rewrite Bool.orb_true_iff, IH. split.
      * intros [H|(j & H1 & H2)]; [exists x; auto|exists j; auto].
      * intros (j & [H1|H1] & H2 & H3).
        -- inversion H1; subst. auto.
        -- right. exists j. auto.
    + rewrite IH. split.
      * intros (j & H1 & H2). exists j. auto.
      * intros (j & [H1|H1] & H2); [discriminate|]. exists j. auto.
    + apply String.eqb_neq in E. rewrite IH. split.
      * intros (j & H1 & H2). exists j. auto.
      * intros (j & [H1|H1] & H2 & H3).
        -- inversion H1; subst. contradiction.
        -- exists j. auto.
Qed.

Lemma tl_insert_In j l x : In x (tl_insert j l) <-> x = j \/ In x l.
Proof.
  induction l as [|y r IH]; simpl.
  - intuition.
  - destruct (j_next j <? j_next y); simpl; rewrite ?IH; intuition.
Qed.

Lemma tl_insert_In_id j l s :
  In s (map j_id (tl_insert j l)) <-> s = j_id j \/ In s (map j_id l).
Proof.
  induction l as [|y r IH]; simpl.
  - intuition.
  - destruct (j_next j <? j_next y); simpl; rewrite ?IH; intuition.
Qed.

Lemma tl_insert_sorted j l :
  StronglySorted next_le l -> StronglySorted next_le (tl_insert j l).
Proof.
  induction 1 as [|y r Hs IH Hf]; simpl.
  - repeat constructor.
  - destruct (j_next j <? j_next y) eqn:E.
    + apply Z.ltb_lt in E. constructor.
      * constructor; auto.
      * constructor.
        -- unfold next_le. lia.
        -- rewrite Forall_forall in *. intros x Hx. specialize (Hf x Hx).
           unfold next_le in *. lia.
    + apply Z.ltb_ge in E. constructor; auto.
      rewrite Forall_forall in *. intros x Hx. apply tl_insert_In in Hx.
      destruct Hx as [->|Hx]; auto.
Qed.

Lemma tl_insert_nodup j l :
  NoDup (map j_id l) -> ~ In (j_id j) (map j_id l) -> NoDup (map j_id (tl_insert j l)).
Proof.
  induction l as [|y r IH]; simpl; intros Hd Hn.
  - constructor; auto.
  - destruct (j_next j <? j_next y); simpl.
    + constructor; auto.
    + inversion Hd; subst. constructor.
      * rewrite tl_insert_In_id. intros [Heq|Hin]; auto.
      * apply IH; auto.
Qed.

Lemma take_inflight_spec i l j m rest :
  take_inflight i l = Some (j, m, rest) ->
  j_id j = i /\ In (j, m) l /\ forall x, In x rest -> In x l.
Proof.
  revert j m rest. induction l as [|[y ym] r IH]; simpl; intros j m rest H.
  - discriminate.
  - destruct (String.eqb (j_id y) i) eqn:E.
    + inversion H; subst. apply String.eqb_eq in E. auto.
    + destruct (take_inflight i r) as [[[z zm] r']|]; [|discriminate].
      inversion H; subst. destruct (IH _ _ _ eq_refl) as (H1 & H2 & H3).
      repeat split; auto. intros x [<-|Hx]; auto.
Qed.

Lemma reset_timer_head tl now j r :
  tl = j :: r -> exists t, reset_timer false tl now = Some t /\ j_next j <= t.
Proof.
  intros ->. simpl. eexists. split; [reflexivity|]. lia.
Qed.

(** * The timeline stays sorted *)

Lemma step_sorted c o :
  StronglySorted next_le (c_tl c) -> StronglySorted next_le (c_tl (step c o)).
Proof.
  intros H. destruct o; try rewrite step_rem; simpl.
  - sched; auto. apply tl_insert_sorted, tl_rem_sorted; auto.
  - apply tl_rem_sorted; auto.
  - destruct (c_tl c) as [|j r] eqn:E; simpl; auto.
    destruct (negb (c_susp c) && (j_next j <=? now)); simpl; auto. inversion H; auto.
  - destruct (take_inflight id (c_inflight c)) as [[[j m] rest]|]; auto.
    destruct (j_rec j && negb m); simpl; auto.
    sched. apply tl_insert_sorted, tl_rem_sorted; auto.
  - auto.
  - destruct (c_susp c); simpl; auto.
  - auto.
Qed.

Theorem timeline_sorted : timeline_sorted_statement.
Proof.
  intros ops limit.
  apply (run_inv (fun c => StronglySorted next_le (c_tl c))).
  - intros; apply step_sorted; auto.
  - simpl. constructor.
Qed.

(** * At most one pending entry per id *)

Lemma step_nodup c o : NoDup (map j_id (c_tl c)) -> NoDup (map j_id (c_tl (step c o))).
Proof.
  intros H. destruct o; try rewrite step_rem; simpl.
  - destruct (tl_rem_nodup id _ H) as [H1 H2].
    sched; auto. apply tl_insert_nodup; auto.
  - apply tl_rem_nodup; auto.
  - destruct (c_tl c) as [|j r] eqn:E; simpl; auto.
    destruct (negb (c_susp c) && (j_next j <=? now)); simpl; auto. inversion H; auto.
  - destruct (take_inflight id (c_inflight c)) as [[[j m] rest]|]; auto.
    destruct (j_rec j && negb m); simpl; auto.
    destruct (tl_rem_nodup id _ H) as [H1 H2].
    sched. apply tl_insert_nodup; auto.
  - auto.
  - destruct (c_susp c); simpl; auto.
  - auto.
Qed.

Lemma run_nodup ops limit : NoDup (map j_id (c_tl (run ops (cron_init limit)))).
Proof.
  apply (run_inv (fun c => NoDup (map j_id (c_tl c)))).
  - intros; apply step_nodup; auto.
  - simpl. constructor.
Qed.

Theorem unique_ids : unique_ids_statement.
Proof. intros ops limit. apply run_nodup. Qed.

(** * No early firing, and every firing was scheduled *)

Definition job_sched (ops : list cop) (j : cjob) : Prop :=
  (exists now, In (CAdd (j_id j) (j_next j) (j_rec j) now) ops) \/
  (j_rec j = true /\ exists now, In (CDone (j_id j) now (j_next j)) ops).

Lemma job_sched_mono ops o j : job_sched ops j -> job_sched (ops ++ [o])%list j.
Proof.
  intros [(n & H)|(Hr & n & H)]; [left|right; split; auto]; exists n;
    apply in_or_app; auto.
Qed.

Lemma ws_js ops f :
  was_scheduled ops f <-> job_sched ops (mkJob (f_id f) (f_next f) (f_rec f)).
Proof. unfold was_scheduled, job_sched. simpl. tauto. Qed.

Definition nef_inv (ops : list cop) (c : cron) : Prop :=
  (forall j, In j (c_tl c) -> job_sched ops j) /\
  (forall f, In f (c_fires c) -> f_next f <= f_now f /\ was_scheduled ops f).

Lemma nef_mono ops o c c' :
  nef_inv ops c ->
  (forall j, In j (c_tl c') -> In j (c_tl c)) ->
  c_fires c' = c_fires c ->
  nef_inv (ops ++ [o])%list c'.
Proof.
  intros [H1 H2] Ht Hf. split.
  - intros j Hj. apply job_sched_mono. auto.
  - rewrite Hf. intros f Hin. destruct (H2 f Hin) as [Ha Hb]. split; auto.
    apply ws_js. apply job_sched_mono. apply ws_js. auto.
Qed.

Lemma nef_insert ops o c j tl1 infl s lim armed :
  nef_inv ops c ->
  (forall x, In x tl1 -> In x (c_tl c)) ->
  job_sched (ops ++ [o])%list j ->
  nef_inv (ops ++ [o])%list (mkCron (tl_insert j tl1) infl s lim armed (c_fires c)).
Proof.
  intros Hinv Hsub Hj.
  destruct (nef_mono ops o c c Hinv (fun _ h => h) eq_refl) as [H1 H2].
  split; simpl; auto.
  intros x Hx. apply tl_insert_In in Hx. destruct Hx as [->|Hx]; auto.
Qed.

Lemma step_nef ops c o : nef_inv ops c -> nef_inv (ops ++ [o])%list (step c o).
Proof.
  intros Hinv. destruct o; try rewrite step_rem; simpl.
  - sched.
    + apply (nef_mono ops _ c); auto.
    + apply (nef_insert ops _ c); auto.
      * intros x. apply tl_rem_In.
      * left. simpl. exists now. apply in_or_app. right. left. reflexivity.
  - apply (nef_mono ops _ c); auto. simpl. intros j. apply tl_rem_In.
  - destruct (c_tl c) as [|j r] eqn:E.
    + apply (nef_mono ops _ c); auto. simpl. rewrite E. auto.
    + destruct (negb (c_susp c) && (j_next j <=? now)) eqn:L.
      * apply Bool.andb_true_iff in L. destruct L as [_ L]. apply Z.leb_le in L.
        destruct (nef_mono ops (CTick now) c c Hinv (fun _ h => h) eq_refl) as [H1 H2].
        split; simpl.
        -- intros x Hx. apply H1. rewrite E. right. auto.
        -- intros f [<-|Hf]; auto. simpl. split; auto.
           apply ws_js. simpl.
           assert (Hj : job_sched (ops ++ [CTick now])%list j)
             by (apply H1; rewrite E; left; reflexivity).
           destruct j; exact Hj.
      * apply (nef_mono ops _ c); auto. simpl. rewrite E. auto.
  - destruct (take_inflight id (c_inflight c)) as [[[j m] rest]|] eqn:T.
    + destruct (j_rec j && negb m).
      * sched.
        apply (nef_insert ops _ c); auto.
        -- intros x. apply tl_rem_In.
        -- right. simpl. split; auto. exists now. apply in_or_app. right. left. reflexivity.
      * apply (nef_mono ops _ c); auto.
    + apply (nef_mono ops _ c); auto.
  - apply (nef_mono ops _ c); auto.
  - destruct (c_susp c); apply (nef_mono ops _ c); auto.
  - apply (nef_mono ops _ c); auto.
Qed.

Lemma run_nef limit ops : nef_inv ops (run ops (cron_init limit)).
Proof.
  induction ops as [|o ops IH] using rev_ind.
  - split; simpl; intros ? [].
  - rewrite run_snoc. apply step_nef. exact IH.
Qed.

Theorem no_early_fire : no_early_fire_statement.
Proof.
  intros ops limit f Hf. destruct (run_nef limit ops) as [_ H]. auto.
Qed.

(** * Counting firings against schedulings *)

Definition is_job (id : string) (r : bool) (j : cjob) : bool :=
  String.eqb (j_id j) id && Bool.eqb (j_rec j) r.
Definition pendl (id : string) (r : bool) (l : list cjob) : nat :=
  length (filter (is_job id r) l).
Definition b2n (b : bool) : nat := if b then 1%nat else 0%nat.

Lemma pendl_cons id r j l : pendl id r (j :: l) = (b2n (is_job id r j) + pendl id r l)%nat.
Proof. unfold pendl. simpl. destruct (is_job id r j); reflexivity. Qed.

Lemma pendl_rem id r i l : (pendl id r (snd (tl_rem i l)) <= pendl id r l)%nat.
Proof.
  induction l as [|y t IH]; simpl; auto.
  destruct (String.eqb (j_id y) i); simpl.
  - rewrite pendl_cons. lia.
  - destruct (tl_rem i t) as [f t']. simpl in *. rewrite !pendl_cons. lia.
Qed.

Lemma pendl_insert id r j l :
  pendl id r (tl_insert j l) = (b2n (is_job id r j) + pendl id r l)%nat.
Proof.
  induction l as [|y t IH]; simpl.
  - rewrite pendl_cons. reflexivity.
  - destruct (j_next j <? j_next y); rewrite !pendl_cons; try rewrite IH; try rewrite pendl_cons; lia.
Qed.

Definition cf (id : string) (r : bool) (l : list fire) : nat :=
  length (filter (is_fire id r) l).

Lemma cf_cons id r f l : cf id r (f :: l) = (b2n (is_fire id r f) + cf id r l)%nat.
Proof. unfold cf. simpl. destruct (is_fire id r f); reflexivity. Qed.

Definition quantity (id : string) (r : bool) (c : cron) : nat :=
  (cf id r (c_fires c) + pendl id r (c_tl c))%nat.

Lemma step_count id r c o :
  (quantity id r (step c o)
   <= quantity id r c + b2n (is_add id r o) + b2n (r && is_done id o))%nat.
Proof.
  unfold quantity. destruct o; try rewrite step_rem; simpl.
  - rewrite Bool.andb_false_r. simpl.
    pose proof (pendl_rem id r id0 (c_tl c)).
    sched.
    + lia.
    + rewrite pendl_insert. unfold is_job at 1. simpl. lia.
  - rewrite Bool.andb_false_r. simpl.
    pose proof (pendl_rem id r id0 (c_tl c)). lia.
  - rewrite Bool.andb_false_r. simpl.
    destruct (c_tl c) as [|j t] eqn:E; simpl; try lia.
    destruct (negb (c_susp c) && (j_next j <=? now)); simpl.
    + rewrite cf_cons, pendl_cons. unfold is_fire, is_job. simpl. lia.
    + lia.
  - destruct (take_inflight id0 (c_inflight c)) as [[[j m] rest]|]; [|lia].
    destruct (j_rec j && negb m); simpl; [|lia].
    pose proof (pendl_rem id r id0 (c_tl c)).
    sched. rewrite pendl_insert. unfold is_job at 1. simpl.
    destruct r, (String.eqb id0 id); simpl; lia.
  - rewrite Bool.andb_false_r. simpl. lia.
  - rewrite Bool.andb_false_r. destruct (c_susp c); simpl; lia.
  - rewrite Bool.andb_false_r. simpl. lia.
Qed.

Lemma count_ops_cons p o ops : count_ops p (o :: ops) = (b2n (p o) + count_ops p ops)%nat.
Proof. unfold count_ops. simpl. destruct (p o); reflexivity. Qed.

Lemma run_count id r ops : forall c,
  (quantity id r (run ops c)
   <= quantity id r c + count_ops (is_add id r) ops
      + (if r then count_ops (is_done id) ops else 0))%nat.
Proof.
  induction ops as [|o ops IH]; intros c; simpl.
  - unfold count_ops. simpl. destruct r; lia.
  - specialize (IH (step c o)). pose proof (step_count id r c o) as Hs.
    rewrite !count_ops_cons. destruct r; simpl in *; lia.
Qed.

Theorem oneshot_fires_at_most_once : oneshot_fires_at_most_once_statement.
Proof.
  intros ops limit id.
  pose proof (run_count id false ops (cron_init limit)) as H.
  unfold quantity in H. simpl in H. unfold count_fires. unfold cf in H. lia.
Qed.

Theorem recurring_once_per_occurrence : recurring_once_per_occurrence_statement.
Proof.
  intros ops limit id.
  pose proof (run_count id true ops (cron_init limit)) as H.
  unfold quantity in H. simpl in H. unfold count_fires. unfold cf in H. lia.
Qed.

(** * A removed job never fires and is not pending *)

(** The id is not on the timeline, and every running entry with the id is
    marked [removed]. *)
Definition gone (id : string) (c : cron) : Prop :=
  ~ In id (map j_id (c_tl c)) /\
  (forall j m, In (j, m) (c_inflight c) -> j_id j = id -> m = true).

Lemma marked_keeps id i l :
  (forall j m, In (j, m) l -> j_id j = id -> m = true) ->
  forall j m, In (j, m) (snd (mark_removed i l)) -> j_id j = id -> m = true.
Proof.
  intros H j m Hin Hid. destruct (mark_removed_In _ _ _ _ Hin); eauto.
Qed.

Lemma step_gone id c o :
  gone id c -> (forall i next r now, o = CAdd i next r now -> i <> id) ->
  gone id (step c o) /\ fires_of id (step c o) = fires_of id c.
Proof.
  unfold gone, fires_of. intros [Ht Hi] Hno. destruct o; try rewrite step_rem; simpl.
  - assert (Hne : id0 <> id) by (eapply Hno; reflexivity).
    assert (Hr : ~ In id (map j_id (snd (tl_rem id0 (c_tl c)))))
      by (intro Hx; apply Ht; eapply tl_rem_In_id; eauto).
    sched; repeat split; auto.
    + rewrite tl_insert_In_id. simpl. intros [?|?]; auto.
    + apply marked_keeps; auto.
  - repeat split; auto.
    + intro Hx; apply Ht; eapply tl_rem_In_id; eauto.
    + apply marked_keeps; auto.
  - destruct (c_tl c) as [|j t] eqn:E; simpl; auto.
    destruct (negb (c_susp c) && (j_next j <=? now)); simpl; auto.
    simpl in Ht.
    destruct (String.eqb (j_id j) id) eqn:Q.
    + apply String.eqb_eq in Q. exfalso. auto.
    + apply String.eqb_neq in Q. repeat split; auto.
      intros j' m' [H|H] Hid; eauto. inversion H; subst. contradiction.
  - destruct (take_inflight id0 (c_inflight c)) as [[[j m] rest]|] eqn:T; auto.
    destruct (take_inflight_spec _ _ _ _ _ T) as (H1 & H2 & H3).
    assert (Hrest : forall j' m', In (j', m') rest -> j_id j' = id -> m' = true)
      by (intros j' m' Hin; apply Hi; auto).
    destruct (j_rec j && negb m) eqn:R; simpl; auto.
    assert (Hne : id0 <> id).
    { intros ->. rewrite (Hi j m H2 H1) in R. rewrite Bool.andb_false_r in R. discriminate. }
    assert (Hr : ~ In id (map j_id (snd (tl_rem id0 (c_tl c)))))
      by (intro Hx; apply Ht; eapply tl_rem_In_id; eauto).
    sched. repeat split; auto.
    + rewrite tl_insert_In_id. simpl. intros [?|?]; auto.
    + apply marked_keeps; auto.
  - auto.
  - destruct (c_susp c); simpl; auto.
  - auto.
Qed.

Lemma run_gone id ops : forall c,
  gone id c -> no_add id ops ->
  gone id (run ops c) /\ fires_of id (run ops c) = fires_of id c.
Proof.
  induction ops as [|o ops IH]; intros c Ha Hno; simpl; auto.
  destruct (step_gone id c o Ha) as [Ha' Hf].
  - intros i next r now ->. eapply Hno. left. reflexivity.
  - destruct (IH (step c o) Ha') as [Hg Hfs].
    + intros i next r now Hin. eapply Hno. right. eauto.
    + split; auto. rewrite Hfs. exact Hf.
Qed.

Lemma rem_gone ops1 limit id now :
  gone id (step (run ops1 (cron_init limit)) (CRem id now)) /\
  fires_of id (step (run ops1 (cron_init limit)) (CRem id now))
  = fires_of id (run ops1 (cron_init limit)).
Proof.
  rewrite step_rem. unfold gone, fires_of. simpl. repeat split.
  - apply tl_rem_nodup. apply run_nodup.
  - apply mark_removed_marks.
Qed.

Theorem removed_never_fires : removed_never_fires_statement.
Proof.
  intros ops1 ops2 limit id now s1 Hno. subst s1.
  destruct (rem_gone ops1 limit id now) as [Hg Hf].
  destruct (run_gone id ops2 _ Hg Hno) as [_ Hfs].
  rewrite Hfs. exact Hf.
Qed.

Theorem removed_not_pending : removed_not_pending_statement.
Proof.
  intros ops1 ops2 limit id now s1 Hno. subst s1.
  destruct (rem_gone ops1 limit id now) as [Hg Hf].
  destruct (run_gone id ops2 _ Hg Hno) as [[Hn _] _]. exact Hn.
Qed.

Theorem rem_found_iff : rem_found_iff_statement.
Proof.
  intros c id. unfold rem_found. rewrite c_rem_eq. simpl.
  rewrite Bool.orb_true_iff, tl_rem_found, mark_removed_found. tauto.
Qed.

(** * Suspend, resume, pause *)

Theorem suspend_keeps_jobs : suspend_keeps_jobs_statement.
Proof.
  intros c now. unfold same_jobs. simpl. destruct (c_susp c); simpl; auto 10.
Qed.

Lemma step_susp_quiet c o :
  c_susp c = true -> no_resume o ->
  c_fires (step c o) = c_fires c /\ c_susp (step c o) = true.
Proof.
  intros Hs Ho. destruct o; try rewrite step_rem; simpl in *; auto.
  - sched; auto.
  - rewrite Hs. simpl. destruct (c_tl c); simpl; auto.
  - destruct (take_inflight id (c_inflight c)) as [[[j m] rest]|]; auto.
    destruct (j_rec j && negb m); simpl; auto. sched. auto.
  - contradiction.
Qed.

Theorem suspended_quiet : suspended_quiet_statement.
Proof.
  intros c ops. revert c. induction ops as [|o ops IH]; intros c Hs Hf; simpl; auto.
  inversion Hf as [|? ? Ho Hf']; subst.
  destruct (step_susp_quiet c o Hs Ho) as [H1 H2].
  destruct (IH (step c o) H2 Hf') as [H3 H4]. split; auto. rewrite H3. exact H1.
Qed.

Definition stopped_inv (c : cron) : Prop := c_susp c = true -> c_armed c = None.

Lemma step_stopped c o : stopped_inv c -> stopped_inv (step c o).
Proof.
  unfold stopped_inv. intros Hinv. destruct o; try rewrite step_rem; simpl.
  - sched; auto. intros Hs. rewrite Hs. reflexivity.
  - intros Hs. rewrite Hs. simpl.
    destruct (fst (tl_rem id (c_tl c)) || fst (mark_removed id (c_inflight c))); auto.
  - destruct (c_tl c) as [|j t]; simpl.
    + intros Hs. rewrite (Hinv Hs). reflexivity.
    + destruct (negb (c_susp c) && (j_next j <=? now)); simpl; intros Hs.
      * rewrite Hs. reflexivity.
      * rewrite (Hinv Hs). reflexivity.
  - destruct (take_inflight id (c_inflight c)) as [[[j m] rest]|]; auto.
    destruct (j_rec j && negb m); simpl; auto. sched. intros Hs. rewrite Hs. reflexivity.
  - intros _. reflexivity.
  - destruct (c_susp c) eqn:S; simpl.
    + discriminate.
    + rewrite S. discriminate.
  - intros Hs. rewrite Hs. reflexivity.
Qed.

Theorem suspended_timer_stopped : suspended_timer_stopped_statement.
Proof.
  intros ops limit.
  apply (run_inv stopped_inv).
  - intros; apply step_stopped; auto.
  - intros _. reflexivity.
Qed.

Theorem resume_rearms : resume_rearms_statement.
Proof.
  intros c now j r Hs Ht. simpl. rewrite Hs. simpl. rewrite Ht. simpl. auto.
Qed.

(** * The timer is armed for the head in every reachable, not suspended state *)

Definition armed_inv (c : cron) : Prop :=
  forall j r, c_tl c = j :: r -> c_susp c = false ->
    exists t, c_armed c = Some t /\ j_next j <= t.

Lemma step_armed c o : armed_inv c -> armed_inv (step c o).
Proof.
  unfold armed_inv. intros Hinv. destruct o; try rewrite step_rem; simpl.
  - sched; auto. intros j r Heq Hs. rewrite Hs. eapply reset_timer_head; eauto.
  - intros j r Heq Hs. rewrite Hs.
    destruct (fst (tl_rem id (c_tl c)) || fst (mark_removed id (c_inflight c))) eqn:F.
    + eapply reset_timer_head; eauto.
    + apply Bool.orb_false_elim in F. destruct F as [F _].
      rewrite (tl_rem_notfound _ _ F) in Heq. eauto.
  - destruct (c_tl c) as [|j t] eqn:E; simpl.
    + intros; discriminate.
    + destruct (negb (c_susp c) && (j_next j <=? now)) eqn:L; simpl.
      * intros j' r' Heq Hs. rewrite Hs. eapply reset_timer_head; eauto.
      * intros j' r' Heq Hs. inversion Heq; subst.
        rewrite Hs in L. simpl in L. apply Z.leb_gt in L.
        destruct (Hinv j' r' eq_refl Hs) as (t0 & Ht0 & Hle). rewrite Ht0. simpl.
        destruct (t0 <=? now) eqn:L2.
        -- apply Z.leb_le in L2. exfalso. lia.
        -- exists t0. auto.
  - destruct (take_inflight id (c_inflight c)) as [[[j m] rest]|]; auto.
    destruct (j_rec j && negb m); simpl; auto.
    sched. intros j' r' Heq Hs. rewrite Hs. eapply reset_timer_head; eauto.
  - intros; discriminate.
  - destruct (c_susp c) eqn:S; simpl.
    + intros j r Heq _. eapply reset_timer_head; eauto.
    + intros j r Heq _. eauto.
  - intros j r Heq Hs. rewrite Hs. eapply reset_timer_head; eauto.
Qed.

Lemma run_armed ops limit : armed_inv (run ops (cron_init limit)).
Proof.
  apply (run_inv armed_inv).
  - intros; apply step_armed; auto.
  - intros j r H. discriminate.
Qed.

Theorem timer_armed_invariant : timer_armed_invariant_statement.
Proof.
  intros ops limit j r Ht Hs. apply (run_armed ops limit j r Ht Hs).
Qed.

Theorem never_stalled : never_stalled_statement.
Proof.
  intros ops limit. pose proof (run_armed ops limit) as H.
  unfold stalled, armed_inv in *.
  destruct (c_tl (run ops (cron_init limit))) as [|j r]; auto.
  destruct (c_armed (run ops (cron_init limit))) as [t|] eqn:A; auto.
  destruct (c_susp (run ops (cron_init limit))); auto.
  destruct (H j r eq_refl eq_refl) as (t & Ht & _). discriminate.
Qed.

Theorem rem_rearms_timer : rem_rearms_timer_statement.
Proof.
  intros c id now j r Hs Hf. unfold rem_found in Hf. rewrite c_rem_eq in Hf. simpl in Hf.
  rewrite step_rem. simpl. rewrite Hf, Hs. intros ->. reflexivity.
Qed.

(** * Add: refusal has no effect, acceptance is decided by the limit *)

Theorem refused_add_no_effect : refused_add_no_effect_statement.
Proof.
  intros c id next recurring now. unfold add_ok. simpl.
  destruct (schedule_spec c (mkJob id next recurring) true now) as [(_ & _ & E)|(_ & E)];
    rewrite E; simpl; auto. discriminate.
Qed.

Theorem add_ok_iff : add_ok_iff_statement.
Proof.
  intros c id next recurring now. unfold add_ok. simpl.
  destruct (schedule_spec c (mkJob id next recurring) true now) as [(_ & Ho & E)|([Hb|Ho] & E)];
    rewrite E; simpl in *; try discriminate.
  - rewrite Ho. split; [reflexivity|discriminate].
  - rewrite Ho. split; [reflexivity|]. intros _. apply tl_insert_In. auto.
Qed.

(** * sort.Search finds the position of the linear insert *)

Definition later (t : Z) (tl : list cjob) (i : nat) : bool :=
  match nth_error tl i with Some x => t <? j_next x | None => true end.

Lemma half_bounds i j : (i < j)%nat -> (i <= (i + j) / 2 < j)%nat.
Proof.
  intros H. pose proof (Nat.div_mod (i + j) 2).
  pose proof (Nat.mod_upper_bound (i + j) 2). lia.
Qed.

Lemma bsearch_S fuel f i j :
  bsearch (S fuel) f i j =
  if (i <? j)%nat then
    if f ((i + j) / 2)%nat then bsearch fuel f i ((i + j) / 2)%nat
    else bsearch fuel f (S ((i + j) / 2)%nat) j
  else i.
Proof. reflexivity. Qed.

Lemma bsearch_spec (f : nat -> bool) :
  (forall h k, (k <= h)%nat -> f h = false -> f k = false) ->
  forall fuel i j,
    (j - i < fuel)%nat -> (i <= j)%nat ->
    (forall k, (k < i)%nat -> f k = false) -> f j = true ->
    (forall k, (k < bsearch fuel f i j)%nat -> f k = false) /\
    f (bsearch fuel f i j) = true.
Proof.
  intros Hmono. induction fuel as [|fuel IH]; intros i j Hfuel Hij Hlo Hhi.
  - lia.
  - rewrite bsearch_S. destruct (i <? j)%nat eqn:L.
    + apply Nat.ltb_lt in L. pose proof (half_bounds i j L) as Hb.
      destruct (f ((i + j) / 2)%nat) eqn:Fh.
      * apply IH; auto; lia.
      * apply IH; auto; try lia.
        intros k Hk. apply (Hmono ((i + j) / 2)%nat); auto. lia.
    + apply Nat.ltb_ge in L. assert (i = j) by lia. subst. auto.
Qed.

Lemma sorted_nth tl : StronglySorted next_le tl ->
  forall h k x y, (h <= k)%nat -> nth_error tl h = Some x -> nth_error tl k = Some y ->
  j_next x <= j_next y.
Proof.
  induction 1 as [|a l Hs IH Hf]; intros h k x y Hhk Hx Hy.
  - destruct h; discriminate.
  - destruct h as [|h]; destruct k as [|k]; simpl in *.
    + inversion Hx; inversion Hy; subst. lia.
    + inversion Hx; subst. apply nth_error_In in Hy.
      rewrite Forall_forall in Hf. apply Hf. auto.
    + lia.
    + apply (IH h k x y); auto. lia.
Qed.

Lemma later_mono t tl : StronglySorted next_le tl ->
  forall h k, (k <= h)%nat -> later t tl h = false -> later t tl k = false.
Proof.
  intros Hs h k Hkh. unfold later.
  destruct (nth_error tl h) as [x|] eqn:Eh; [|discriminate].
  destruct (nth_error tl k) as [y|] eqn:Ek.
  - intros Hx. pose proof (sorted_nth tl Hs k h y x Hkh Ek Eh).
    apply Z.ltb_ge in Hx. apply Z.ltb_ge. lia.
  - exfalso. apply nth_error_None in Ek.
    assert (nth_error tl h = None) by (apply nth_error_None; lia). congruence.
Qed.

Lemma insert_at_first_later j : forall tl k,
  (forall i, (i < k)%nat -> later (j_next j) tl i = false) ->
  later (j_next j) tl k = true ->
  tl_insert j tl = (firstn k tl ++ j :: skipn k tl)%list.
Proof.
  induction tl as [|x r IH]; intros k Hlo Hk.
  - destruct k; reflexivity.
  - simpl. destruct (j_next j <? j_next x) eqn:E.
    + destruct k as [|k]; [reflexivity|].
      specialize (Hlo 0%nat). unfold later in Hlo. simpl in Hlo.
      rewrite E in Hlo. assert (true = false) by (apply Hlo; lia). discriminate.
    + destruct k as [|k].
      * unfold later in Hk. simpl in Hk. congruence.
      * simpl. f_equal. apply IH.
        -- intros i Hi. apply (Hlo (S i)). lia.
        -- exact Hk.
Qed.

Theorem search_is_first_later : search_is_first_later_statement.
Proof.
  intros j tl Hs. unfold tl_insert_at, tl_search.
  change (fun i => match nth_error tl i with Some x => j_next j <? j_next x | None => true end)
    with (later (j_next j) tl).
  destruct (bsearch_spec (later (j_next j) tl) (later_mono _ _ Hs)
              (S (length tl)) 0%nat (length tl)) as [H1 H2]; try lia.
  - unfold later. assert (E : nth_error tl (length tl) = None) by (apply nth_error_None; lia).
    rewrite E. reflexivity.
  - symmetry. apply insert_at_first_later; auto.
Qed.

(** * The repaired behaviour on the traces that exhibited the defects *)

(** D26 repaired: a recurring job removed while its callback runs is found by
    Rem, does not re-schedule itself and does not fire again. *)
Example removed_inflight_recurring_fixed_example :
  let ops := [CAdd "j" 1000 true 0; CTick 1000; CRem "j" 1001; CDone "j" 1002 2000; CTick 2000] in
  rem_found (run (firstn 2 ops) (cron_init 10)) "j" = true /\
  map f_now (fires_of "j" (run ops (cron_init 10))) = [1000] /\
  c_tl (run ops (cron_init 10)) = [].
Proof. vm_compute. repeat split; reflexivity. Qed.

(** Same repair: the job added while the callback of the old one runs is kept. *)
Example readd_inflight_kept_example :
  let ops := [CAdd "j" 1000 true 0; CTick 1000; CAdd "j" 9000 false 1001; CDone "j" 1002 2000] in
  c_tl (run ops (cron_init 10)) = [mkJob "j" 9000 false].
Proof. vm_compute. reflexivity. Qed.

(** D38 repaired: removing the head re-arms the timer for the new head. *)
Example rem_head_rearms_example :
  let ops := [CAdd "a" 200 false 0; CAdd "b" 400 false 0; CRem "a" 10; CTick 200] in
  let c := run ops (cron_init 10) in
  stalled c = false /\ c_armed c = Some 400 /\ c_tl c = [mkJob "b" 400 false].
Proof. vm_compute. repeat split; reflexivity. Qed.

(** D49 repaired: an Add while suspended arms nothing, a timer value does not
    fire anything, and Resume arms the timer for the (overdue) head. *)
Example add_while_suspended_quiet_example :
  let ops := [CAdd "a" 100 false 0; CSuspend; CAdd "b" 5000 false 50; CTick 100] in
  let c := run ops (cron_init 10) in
  c_fires c = [] /\ c_armed c = None /\ c_armed (step c (CResume 300)) = Some 300.
Proof. vm_compute. repeat split; reflexivity. Qed.

(** D50 repaired: an Add refused at capacity leaves the pending job alone. *)
Example add_at_capacity_refused_keeps_job_example :
  let ops := [CAdd "a" 100 true 0; CTick 100; CAdd "b" 200 false 101; CDone "a" 102 300] in
  let c := run ops (cron_init 1) in
  map j_id (c_tl c) = ["b"; "a"] /\
  add_ok c "b" 250 false 103 = false /\
  step c (CAdd "b" 250 false 103) = c.
Proof. vm_compute. repeat split; reflexivity. Qed.

(** * The hypotheses of the conditional theorems are satisfiable *)

(** The id is running (recurring, not marked) at the Rem, and the rest of the
    trace contains the return of its callback and a tick at the instant it
    would have fired again. *)
Example removed_never_fires_hyps_sat :
  exists ops1 ops2 limit id,
    (exists j, In (j, false) (c_inflight (run ops1 (cron_init limit))) /\
               j_id j = id /\ j_rec j = true) /\
    no_add id ops2 /\ In (CDone id 1002 2000) ops2 /\ In (CTick 2000) ops2.
Proof.
  exists [CAdd "j" 1000 true 0; CTick 1000], [CDone "j" 1002 2000; CTick 2000], 10, "j".
  split; [|split; [|split]].
  - exists (mkJob "j" 1000 true). vm_compute. auto.
  - intros i next r now [H|[H|[]]]; discriminate.
  - simpl. auto.
  - simpl. auto.
Qed.

(** A suspended state with a due head, and a trace without Resume containing
    an Add and a tick at an instant the head is due. *)
Example suspended_quiet_hyps_sat :
  exists c ops j r now,
    c_susp c = true /\ Forall no_resume ops /\
    c_tl c = j :: r /\ j_next j <= now /\
    In (CTick now) ops /\ In (CAdd "b" 5000 false 50) ops.
Proof.
  exists (run [CAdd "a" 100 false 0; CSuspend] (cron_init 10)),
         [CAdd "b" 5000 false 50; CTick 100; CRem "b" 120; CPause 150],
         (mkJob "a" 100 false), [], 100.
  split; [|split; [|split; [|split; [|split]]]].
  - vm_compute. reflexivity.
  - repeat constructor.
  - vm_compute. reflexivity.
  - simpl. lia.
  - simpl. auto.
  - simpl. auto.
Qed.

Example suspended_timer_stopped_hyps_sat :
  exists ops limit, c_susp (run ops (cron_init limit)) = true /\
                    c_tl (run ops (cron_init limit)) <> [].
Proof.
  exists [CAdd "a" 100 false 0; CSuspend; CAdd "b" 50 false 10; CPause 20], 10.
  vm_compute. split; [reflexivity|discriminate].
Qed.

Example resume_rearms_hyps_sat :
  exists c j r, c_susp c = true /\ c_tl c = j :: r.
Proof.
  exists (run [CAdd "a" 100 false 0; CSuspend] (cron_init 10)), (mkJob "a" 100 false), [].
  vm_compute. split; reflexivity.
Qed.

(** A trace with a Rem (of the head) that ends not suspended with a
    non-empty timeline. *)
Example timer_armed_invariant_hyps_sat :
  exists ops limit j r,
    In (CRem "a" 10) ops /\
    c_tl (run ops (cron_init limit)) = j :: r /\
    c_susp (run ops (cron_init limit)) = false.
Proof.
  exists [CAdd "a" 200 false 0; CAdd "b" 400 false 0; CRem "a" 10; CTick 200],
         10, (mkJob "b" 400 false), [].
  split; [|split].
  - simpl. auto.
  - vm_compute. reflexivity.
  - vm_compute. reflexivity.
Qed.

Example rem_rearms_timer_hyps_sat :
  exists c id now j r, c_susp c = false /\ rem_found c id = true /\
                       c_tl (step c (CRem id now)) = j :: r.
Proof.
  exists (run [CAdd "a" 200 false 0; CAdd "b" 400 false 0] (cron_init 10)),
         "a", 10, (mkJob "b" 400 false), [].
  vm_compute. repeat split; reflexivity.
Qed.

Example refused_add_hyps_sat :
  exists c id next recurring now, add_ok c id next recurring now = false.
Proof.
  exists (run [CAdd "a" 100 true 0] (cron_init 1)), "b", 200, false, 10.
  vm_compute. reflexivity.
Qed.

Example search_hyps_sat :
  exists tl, tl <> [] /\ StronglySorted next_le tl.
Proof.
  exists [mkJob "a" 1 false; mkJob "b" 1 true; mkJob "c" 5 false].
  split; [discriminate|].
  repeat constructor; unfold next_le; simpl; lia.
Qed.
