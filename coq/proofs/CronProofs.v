(** C16 (in-memory cron): proofs of the statements of CronSpec.v over the model
    of Cron.v, plus closed counterexamples for the defects found (D26, D38,
    D49 and the capacity drop) and satisfiability witnesses for the
    hypotheses of the conditional theorems. *)
From Coq Require Import Sorting.Sorted Lia.
From Verif Require Import Json Cron CronSpec.

Arguments schedule : simpl never.

(** * Generic facts about [run] *)

Lemma run_snoc ops o c : run (ops ++ [o])%list c = step (run ops c) o.
Proof. unfold run. rewrite fold_left_app. reflexivity. Qed.

Lemma run_inv (P : cron -> Prop) :
  (forall c o, P c -> P (step c o)) -> forall ops c, P c -> P (run ops c).
Proof.
  intros Hs ops. induction ops as [|o ops IH]; intros c Hc; simpl.
  - exact Hc.
  - apply IH. apply Hs. exact Hc.
Qed.

(** * [schedule] by cases *)

Definition sched_result (c : cron) (tl : list cjob) (armed : option Z) : cron :=
  mkCron tl (c_inflight c) (c_susp c) (c_limit c) armed (c_fires c).

Lemma schedule_spec c j b now :
  (b = true /\ c_limit c <= Z.of_nat (length (snd (tl_rem (j_id j) (c_tl c)))) /\
   schedule c j b now = (sched_result c (snd (tl_rem (j_id j) (c_tl c))) (c_armed c), false)) \/
  ((b = false \/ Z.of_nat (length (snd (tl_rem (j_id j) (c_tl c)))) < c_limit c) /\
   schedule c j b now =
     (sched_result c (tl_insert j (snd (tl_rem (j_id j) (c_tl c))))
        (reset_timer (tl_insert j (snd (tl_rem (j_id j) (c_tl c)))) now), true)).
Proof.
  unfold schedule, sched_result. destruct (tl_rem (j_id j) (c_tl c)) as [f tl1]. simpl.
  destruct b; simpl.
  - destruct (c_limit c <=? Z.of_nat (length tl1)) eqn:E.
    + left. apply Z.leb_le in E. auto.
    + right. apply Z.leb_gt in E. auto.
  - right. auto.
Qed.

Ltac sched :=
  match goal with
  | |- context [schedule ?c ?j ?b ?n] =>
      let E := fresh "E" in
      let Hb := fresh "Hb" in
      let Hl := fresh "Hl" in
      destruct (schedule_spec c j b n) as [(Hb & Hl & E)|(Hl & E)];
      [try discriminate Hb|]; rewrite E; clear E; unfold sched_result; simpl in *
  end.

(** * [tl_rem], [tl_insert], [take_inflight] *)

Lemma tl_rem_In id l x : In x (snd (tl_rem id l)) -> In x l.
Proof.
  induction l as [|y r IH]; simpl; auto.
  destruct (String.eqb (j_id y) id); simpl; auto.
  destruct (tl_rem id r) as [f r']. simpl in *. intuition.
Qed.

Lemma tl_rem_In_id id l s : In s (map j_id (snd (tl_rem id l))) -> In s (map j_id l).
Proof.
  rewrite !in_map_iff. intros (x & Hx & Hin). exists x. split; auto.
  eapply tl_rem_In; eauto.
Qed.

Lemma tl_rem_length id l : (length (snd (tl_rem id l)) <= length l)%nat.
Proof.
  induction l as [|y r IH]; simpl; auto.
  destruct (String.eqb (j_id y) id); simpl; auto.
  destruct (tl_rem id r) as [f r']. simpl in *. lia.
Qed.

Lemma tl_rem_sorted id l :
  StronglySorted next_le l -> StronglySorted next_le (snd (tl_rem id l)).
Proof.
  induction 1 as [|y r Hs IH Hf]; simpl.
  - constructor.
  - destruct (String.eqb (j_id y) id); simpl; auto.
    pose proof (tl_rem_In id r) as Hin.
    destruct (tl_rem id r) as [f r']. simpl in *.
    constructor; auto.
    rewrite Forall_forall in *. auto.
Qed.

Lemma tl_rem_nodup id l :
  NoDup (map j_id l) ->
  NoDup (map j_id (snd (tl_rem id l))) /\ ~ In id (map j_id (snd (tl_rem id l))).
Proof.
  induction l as [|y r IH]; simpl; intros H.
  - split; auto.
  - inversion H as [|? ? Hn Hd]; subst.
    destruct (String.eqb (j_id y) id) eqn:E; simpl.
    + apply String.eqb_eq in E. subst. split; auto.
    + pose proof (tl_rem_In_id id r) as Hin.
      destruct (tl_rem id r) as [f r']. simpl in *.
      destruct (IH Hd) as [H1 H2]. apply String.eqb_neq in E.
      split.
      * constructor; auto.
      * intros [?|?]; auto.
Qed.

Lemma tl_insert_In j l x : In x (tl_insert j l) <-> x = j \/ In x l.
Proof.
  induction l as [|y r IH]; simpl.
  - intuition.
  - destruct (j_next j <? j_next y); simpl; rewrite ?IH; intuition.
Qed.

Lemma tl_insert_In_id j l s :
  In s (map j_id (tl_insert j l)) <-> s = j_id j \/ In s (map j_id l).
Proof.
  induction l as [|y r IH]; simpl.
  - intuition.
  - destruct (j_next j <? j_next y); simpl; rewrite ?IH; intuition.
Qed.

Lemma tl_insert_length j l : length (tl_insert j l) = S (length l).
Proof.
  induction l as [|y r IH]; simpl; auto.
  destruct (j_next j <? j_next y); simpl; auto.
Qed.

Lemma tl_insert_sorted j l :
  StronglySorted next_le l -> StronglySorted next_le (tl_insert j l).
Proof.
  induction 1 as [|y r Hs IH Hf]; simpl.
  - repeat constructor.
  - destruct (j_next j <? j_next y) eqn:E.
    + apply Z.ltb_lt in E. constructor.
      * constructor; auto.
      * constructor.
        -- unfold next_le. lia.
        -- rewrite Forall_forall in *. intros x Hx. specialize (Hf x Hx).
           unfold next_le in *. lia.
    + apply Z.ltb_ge in E. constructor; auto.
      rewrite Forall_forall in *. intros x Hx. apply tl_insert_In in Hx.
      destruct Hx as [->|Hx]; auto.
Qed.

Lemma tl_insert_nodup j l :
  NoDup (map j_id l) -> ~ In (j_id j) (map j_id l) -> NoDup (map j_id (tl_insert j l)).
Proof.
  induction l as [|y r IH]; simpl; intros Hd Hn.
  - constructor; auto.
  - destruct (j_next j <? j_next y); simpl.
    + constructor; auto.
    + inversion Hd; subst. constructor.
      * rewrite tl_insert_In_id. intros [Heq|Hin]; auto.
      * apply IH; auto.
Qed.

Lemma take_inflight_spec i l j rest :
  take_inflight i l = Some (j, rest) ->
  j_id j = i /\ In j l /\ forall x, In x rest -> In x l.
Proof.
  revert j rest. induction l as [|y r IH]; simpl; intros j rest H.
  - discriminate.
  - destruct (String.eqb (j_id y) i) eqn:E.
    + inversion H; subst. apply String.eqb_eq in E. auto.
    + destruct (take_inflight i r) as [[z r']|]; [|discriminate].
      inversion H; subst. destruct (IH _ _ eq_refl) as (H1 & H2 & H3).
      repeat split; auto. intros x [->|Hx]; auto.
Qed.

Lemma reset_timer_head tl now j r :
  tl = j :: r -> exists t, reset_timer tl now = Some t /\ j_next j <= t.
Proof.
  intros ->. simpl. eexists. split; [reflexivity|]. lia.
Qed.

(** * The timeline stays sorted *)

Lemma step_sorted c o :
  StronglySorted next_le (c_tl c) -> StronglySorted next_le (c_tl (step c o)).
Proof.
  intros H. destruct o; simpl.
  - sched; [apply tl_rem_sorted|apply tl_insert_sorted, tl_rem_sorted]; auto.
  - apply tl_rem_sorted; auto.
  - destruct (c_tl c) as [|j r] eqn:E; simpl; auto.
    destruct (j_next j <=? now); simpl; auto. inversion H; auto.
  - destruct (take_inflight id (c_inflight c)) as [[j rest]|]; auto.
    destruct (j_rec j); simpl; auto.
    sched. apply tl_insert_sorted, tl_rem_sorted; auto.
  - auto.
  - destruct (c_susp c); simpl; auto.
  - auto.
Qed.

Theorem timeline_sorted : timeline_sorted_statement.
Proof.
  intros ops limit.
  apply (run_inv (fun c => StronglySorted next_le (c_tl c))).
  - intros; apply step_sorted; auto.
  - simpl. constructor.
Qed.

(** * At most one pending entry per id *)

Lemma step_nodup c o : NoDup (map j_id (c_tl c)) -> NoDup (map j_id (c_tl (step c o))).
Proof.
  intros H. destruct o; simpl.
  - destruct (tl_rem_nodup id _ H) as [H1 H2].
    sched; auto. apply tl_insert_nodup; auto.
  - apply tl_rem_nodup; auto.
  - destruct (c_tl c) as [|j r] eqn:E; simpl; auto.
    destruct (j_next j <=? now); simpl; auto. inversion H; auto.
  - destruct (take_inflight id (c_inflight c)) as [[j rest]|]; auto.
    destruct (j_rec j); simpl; auto.
    destruct (tl_rem_nodup id _ H) as [H1 H2].
    sched. apply tl_insert_nodup; auto.
  - auto.
  - destruct (c_susp c); simpl; auto.
  - auto.
Qed.

Theorem unique_ids : unique_ids_statement.
Proof.
  intros ops limit.
  apply (run_inv (fun c => NoDup (map j_id (c_tl c)))).
  - intros; apply step_nodup; auto.
  - simpl. constructor.
Qed.

(** * No early firing, and every firing was scheduled *)

Definition job_sched (ops : list cop) (j : cjob) : Prop :=
  (exists now, In (CAdd (j_id j) (j_next j) (j_rec j) now) ops) \/
  (j_rec j = true /\ exists now, In (CDone (j_id j) now (j_next j)) ops).

Lemma job_sched_mono ops o j : job_sched ops j -> job_sched (ops ++ [o])%list j.
Proof.
  intros [(n & H)|(Hr & n & H)]; [left|right; split; auto]; exists n;
    apply in_or_app; auto.
Qed.

Lemma ws_js ops f :
  was_scheduled ops f <-> job_sched ops (mkJob (f_id f) (f_next f) (f_rec f)).
Proof. unfold was_scheduled, job_sched. simpl. tauto. Qed.

Definition nef_inv (ops : list cop) (c : cron) : Prop :=
  (forall j, In j (c_tl c) -> job_sched ops j) /\
  (forall f, In f (c_fires c) -> f_next f <= f_now f /\ was_scheduled ops f).

Lemma nef_mono ops o c c' :
  nef_inv ops c ->
  (forall j, In j (c_tl c') -> In j (c_tl c)) ->
  c_fires c' = c_fires c ->
  nef_inv (ops ++ [o])%list c'.
Proof.
  intros [H1 H2] Ht Hf. split.
  - intros j Hj. apply job_sched_mono. auto.
  - rewrite Hf. intros f Hin. destruct (H2 f Hin) as [Ha Hb]. split; auto.
    apply ws_js. apply job_sched_mono. apply ws_js. auto.
Qed.

Lemma nef_insert ops o c j tl1 armed :
  nef_inv ops c ->
  (forall x, In x tl1 -> In x (c_tl c)) ->
  job_sched (ops ++ [o])%list j ->
  nef_inv (ops ++ [o])%list
    (mkCron (tl_insert j tl1) (c_inflight c) (c_susp c) (c_limit c) armed (c_fires c)).
Proof.
  intros Hinv Hsub Hj.
  destruct (nef_mono ops o c c Hinv (fun _ h => h) eq_refl) as [H1 H2].
  split; simpl; auto.
  intros x Hx. apply tl_insert_In in Hx. destruct Hx as [->|Hx]; auto.
Qed.

Lemma step_nef ops c o : nef_inv ops c -> nef_inv (ops ++ [o])%list (step c o).
Proof.
  intros Hinv. destruct o; simpl.
  - sched.
    + apply (nef_mono ops _ c); auto. simpl. intros j. apply tl_rem_In.
    + apply nef_insert; auto.
      * intros x. apply tl_rem_In.
      * left. simpl. exists now. apply in_or_app. right. left. reflexivity.
  - apply (nef_mono ops _ c); auto. simpl. intros j. apply tl_rem_In.
  - destruct (c_tl c) as [|j r] eqn:E.
    + apply (nef_mono ops _ c); auto. simpl. rewrite E. auto.
    + destruct (j_next j <=? now) eqn:L.
      * apply Z.leb_le in L.
        destruct (nef_mono ops (CTick now) c c Hinv (fun _ h => h) eq_refl) as [H1 H2].
        split; simpl.
        -- intros x Hx. apply H1. rewrite E. right. auto.
        -- intros f [<-|Hf]; auto. simpl. split; auto.
           apply ws_js. simpl.
           assert (Hj : job_sched (ops ++ [CTick now])%list j)
             by (apply H1; rewrite E; left; reflexivity).
           destruct j; exact Hj.
      * apply (nef_mono ops _ c); auto. simpl. rewrite E. auto.
  - destruct (take_inflight id (c_inflight c)) as [[j rest]|] eqn:T.
    + destruct (j_rec j).
      * sched.
        apply (nef_insert ops _ (mkCron (c_tl c) rest (c_susp c) (c_limit c) (c_armed c) (c_fires c))).
        -- destruct Hinv as [H1 H2]. split; simpl; auto.
        -- simpl. intros x. apply tl_rem_In.
        -- right. simpl. split; auto. exists now. apply in_or_app. right. left. reflexivity.
      * apply (nef_mono ops _ c); auto.
    + apply (nef_mono ops _ c); auto.
  - apply (nef_mono ops _ c); auto.
  - destruct (c_susp c); apply (nef_mono ops _ c); auto.
  - apply (nef_mono ops _ c); auto.
Qed.

Lemma run_nef limit ops : nef_inv ops (run ops (cron_init limit)).
Proof.
  induction ops as [|o ops IH] using rev_ind.
  - split; simpl; intros ? [].
  - rewrite run_snoc. apply step_nef. exact IH.
Qed.

Theorem no_early_fire : no_early_fire_statement.
Proof.
  intros ops limit f Hf. destruct (run_nef limit ops) as [_ H]. auto.
Qed.

(** * Counting firings against schedulings *)

Definition is_job (id : string) (r : bool) (j : cjob) : bool :=
  String.eqb (j_id j) id && Bool.eqb (j_rec j) r.
Definition pendl (id : string) (r : bool) (l : list cjob) : nat :=
  length (filter (is_job id r) l).
Definition b2n (b : bool) : nat := if b then 1%nat else 0%nat.

Lemma pendl_cons id r j l : pendl id r (j :: l) = (b2n (is_job id r j) + pendl id r l)%nat.
Proof. unfold pendl. simpl. destruct (is_job id r j); reflexivity. Qed.

Lemma pendl_rem id r i l : (pendl id r (snd (tl_rem i l)) <= pendl id r l)%nat.
Proof.
  induction l as [|y t IH]; simpl; auto.
  destruct (String.eqb (j_id y) i); simpl.
  - rewrite pendl_cons. lia.
  - destruct (tl_rem i t) as [f t']. simpl in *. rewrite !pendl_cons. lia.
Qed.

Lemma pendl_insert id r j l :
  pendl id r (tl_insert j l) = (b2n (is_job id r j) + pendl id r l)%nat.
Proof.
  induction l as [|y t IH]; simpl.
  - rewrite pendl_cons. reflexivity.
  - destruct (j_next j <? j_next y); rewrite !pendl_cons; try rewrite IH; try rewrite pendl_cons; lia.
Qed.

Definition cf (id : string) (r : bool) (l : list fire) : nat :=
  length (filter (is_fire id r) l).

Lemma cf_cons id r f l : cf id r (f :: l) = (b2n (is_fire id r f) + cf id r l)%nat.
Proof. unfold cf. simpl. destruct (is_fire id r f); reflexivity. Qed.

Definition quantity (id : string) (r : bool) (c : cron) : nat :=
  (cf id r (c_fires c) + pendl id r (c_tl c))%nat.

Lemma step_count id r c o :
  (quantity id r (step c o)
   <= quantity id r c + b2n (is_add id r o) + b2n (r && is_done id o))%nat.
Proof.
  unfold quantity. destruct o; simpl.
  - rewrite Bool.andb_false_r. simpl.
    pose proof (pendl_rem id r id0 (c_tl c)).
    sched.
    + lia.
    + rewrite pendl_insert. unfold is_job at 1. simpl. lia.
  - rewrite Bool.andb_false_r. simpl.
    pose proof (pendl_rem id r id0 (c_tl c)). lia.
  - rewrite Bool.andb_false_r. simpl.
    destruct (c_tl c) as [|j t] eqn:E; simpl; try lia.
    destruct (j_next j <=? now); simpl.
    + rewrite cf_cons, pendl_cons. unfold is_fire, is_job. simpl. lia.
    + lia.
  - destruct (take_inflight id0 (c_inflight c)) as [[j rest]|]; [|lia].
    destruct (j_rec j); simpl; [|lia].
    pose proof (pendl_rem id r id0 (c_tl c)).
    sched. rewrite pendl_insert. unfold is_job at 1. simpl.
    destruct r, (String.eqb id0 id); simpl; lia.
  - rewrite Bool.andb_false_r. simpl. lia.
  - rewrite Bool.andb_false_r. destruct (c_susp c); simpl; lia.
  - rewrite Bool.andb_false_r. simpl. lia.
Qed.

Lemma count_ops_cons p o ops : count_ops p (o :: ops) = (b2n (p o) + count_ops p ops)%nat.
Proof. unfold count_ops. simpl. destruct (p o); reflexivity. Qed.

Lemma run_count id r ops : forall c,
  (quantity id r (run ops c)
   <= quantity id r c + count_ops (is_add id r) ops
      + (if r then count_ops (is_done id) ops else 0))%nat.
Proof.
  induction ops as [|o ops IH]; intros c; simpl.
  - unfold count_ops. simpl. destruct r; lia.
  - specialize (IH (step c o)). pose proof (step_count id r c o) as Hs.
    rewrite !count_ops_cons. destruct r; simpl in *; lia.
Qed.

Theorem oneshot_fires_at_most_once : oneshot_fires_at_most_once_statement.
Proof.
  intros ops limit id.
  pose proof (run_count id false ops (cron_init limit)) as H.
  unfold quantity in H. simpl in H. unfold count_fires. unfold cf in H. lia.
Qed.

Theorem recurring_once_per_occurrence : recurring_once_per_occurrence_statement.
Proof.
  intros ops limit id.
  pose proof (run_count id true ops (cron_init limit)) as H.
  unfold quantity in H. simpl in H. unfold count_fires. unfold cf in H. lia.
Qed.

(** * A job removed while pending never fires *)

Definition absent (id : string) (c : cron) : Prop :=
  ~ In id (map j_id (c_tl c)) /\ ~ In id (map j_id (c_inflight c)).

Lemma not_in_ids_sub id (l l' : list cjob) :
  (forall x, In x l' -> In x l) -> ~ In id (map j_id l) -> ~ In id (map j_id l').
Proof.
  intros Hs Hn Hin. apply Hn. rewrite in_map_iff in *.
  destruct Hin as (x & Hx & Hi). exists x. auto.
Qed.

Lemma step_absent id c o :
  absent id c -> (forall i next r now, o = CAdd i next r now -> i <> id) ->
  absent id (step c o) /\ fires_of id (step c o) = fires_of id c.
Proof.
  unfold absent, fires_of. intros [Ht Hi] Hno. destruct o; simpl.
  - assert (Hne : id0 <> id) by (eapply Hno; reflexivity).
    assert (Hr : ~ In id (map j_id (snd (tl_rem id0 (c_tl c)))))
      by (intro Hx; apply Ht; eapply tl_rem_In_id; eauto).
    sched; repeat split; auto.
    rewrite tl_insert_In_id. simpl. intros [?|?]; auto.
  - repeat split; auto. intro Hx; apply Ht; eapply tl_rem_In_id; eauto.
  - destruct (c_tl c) as [|j t] eqn:E; simpl; auto.
    destruct (j_next j <=? now); simpl; auto.
    simpl in Ht.
    destruct (String.eqb (j_id j) id) eqn:Q.
    + apply String.eqb_eq in Q. exfalso. auto.
    + apply String.eqb_neq in Q. repeat split; auto. intros [?|?]; auto.
  - destruct (take_inflight id0 (c_inflight c)) as [[j rest]|] eqn:T; auto.
    destruct (take_inflight_spec _ _ _ _ T) as (H1 & H2 & H3).
    assert (Hne : id0 <> id).
    { intros ->. apply Hi. rewrite in_map_iff. exists j. auto. }
    assert (Hrest : ~ In id (map j_id rest)) by (eapply not_in_ids_sub; eauto).
    destruct (j_rec j); simpl; auto.
    assert (Hr : ~ In id (map j_id (snd (tl_rem id0 (c_tl c)))))
      by (intro Hx; apply Ht; eapply tl_rem_In_id; eauto).
    sched. repeat split; auto.
    rewrite tl_insert_In_id. simpl. intros [?|?]; auto.
  - auto.
  - destruct (c_susp c); simpl; auto.
  - auto.
Qed.

Lemma run_absent id ops : forall c,
  absent id c -> no_add id ops -> fires_of id (run ops c) = fires_of id c.
Proof.
  induction ops as [|o ops IH]; intros c Ha Hno; simpl; auto.
  destruct (step_absent id c o Ha) as [Ha' Hf].
  - intros i next r now ->. eapply Hno. left. reflexivity.
  - rewrite IH; auto. intros i next r now Hin. eapply Hno. right. eauto.
Qed.

Theorem removed_pending_never_fires : removed_pending_never_fires_statement.
Proof.
  intros ops1 ops2 limit id s1 Hfree Hno.
  rewrite run_absent; auto.
  split; simpl; auto.
  apply tl_rem_nodup. apply unique_ids.
Qed.

(** * Suspend, resume, pause *)

Theorem suspend_keeps_jobs : suspend_keeps_jobs_statement.
Proof.
  intros c now. unfold same_jobs. simpl. destruct (c_susp c); simpl; auto 10.
Qed.

Lemma quiet_run ops : forall c,
  c_armed c = None -> Forall quiet_op ops -> timer_driven c ops ->
  c_fires (run ops c) = c_fires c.
Proof.
  induction ops as [|o ops IH]; intros c Ha Hq Ht; simpl; auto.
  inversion Hq as [|? ? Hq1 Hq2]; subst. destruct Ht as [Ht1 Ht2].
  destruct o; simpl in Hq1; try contradiction.
  - rewrite IH; auto.
  - unfold tick_enabled in Ht1. rewrite Ha in Ht1. discriminate.
  - rewrite IH; auto.
Qed.

Theorem suspended_quiet : suspended_quiet_statement.
Proof.
  intros c ops Hq Ht. rewrite quiet_run; auto.
Qed.

Theorem resume_rearms : resume_rearms_statement.
Proof.
  intros c now j r Hs Ht. simpl. rewrite Hs. simpl. rewrite Ht. simpl. auto.
Qed.

(** * Without Rem and Suspend the timer is armed for the head *)

Definition armed_inv (c : cron) : Prop :=
  forall j r, c_tl c = j :: r -> exists t, c_armed c = Some t /\ j_next j <= t.

Lemma step_armed c o n :
  no_rem_susp o -> armed_inv c -> (length (c_tl c) <= n)%nat -> Z.of_nat n < c_limit c ->
  armed_inv (step c o) /\ (length (c_tl (step c o)) <= S n)%nat /\
  c_limit (step c o) = c_limit c.
Proof.
  unfold armed_inv. intros Ho Hinv Hlen Hlim. destruct o; simpl in Ho; try contradiction; simpl.
  - pose proof (tl_rem_length id (c_tl c)) as Hl.
    sched.
    + exfalso. lia.
    + repeat split; auto.
      * intros j r. apply reset_timer_head.
      * rewrite tl_insert_length. lia.
  - destruct (c_tl c) as [|j t] eqn:E; simpl.
    + repeat split; auto; try lia. intros; discriminate.
    + destruct (j_next j <=? now) eqn:L; simpl.
      * simpl in Hlen. repeat split; auto; try lia.
        intros j' r'. apply reset_timer_head.
      * apply Z.leb_gt in L. repeat split; auto.
        intros j' r' Heq. inversion Heq; subst.
        destruct (Hinv j' r' eq_refl) as (t0 & Ht0 & Hle). rewrite Ht0. simpl.
        destruct (t0 <=? now) eqn:L2.
        -- apply Z.leb_le in L2. exfalso. lia.
        -- exists t0. auto.
  - destruct (take_inflight id (c_inflight c)) as [[j rest]|]; auto.
    destruct (j_rec j); simpl; auto.
    pose proof (tl_rem_length id (c_tl c)) as Hl.
    sched. repeat split; auto.
    + intros j' r'. apply reset_timer_head.
    + rewrite tl_insert_length. lia.
  - destruct (c_susp c); simpl; auto.
    repeat split; auto. intros j r. apply reset_timer_head.
  - repeat split; auto. intros j r. apply reset_timer_head.
Qed.

Lemma run_armed ops : forall c n,
  Forall no_rem_susp ops -> armed_inv c -> (length (c_tl c) <= n)%nat ->
  Z.of_nat n + Z.of_nat (length ops) <= c_limit c ->
  armed_inv (run ops c).
Proof.
  induction ops as [|o ops IH]; intros c n Hf Hinv Hlen Hlim; simpl; auto.
  inversion Hf as [|? ? Ho Hf']; subst.
  simpl length in Hlim.
  destruct (step_armed c o n Ho Hinv Hlen) as (H1 & H2 & H3); [lia|].
  apply (IH _ (S n)); auto. rewrite H3. lia.
Qed.

Theorem timer_armed_without_rem : timer_armed_without_rem_statement.
Proof.
  intros ops limit j r Hf Hlim.
  apply (run_armed ops (cron_init limit) 0%nat).
  - exact Hf.
  - intros j' r' H. discriminate.
  - simpl. lia.
  - simpl. lia.
Qed.

(** * sort.Search finds the position of the linear insert *)

Definition later (t : Z) (tl : list cjob) (i : nat) : bool :=
  match nth_error tl i with Some x => t <? j_next x | None => true end.

Lemma half_bounds i j : (i < j)%nat -> (i <= (i + j) / 2 < j)%nat.
Proof.
  intros H. pose proof (Nat.div_mod (i + j) 2).
  pose proof (Nat.mod_upper_bound (i + j) 2). lia.
Qed.

Lemma bsearch_S fuel f i j :
  bsearch (S fuel) f i j =
  if (i <? j)%nat then
    if f ((i + j) / 2)%nat then bsearch fuel f i ((i + j) / 2)%nat
    else bsearch fuel f (S ((i + j) / 2)%nat) j
  else i.
Proof. reflexivity. Qed.

Lemma bsearch_spec (f : nat -> bool) :
  (forall h k, (k <= h)%nat -> f h = false -> f k = false) ->
  forall fuel i j,
    (j - i < fuel)%nat -> (i <= j)%nat ->
    (forall k, (k < i)%nat -> f k = false) -> f j = true ->
    (forall k, (k < bsearch fuel f i j)%nat -> f k = false) /\
    f (bsearch fuel f i j) = true.
Proof.
  intros Hmono. induction fuel as [|fuel IH]; intros i j Hfuel Hij Hlo Hhi.
  - lia.
  - rewrite bsearch_S. destruct (i <? j)%nat eqn:L.
    + apply Nat.ltb_lt in L. pose proof (half_bounds i j L) as Hb.
      destruct (f ((i + j) / 2)%nat) eqn:Fh.
      * apply IH; auto; lia.
      * apply IH; auto; try lia.
        intros k Hk. apply (Hmono ((i + j) / 2)%nat); auto. lia.
    + apply Nat.ltb_ge in L. assert (i = j) by lia. subst. auto.
Qed.

Lemma sorted_nth tl : StronglySorted next_le tl ->
  forall h k x y, (h <= k)%nat -> nth_error tl h = Some x -> nth_error tl k = Some y ->
  j_next x <= j_next y.
Proof.
  induction 1 as [|a l Hs IH Hf]; intros h k x y Hhk Hx Hy.
  - destruct h; discriminate.
  - destruct h as [|h]; destruct k as [|k]; simpl in *.
    + inversion Hx; inversion Hy; subst. lia.
    + inversion Hx; subst. apply nth_error_In in Hy.
      rewrite Forall_forall in Hf. apply Hf. auto.
    + lia.
    + apply (IH h k x y); auto. lia.
Qed.

Lemma later_mono t tl : StronglySorted next_le tl ->
  forall h k, (k <= h)%nat -> later t tl h = false -> later t tl k = false.
Proof.
  intros Hs h k Hkh. unfold later.
  destruct (nth_error tl h) as [x|] eqn:Eh; [|discriminate].
  destruct (nth_error tl k) as [y|] eqn:Ek.
  - intros Hx. pose proof (sorted_nth tl Hs k h y x Hkh Ek Eh).
    apply Z.ltb_ge in Hx. apply Z.ltb_ge. lia.
  - exfalso. apply nth_error_None in Ek.
    assert (nth_error tl h = None) by (apply nth_error_None; lia). congruence.
Qed.

Lemma insert_at_first_later j : forall tl k,
  (forall i, (i < k)%nat -> later (j_next j) tl i = false) ->
  later (j_next j) tl k = true ->
  tl_insert j tl = (firstn k tl ++ j :: skipn k tl)%list.
Proof.
  induction tl as [|x r IH]; intros k Hlo Hk.
  - destruct k; reflexivity.
  - simpl. destruct (j_next j <? j_next x) eqn:E.
    + destruct k as [|k]; [reflexivity|].
      specialize (Hlo 0%nat). unfold later in Hlo. simpl in Hlo.
      rewrite E in Hlo. assert (true = false) by (apply Hlo; lia). discriminate.
    + destruct k as [|k].
      * unfold later in Hk. simpl in Hk. congruence.
      * simpl. f_equal. apply IH.
        -- intros i Hi. apply (Hlo (S i)). lia.
        -- exact Hk.
Qed.

Theorem search_is_first_later : search_is_first_later_statement.
Proof.
  intros j tl Hs. unfold tl_insert_at, tl_search.
  change (fun i => match nth_error tl i with Some x => j_next j <? j_next x | None => true end)
    with (later (j_next j) tl).
  destruct (bsearch_spec (later (j_next j) tl) (later_mono _ _ Hs)
              (S (length tl)) 0%nat (length tl)) as [H1 H2]; try lia.
  - unfold later. assert (E : nth_error tl (length tl) = None) by (apply nth_error_None; lia).
    rewrite E. reflexivity.
  - symmetry. apply insert_at_first_later; auto.
Qed.

(** * Closed counterexamples (defects of the implementation, visible in the model) *)

(** D26: a recurring job removed while its callback runs re-schedules itself
    when the callback returns, and fires again after the removal. *)
Lemma removed_inflight_recurring_counterexample :
  let ops := [CAdd "j" 1000 true 0; CTick 1000; CRem "j"; CDone "j" 1001 2000; CTick 2000] in
  rem_found (run (firstn 2 ops) (cron_init 10)) "j" = false /\
  map f_now (fires_of "j" (run ops (cron_init 10))) = [2000; 1000].
Proof. vm_compute. split; reflexivity. Qed.

(** Same root cause: the re-scheduling of the returning recurring job replaces
    a job of the same id added meanwhile. *)
Lemma readd_inflight_lost_counterexample :
  let ops := [CAdd "j" 1000 true 0; CTick 1000; CAdd "j" 9000 false 1001; CDone "j" 1002 2000] in
  c_tl (run ops (cron_init 10)) = [mkJob "j" 2000 true].
Proof. vm_compute. reflexivity. Qed.

(** D38: removing the head leaves the timer stopped after its (now useless)
    expiry: the remaining job is pending, nothing is suspended, no timer. *)
Lemma rem_head_stalls_counterexample :
  let ops := [CAdd "a" 200 false 0; CAdd "b" 400 false 0; CRem "a"; CTick 200] in
  timer_driven (cron_init 10) ops /\
  stalled (run ops (cron_init 10)) = true /\
  c_tl (run ops (cron_init 10)) = [mkJob "b" 400 false].
Proof. vm_compute. repeat split; reflexivity. Qed.

(** D49: an Add while suspended re-arms the timer, and the loop's tick branch
    does not look at the suspended flag: a job fires while suspended. *)
Lemma add_while_suspended_fires_counterexample :
  let ops := [CAdd "a" 100 false 0; CSuspend; CAdd "b" 5000 false 50; CTick 100] in
  timer_driven (cron_init 10) ops /\
  c_susp (run ops (cron_init 10)) = true /\
  map f_id (c_fires (run ops (cron_init 10))) = ["a"].
Proof. vm_compute. repeat split; reflexivity. Qed.

(** schedule removes the job with the same id before the limit check: an Add
    of an id that is pending, refused at capacity, deletes the pending job. *)
Lemma add_at_capacity_drops_job_counterexample :
  let ops := [CAdd "a" 100 true 0; CTick 100; CAdd "b" 200 false 101; CDone "a" 102 300] in
  let c := run ops (cron_init 1) in
  map j_id (c_tl c) = ["b"; "a"] /\
  add_ok c "b" 250 false 103 = false /\
  map j_id (c_tl (step c (CAdd "b" 250 false 103))) = ["a"].
Proof. vm_compute. repeat split; reflexivity. Qed.

(** * The hypotheses of the conditional theorems are satisfiable *)

Example removed_pending_hyps_sat :
  exists ops1 ops2 limit id,
    In id (map j_id (c_tl (run ops1 (cron_init limit)))) /\
    inflight_free id (run ops1 (cron_init limit)) /\ no_add id ops2 /\ ops2 <> [].
Proof.
  exists [CAdd "j" 1000 false 0], [CTick 1000], 10, "j".
  split; [|split; [|split]].
  - vm_compute. auto.
  - vm_compute. auto.
  - intros i next r now [H|[]]. discriminate.
  - discriminate.
Qed.

Example suspended_quiet_hyps_sat :
  exists c ops, c_tl c <> [] /\ Forall quiet_op ops /\
                timer_driven (step c CSuspend) ops /\ ops <> [].
Proof.
  exists (run [CAdd "a" 100 false 0; CAdd "b" 200 false 0] (cron_init 10)),
         [CRem "a"; CSuspend].
  split; [|split; [|split]].
  - vm_compute. discriminate.
  - repeat constructor.
  - vm_compute. auto.
  - discriminate.
Qed.

Example resume_rearms_hyps_sat :
  exists c j r, c_susp c = true /\ c_tl c = j :: r.
Proof.
  exists (run [CAdd "a" 100 false 0; CSuspend] (cron_init 10)), (mkJob "a" 100 false), [].
  vm_compute. split; reflexivity.
Qed.

Example timer_armed_hyps_sat :
  exists ops limit j r, Forall no_rem_susp ops /\ Z.of_nat (length ops) <= limit /\
                        c_tl (run ops (cron_init limit)) = j :: r.
Proof.
  exists [CAdd "a" 100 true 0; CAdd "b" 50 false 1; CTick 50; CDone "b" 60 0; CPause 70],
         10, (mkJob "a" 100 true), [].
  split; [|split].
  - repeat constructor.
  - vm_compute. discriminate.
  - vm_compute. reflexivity.
Qed.

Example search_hyps_sat :
  exists tl, tl <> [] /\ StronglySorted next_le tl.
Proof.
  exists [mkJob "a" 1 false; mkJob "b" 1 true; mkJob "c" 5 false].
  split; [discriminate|].
  repeat constructor; unfold next_le; simpl; lia.
Qed.
