(** C13 support, part 2: ParseQuery is total. *)
From Coq Require Import Lia.
From Verif Require Import Json Outcome Match Query MatchLemmas1 TotalSpec TotalMatch.

Definition anyr {A} (o : outcome A) : Prop := okr (fun _ => True) o.

Lemma anyr_omap {A B} (g : A -> B) (o : outcome A) : anyr o -> anyr (omap g o).
Proof. destruct o; cbn; auto. Qed.

Section P.
  Variable sem : string -> option code.
  Variable f : nat.
  Hypothesis IH : forall q, (jsize q < f)%nat -> anyr (parse_query sem f q).

  Lemma subs_ok : forall xs, (forall x, In x xs -> (jsize x < f)%nat) ->
    anyr ((fix go (l : list json) : outcome (list query) :=
             match l with
             | [] => Ok []
             | x :: r => do q <- parse_query sem f x; do qs <- go r; Ok (q :: qs)
             end) xs).
  Proof.
    induction xs as [|x r IHxs]; intros H; [exact I|].
    eapply okr_bind; [apply IH; apply H; left; reflexivity|]. intros q _.
    eapply okr_bind; [apply IHxs; intros y Hy; apply H; right; exact Hy|]. intros qs _. exact I.
  Qed.
End P.

Lemma parse_query_ok sem : forall f q, (jsize q < f)%nat -> anyr (parse_query sem f q).
Proof.
  induction f as [|f IH]; intros q Hq; [lia|].
  cbn [parse_query]. destruct q as [| | | | |m]; try exact I.
  destruct m as [|kv0 m0] eqn:Em; [exact I|]. rewrite <- Em in *. clear Em kv0 m0.
  assert (Hsub : forall k xs, alookup k m = Some (JArr xs) -> forall x, In x xs -> (jsize x < f)%nat).
  { intros k xs Hl x Hx. apply alookup_In in Hl. pose proof (jsize_obj_In (k, JArr xs) m Hl) as H1.
    pose proof (jsize_arr_In x xs Hx) as H2. cbn [snd] in H1. lia. }
  (* code *)
  destruct (alookup "code" m) as [c|] eqn:Ec.
  - destruct (code_text c) as [js|] eqn:Et.
    + destruct (alookup "libraries" m) as [[| | | |[|l0 ls]|]|];
        try exact I; destruct (sem js) as [[]|]; exact I.
    + (* fall through *)
      destruct (alookup "pattern" m) as [[| | | | |p]|] eqn:Ep;
        try (destruct (locations_of m); try exact I);
        (destruct (alookup "and" m) as [[| | | |xs|]|] eqn:Ea;
         try (destruct (forallb _ xs) eqn:Efa; [apply anyr_omap; apply subs_ok; [exact IH|eapply Hsub; eauto]|]));
        (destruct (alookup "or" m) as [[| | | |ys|]|] eqn:Eo;
         try (destruct (forallb _ ys) eqn:Efo;
              [pose proof (subs_ok sem f IH ys (Hsub "or" ys Eo)) as Hs;
               unfold anyr in Hs; match type of Hs with okr _ ?o => destruct o as [qs| | |] eqn:Eq end;
               try exact I; try contradiction;
               try (destruct (short_circuit_of m); try exact I)|]));
        (destruct (alookup "not" m) as [[| | | | |na]|] eqn:En; try exact I;
         apply anyr_omap; apply IH; apply alookup_In in En;
         pose proof (jsize_obj_In ("not", JObj na) m En) as H1; cbn [snd] in H1; lia).
  - destruct (alookup "pattern" m) as [[| | | | |p]|] eqn:Ep;
        try (destruct (locations_of m); try exact I);
        (destruct (alookup "and" m) as [[| | | |xs|]|] eqn:Ea;
         try (destruct (forallb _ xs) eqn:Efa; [apply anyr_omap; apply subs_ok; [exact IH|eapply Hsub; eauto]|]));
        (destruct (alookup "or" m) as [[| | | |ys|]|] eqn:Eo;
         try (destruct (forallb _ ys) eqn:Efo;
              [pose proof (subs_ok sem f IH ys (Hsub "or" ys Eo)) as Hs;
               unfold anyr in Hs; match type of Hs with okr _ ?o => destruct o as [qs| | |] eqn:Eq end;
               try exact I; try contradiction;
               try (destruct (short_circuit_of m); try exact I)|]));
        (destruct (alookup "not" m) as [[| | | | |na]|] eqn:En; try exact I;
         apply anyr_omap; apply IH; apply alookup_In in En;
         pose proof (jsize_obj_In ("not", JObj na) m En) as H1; cbn [snd] in H1; lia).
Qed.

Theorem parse_query_total : parse_query_total_statement.
Proof.
  intros sem q. apply (okr_answers (fun _ => True)). apply parse_query_ok. unfold parse_fuel. lia.
Qed.
