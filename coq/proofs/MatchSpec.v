(** Statement of the C05 main theorem (to be proved in MatchProofs.v). *)
From Verif Require Import Json Outcome Match.

Definition extends (b0 b : bindings) : Prop :=
  forall x v, alookup x b0 = Some v -> alookup x b = Some v.

Definition dom_ok (p : json) (b0 b : bindings) : Prop :=
  forall x, alookup x b <> None <-> (alookup x b0 <> None \/ In x (pvars p)).

(** [b] is a canonical (sorted) assignment that extends [b0], binds exactly the
    variables of [p] in addition, and under which [p] lays over [d]. *)
Definition Ext (p d : json) (b0 b : bindings) : Prop :=
  sorted_keys (map fst b) = true /\ extends b0 b /\ dom_ok p b0 b /\
  lay (lay_fuel p) b p d = true.

Definition fragment (p d : json) (b0 : bindings) : bool :=
  wf_json p && wf_json d && sorted_keys (map fst b0) &&
  forallb (fun kv => wf_json (snd kv)) b0 &&
  wfp p && ground d && ground_bs b0 && negb (struct_risk p d b0).

Definition match_exact_statement : Prop :=
  forall p d b0, fragment p d b0 = true ->
  exists out, core_match p d b0 = Ok out /\ forall b, In b out <-> Ext p d b0 b.
