(** C14 - proofs about the watchdog protocol (statements in WatchdogSpec.v).

    Method: (1) a progress measure that every step of every variant
    decreases, proved by case analysis for ALL configurations; (2) the set of
    reachable configurations of one family is finite, [reachable_all] lists
    it, the list is proved to contain the initial configuration and to be
    closed under [next] (a computation checked by the kernel), hence contains
    every reachable configuration (induction over [reachable]); a property of
    all reachable configurations, over all schedules, is then a [forallb]
    over that list.  The capacity of watchdogCleanup matters only through
    "is it 0", so every statement holds for every capacity. *)
From Coq Require Import Lia.
From Verif Require Import Json Watchdog WatchdogSpec.

(** ** Boolean equality is equality *)

Lemma errkind_eqb_eq a b : errkind_eqb a b = true -> a = b.
Proof. destruct a, b; simpl; congruence. Qed.
Lemma aresult_eqb_eq a b : aresult_eqb a b = true -> a = b.
Proof. destruct a, b; simpl; try congruence. intro H. f_equal. now apply errkind_eqb_eq. Qed.
Lemma pending_eqb_eq a b : pending_eqb a b = true -> a = b.
Proof. destruct a, b; simpl; try congruence. intro H. f_equal. now apply aresult_eqb_eq. Qed.
Lemma crash_eqb_eq a b : crash_eqb a b = true -> a = b.
Proof. destruct a, b; simpl; congruence. Qed.
Lemma rpc_eqb_eq a b : rpc_eqb a b = true -> a = b.
Proof.
  destruct a, b; simpl; try congruence; intro H; f_equal;
    auto using pending_eqb_eq, aresult_eqb_eq, crash_eqb_eq.
Qed.
Lemma wpc_eqb_eq a b : wpc_eqb a b = true -> a = b.
Proof. destruct a, b; simpl; try congruence. intro H. f_equal. now apply crash_eqb_eq. Qed.
Lemma family_eqb_eq a b : family_eqb a b = true -> a = b.
Proof. destruct a, b; simpl; congruence. Qed.
Lemma chan_eqb_eq a b : chan_eqb a b = true -> a = b.
Proof.
  destruct a as [x y], b as [x' y']; unfold chan_eqb; simpl. intro H.
  apply andb_prop in H. destruct H as [H1 H2].
  apply Bool.eqb_prop in H1. apply Bool.eqb_prop in H2. congruence.
Qed.
Lemma config_eqb_eq a b : config_eqb a b = true -> a = b.
Proof.
  destruct a, b; unfold config_eqb; simpl. intro H.
  repeat (apply andb_prop in H; let H' := fresh in destruct H as [H H']).
  f_equal; auto using family_eqb_eq, rpc_eqb_eq, wpc_eqb_eq, chan_eqb_eq, Bool.eqb_prop.
Qed.

Lemma cmem_In c l : cmem c l = true -> In c l.
Proof.
  unfold cmem. intro H. apply existsb_exists in H. destruct H as [x [Hin He]].
  apply config_eqb_eq in He. now subst.
Qed.

(** ** The capacity matters only through "is it 0" *)

Definition norm (P : params) : params :=
  {| cap := match cap P with O => 0%nat | S _ => 1%nat end; named := named P; watched := watched P |}.

Lemma next_norm : forall P c, next P c = next (norm P) c.
Proof. intros [[|[|n]] nm w] c; reflexivity. Qed.

Lemma reachable_norm P f c : reachable P f c -> reachable (norm P) f c.
Proof.
  induction 1 as [|c c' _ IH Hs]; [constructor|].
  eapply reach_step; [exact IH|]. unfold step in *. now rewrite <- next_norm.
Qed.

(** ** Exploration is complete *)

Lemma closed_in P L f c :
  closed_under_next P L = true -> cmem (init f) L = true -> reachable P f c -> In c L.
Proof.
  intros Hcl Hi. induction 1 as [|c c' _ IH Hs]; [now apply cmem_In|].
  unfold closed_under_next in Hcl. rewrite forallb_forall in Hcl.
  specialize (Hcl _ IH). rewrite forallb_forall in Hcl. apply cmem_In. now apply Hcl.
Qed.

Lemma explored_closed P f :
  closed_under_next (norm P) (reachable_all (norm P) f) = true /\
  cmem (init f) (reachable_all (norm P) f) = true.
Proof. destruct P as [[|n] [|] [|]], f; split; vm_compute; reflexivity. Qed.

(** a decidable property of all reachable configurations, all schedules *)
Lemma reach_check P f (Q : config -> bool) :
  forallb Q (reachable_all (norm P) f) = true -> forall c, reachable P f c -> Q c = true.
Proof.
  intros HQ c Hr. apply reachable_norm in Hr.
  destruct (explored_closed P f) as [Hcl Hi].
  rewrite forallb_forall in HQ. apply HQ. eapply closed_in; eauto.
Qed.

(** ** Progress *)

Lemma step_measure : forall P c c', step P c c' -> (measure c' < measure c)%nat.
Proof.
  intros P [f r w i k t] c' H. unfold step, next in H.
  destruct (crashed _) eqn:Hc; [contradiction|].
  rewrite !in_app_iff in H. destruct H as [H|[H|H]].
  - unfold runner_steps, leave, finish in H; simpl in H.
    destruct r; simpl in H;
    repeat match type of H with
           | context [if ?b then _ else _] => destruct b eqn:?; simpl in H
           | context [match ?x with _ => _ end] => destruct x eqn:?; simpl in H
           | In _ (_ ++ _) => rewrite in_app_iff in H
           | _ \/ _ => destruct H as [H|H]
           | False => contradiction
           end; subst; unfold measure; simpl; try lia.
  - unfold watchdog_steps in H; simpl in H.
    destruct w; simpl in H;
    repeat match type of H with
           | context [if ?b then _ else _] => destruct b eqn:?; simpl in H
           | In _ (_ ++ _) => rewrite in_app_iff in H
           | _ \/ _ => destruct H as [H|H]
           | False => contradiction
           end; subst; unfold measure; simpl; try lia.
  - unfold timer_steps in H; simpl in H.
    destruct w; simpl in H; try contradiction.
    destruct (t || _) eqn:E; simpl in H; [contradiction|].
    destruct H as [H|[]]; subst. apply Bool.orb_false_iff in E. destruct E as [E _]. subst.
    unfold measure; simpl; lia.
Qed.

Lemma run_measure P c tr d : run P c tr d -> (length tr + measure d <= measure c)%nat.
Proof.
  induction 1 as [|c c' tr d Hs _ IH]; simpl; [lia|].
  apply step_measure in Hs. lia.
Qed.

Lemma maximal_run_exists P : forall c, exists tr d, maximal_run P c tr d.
Proof.
  intro c. remember (measure c) as n eqn:Hn. revert c Hn.
  induction n as [n IH] using lt_wf_ind. intros c Hn.
  destruct (next P c) as [|c' l] eqn:E.
  - exists [], c. split; [constructor|exact E].
  - assert (Hs : step P c c') by (unfold step; rewrite E; now left).
    pose proof (step_measure _ _ _ Hs) as Hm.
    destruct (IH (measure c') ltac:(lia) c' eq_refl) as [tr [d [Hr Ht]]].
    exists (c' :: tr), d. split; [econstructor; eauto|exact Ht].
Qed.

Lemma run_reachable P f c tr d : reachable P f c -> run P c tr d -> reachable P f d.
Proof.
  intros Hc Hr. induction Hr as [|c c' tr d Hs _ IH]; [exact Hc|].
  apply IH. eapply reach_step; eauto.
Qed.

Lemma maximal_from_init P f tr d :
  maximal_run P (init f) tr d -> reachable P f d /\ next P d = [].
Proof.
  intros [Hr Ht]. split; [|exact Ht]. eapply run_reachable; [constructor|exact Hr].
Qed.

(** ** The repaired protocol *)

Definition is_nil {A} (l : list A) : bool := match l with [] => true | _ => false end.

Theorem caller_always_returns : caller_always_returns_statement.
Proof.
  split; [exact step_measure|]. split; [exact run_measure|]. split; [exact maximal_run_exists|].
  intros f Hf.
  assert (Hterm : forall c, reachable (repaired true) f c -> terminal (repaired true) c ->
                            returned c /\ c_w c = WDone).
  { intros c Hr Ht.
    pose proof (reach_check (repaired true) f
      (fun c => if is_nil (next (repaired true) c)
                then match c_r c with RReturned _ => true | _ => false end &&
                     match c_w c with WDone => true | _ => false end
                else true)) as H.
    assert (Hall : forallb (fun c => if is_nil (next (repaired true) c)
                then match c_r c with RReturned _ => true | _ => false end &&
                     match c_w c with WDone => true | _ => false end
                else true) (reachable_all (norm (repaired true)) f) = true).
    { destruct f; try (vm_compute; reflexivity); now elim Hf. }
    specialize (H Hall c Hr); cbv beta in H. unfold terminal in Ht. rewrite Ht in H. simpl in H.
    apply andb_prop in H. destruct H as [H1 H2].
    split.
    - unfold returned. destruct (c_r c); try discriminate. eexists; reflexivity.
    - destruct (c_w c); try discriminate. reflexivity. }
  split; [|split; [exact Hterm|]].
  - intros c Hr.
    pose proof (reach_check (repaired true) f
      (fun c => match c_r c with
                | RStart | RDeferSend _ | RDeferClose _ | RDeferRecover _ =>
                    negb (is_nil (runner_steps (repaired true) c))
                | _ => true
                end)) as H.
    assert (Hall : forallb (fun c => match c_r c with
                | RStart | RDeferSend _ | RDeferClose _ | RDeferRecover _ =>
                    negb (is_nil (runner_steps (repaired true) c))
                | _ => true
                end) (reachable_all (norm (repaired true)) f) = true).
    { destruct f; try (vm_compute; reflexivity); now elim Hf. }
    specialize (H Hall c Hr); cbv beta in H.
    destruct (c_r c); auto; intro E; rewrite E in H; discriminate.
  - intros tr d Hm. apply maximal_from_init in Hm. destruct Hm as [Hr Ht]. now apply Hterm.
Qed.

(** what a returned runner may hold, as a check on configurations *)
Definition ret_in (allowed : list aresult) (c : config) : bool :=
  match c_r c with
  | RReturned a => existsb (aresult_eqb a) allowed
  | _ => true
  end.

Lemma ret_in_sound allowed c a :
  ret_in allowed c = true -> c_r c = RReturned a -> In a allowed.
Proof.
  unfold ret_in. intros H E. rewrite E in H. apply existsb_exists in H.
  destruct H as [x [Hin He]]. apply aresult_eqb_eq in He. now subst.
Qed.

(** every reachable return of family f under P is in [allowed] *)
Lemma returns_only P f allowed :
  forallb (ret_in allowed) (reachable_all (norm P) f) = true ->
  forall c a, reachable P f c -> c_r c = RReturned a -> In a allowed.
Proof.
  intros H c a Hr E. eapply ret_in_sound; [|exact E]. eapply reach_check; eauto.
Qed.

(** at a terminal configuration the runner holds exactly this *)
Definition term_is (P : params) (r : rpc) (w : wpc) (c : config) : bool :=
  if is_nil (next P c) then rpc_eqb (c_r c) r && wpc_eqb (c_w c) w else true.

Lemma term_is_sound P r w c :
  term_is P r w c = true -> next P c = [] -> c_r c = r /\ c_w c = w.
Proof.
  unfold term_is. intros H E. rewrite E in H. simpl in H. apply andb_prop in H.
  destruct H. split; [now apply rpc_eqb_eq|now apply wpc_eqb_eq].
Qed.

Theorem timeout_is_error : timeout_is_error_statement.
Proof.
  split; [|split; [|split]].
  - intros s r Hs [c [a [Hr [E Hc]]]].
    assert (In a [AErr Timeout]) as Hin.
    { refine (returns_only (repaired true) (family_of s) [AErr Timeout] _ c a Hr E).
      destruct Hs as [Hs|Hs]; rewrite Hs; vm_compute; reflexivity. }
    destruct Hin as [<-|[]]. now subst.
  - intros v r [c [a [Hr [E Hc]]]]. simpl in Hr.
    assert (In a [AOk; AErr Timeout]) as Hin.
    { refine (returns_only (repaired true) FEdge [AOk; AErr Timeout] _ c a Hr E). vm_compute; reflexivity. }
    destruct Hin as [<-|[<-|[]]]; subst; simpl; auto.
  - intros s Hs tr d Hm. apply maximal_from_init in Hm. destruct Hm as [Hr Ht].
    eapply (term_is_sound (repaired true) _ WDone); [|exact Ht].
    eapply reach_check; [|exact Hr].
    destruct Hs as [Hs|Hs]; rewrite Hs; vm_compute; reflexivity.
  - intros P f c Hr E.
    pose proof (reach_check P f
      (fun c => match c_r c with RReturned (AErr Timeout) => c_timer c | _ => true end)) as H.
    assert (Hall : forallb (fun c => match c_r c with RReturned (AErr Timeout) => c_timer c | _ => true end)
                           (reachable_all (norm P) f) = true).
    { destruct P as [[|n] [|] [|]], f; vm_compute; reflexivity. }
    specialize (H Hall c Hr); cbv beta in H. now rewrite E in H.
Qed.

Theorem fast_script_unaffected : fast_script_unaffected_statement.
Proof.
  intro P. split; [|split; [|split]].
  - intros v r [c [a [Hr [E Hc]]]]. simpl in Hr.
    assert (In a [AOk]) as Hin.
    { refine (returns_only P FValue [AOk] _ c a Hr E). destruct P as [[|n] [|] [|]]; vm_compute; reflexivity. }
    destruct Hin as [<-|[]]. now subst.
  - intros r [c [a [Hr [E Hc]]]]. simpl in Hr.
    assert (In a [AErr Thrown]) as Hin.
    { refine (returns_only P FThrow [AErr Thrown] _ c a Hr E). destruct P as [[|n] [|] [|]]; vm_compute; reflexivity. }
    destruct Hin as [<-|[]]. now subst.
  - intros r [c [a [Hr [E Hc]]]]. simpl in Hr.
    assert (In a [AErr Syntax]) as Hin.
    { refine (returns_only P FSyntax [AErr Syntax] _ c a Hr E). destruct P as [[|n] [|] [|]]; vm_compute; reflexivity. }
    destruct Hin as [<-|[]]. now subst.
  - intros f c Hf Hr.
    pose proof (reach_check P f
      (fun c => match c_r c with
                | RDeferSend PHalt | RDeferClose PHalt | RDeferRecover PHalt => false
                | _ => true
                end)) as H.
    assert (Hall : forallb (fun c => match c_r c with
                | RDeferSend PHalt | RDeferClose PHalt | RDeferRecover PHalt => false
                | _ => true
                end) (reachable_all (norm P) f) = true).
    { destruct Hf as [->|[->| ->]]; destruct P as [[|n] [|] [|]]; vm_compute; reflexivity. }
    specialize (H Hall c Hr); cbv beta in H.
    repeat split; intro E; rewrite E in H; discriminate.
Qed.

Theorem no_panic : no_panic_statement.
Proof.
  intros P f c Hr.
  pose proof (reach_check P f (fun c => negb (crashed c))) as H.
  assert (Hall : forallb (fun c => negb (crashed c)) (reachable_all (norm P) f) = true).
  { destruct P as [[|n] [|] [|]], f; vm_compute; reflexivity. }
  specialize (H Hall c Hr); cbv beta in H. now apply Bool.negb_true_iff in H.
Qed.

Theorem no_send_on_closed_channel : no_send_on_closed_channel_statement.
Proof.
  intros P f c Hr. pose proof (no_panic P f c Hr) as H. unfold crashed in H.
  split; intro E; rewrite E in H; try discriminate. destruct (c_r c); discriminate.
Qed.

Theorem no_double_close : no_double_close_statement.
Proof.
  intros P f c Hr. pose proof (no_panic P f c Hr) as H. unfold crashed in H.
  split; intro E; rewrite E in H; try discriminate. destruct (c_r c); discriminate.
Qed.

(** ** Timeout selection and the unwatched run *)

Ltac zcases :=
  repeat match goal with
         | |- context [?a =? ?b] => destruct (Z.eqb_spec a b)
         | |- context [?a <=? ?b] => destruct (Z.leb_spec a b)
         | H : context [?a =? ?b] |- _ => destruct (Z.eqb_spec a b)
         | H : context [?a <=? ?b] |- _ => destruct (Z.leb_spec a b)
         end.

Theorem timeout_selection_ok : timeout_selection_statement.
Proof.
  unfold timeout_selection_statement, timeout_selection.
  split; [intros; reflexivity|].
  split; [intros; simpl; zcases; try lia; reflexivity|].
  split; [intros; simpl; zcases; try lia; reflexivity|].
  split; [intros; simpl; zcases; try lia; reflexivity|].
  split; [intros; simpl; zcases; try lia; reflexivity|].
  split.
  - intros h c d [->| ->] Hd; [|destruct h]; simpl; zcases; try lia; reflexivity.
  - intros o h c d t H.
    destruct o; [|simpl in H; discriminate].
    split; [reflexivity|].
    destruct h; simpl in H; zcases; try discriminate; inversion H; subst; lia.
Qed.

Theorem disabled_timeout_runs_unwatched : disabled_timeout_runs_unwatched_statement.
Proof.
  intros cap_ named_ o h ctl dflt Hsel. rewrite Hsel. cbv zeta.
  set (P := params_of cap_ named_ None).
  assert (Hall : forall f (Q : config -> bool),
             (forall cp nm, forallb Q (reachable_all (norm {| cap := cp; named := nm; watched := false |}) f) = true) ->
             forall c, reachable P f c -> Q c = true).
  { intros f Q HQ c Hr. eapply reach_check; [|exact Hr]. apply HQ. }
  assert (Hret : forall f allowed,
             (forall cp nm, forallb (ret_in allowed)
                (reachable_all (norm {| cap := cp; named := nm; watched := false |}) f) = true) ->
             forall c a, reachable P f c -> c_r c = RReturned a -> In a allowed).
  { intros f allowed HQ c a Hr E. eapply ret_in_sound; [|exact E]. eapply Hall; eauto. }
  split; [reflexivity|]. split; [|repeat split].
  - intros f c Hr.
    pose proof (Hall f (fun c => wpc_eqb (c_w c) WIdle && chan_eqb (c_intr c) chan0 && chan_eqb (c_cln c) chan0
                                 && negb (c_timer c) && negb (crashed c))) as H.
    assert (H' : forall cp nm, forallb (fun c => wpc_eqb (c_w c) WIdle && chan_eqb (c_intr c) chan0 && chan_eqb (c_cln c) chan0
                                 && negb (c_timer c) && negb (crashed c))
                  (reachable_all (norm {| cap := cp; named := nm; watched := false |}) f) = true).
    { intros [|n] [|]; destruct f; vm_compute; reflexivity. }
    specialize (H H' c Hr); cbv beta in H.
    repeat (apply andb_prop in H; let H'' := fresh in destruct H as [H H'']).
    repeat split; auto using wpc_eqb_eq, chan_eqb_eq;
      match goal with Hx : negb _ = true |- _ => now apply Bool.negb_true_iff in Hx end.
  - intros v r [c [a [Hr [E Hc]]]]. simpl in Hr.
    assert (In a [AOk]) as Hin.
    { refine (Hret FValue [AOk] _ c a Hr E). intros [|n] [|]; vm_compute; reflexivity. }
    destruct Hin as [<-|[]]. now subst.
  - intros v r [c [a [Hr [E Hc]]]]. simpl in Hr.
    assert (In a [AOk]) as Hin.
    { refine (Hret FSlow [AOk] _ c a Hr E). intros [|n] [|]; vm_compute; reflexivity. }
    destruct Hin as [<-|[]]. now subst.
  - intros v r [c [a [Hr [E Hc]]]]. simpl in Hr.
    assert (In a [AOk]) as Hin.
    { refine (Hret FEdge [AOk] _ c a Hr E). intros [|n] [|]; vm_compute; reflexivity. }
    destruct Hin as [<-|[]]. now subst.
  - intros r [c [a [Hr [E Hc]]]]. simpl in Hr.
    assert (In a [AErr Thrown]) as Hin.
    { refine (Hret FThrow [AErr Thrown] _ c a Hr E). intros [|n] [|]; vm_compute; reflexivity. }
    destruct Hin as [<-|[]]. now subst.
  - intros r [c [a [Hr [E Hc]]]]. simpl in Hr.
    assert (In a [AErr Syntax]) as Hin.
    { refine (Hret FSyntax [AErr Syntax] _ c a Hr E). intros [|n] [|]; vm_compute; reflexivity. }
    destruct Hin as [<-|[]]. now subst.
  - apply maximal_from_init in H. destruct H as [Hr Ht].
    eapply (term_is_sound P _ WIdle); [|exact Ht].
    eapply Hall; [|exact Hr].
    intros cp nm. unfold P, params_of. destruct cap_ as [|k], cp as [|n], nm, named_; vm_compute; reflexivity.
  - intros r [c [a [Hr [E Hc]]]]. simpl in Hr.
    assert (In a []) as Hin.
    { refine (Hret FLoopPolls [] _ c a Hr E). intros [|n] [|]; vm_compute; reflexivity. }
    destruct Hin.
  - intros r [c [a [Hr [E Hc]]]]. simpl in Hr.
    assert (In a []) as Hin.
    { refine (Hret FLoopNoPoll [] _ c a Hr E). intros [|n] [|]; vm_compute; reflexivity. }
    destruct Hin.
Qed.

(** ** The code as it is: D19 *)

(** a reachable configuration given by an explicit schedule *)
Fixpoint path_ok (P : params) (c : config) (l : list config) : bool :=
  match l with
  | [] => true
  | c' :: r => cmem c' (next P c) && path_ok P c' r
  end.
Fixpoint path_end (c : config) (l : list config) : config :=
  match l with [] => c | c' :: r => path_end c' r end.

Lemma reachable_path_from P f l : forall c0,
  reachable P f c0 -> path_ok P c0 l = true -> reachable P f (path_end c0 l).
Proof.
  induction l as [|c1 r IH]; intros c0 H0 Hok; simpl in *; [exact H0|].
  apply andb_prop in Hok. destruct Hok as [H1 H2].
  apply IH; [|exact H2]. eapply reach_step; [exact H0|]. now apply cmem_In.
Qed.

Lemma reachable_path P f l c :
  path_ok P (init f) l = true -> path_end (init f) l = c -> reachable P f c.
Proof. intros H <-. apply reachable_path_from; [constructor|exact H]. Qed.

Definition mk f r w ib ic kb kc t : config :=
  {| c_fam := f; c_r := r; c_w := w; c_intr := {| buf := ib; closed := ic |};
     c_cln := {| buf := kb; closed := kc |}; c_timer := t |}.

Theorem timeout_deadlocks_counterexample : timeout_deadlocks_counterexample_statement.
Proof.
  exists (mk FLoopPolls (RDeferSend PHalt) WDone false true false false true).
  split; [|repeat split].
  eapply (reachable_path (as_is true) FLoopPolls
    [ mk FLoopPolls RRun WSelect false false false false false;     (* go watchdog; runtime.Run *)
      mk FLoopPolls RRun WSelect false false false false true;      (* the timer fires *)
      mk FLoopPolls RRun WSendIntr false false false false true;    (* select takes the timer branch *)
      mk FLoopPolls RRun WCloseIntr true false false false true;    (* Interrupt <- func(){panic(Halt)} *)
      mk FLoopPolls (RDeferSend PHalt) WCloseIntr false false false false true;  (* poll: panic(Halt) *)
      mk FLoopPolls (RDeferSend PHalt) WDone false true false false true ]);     (* close(Interrupt); exit *)
    vm_compute; reflexivity.
Qed.

Theorem as_is_every_timeout_deadlocks : as_is_every_timeout_deadlocks_statement.
Proof.
  split.
  - intros f Hf tr d Hm. apply maximal_from_init in Hm. destruct Hm as [Hr Ht].
    eapply (term_is_sound (as_is true)); [|exact Ht].
    eapply reach_check; [|exact Hr].
    destruct Hf as [->| ->]; vm_compute; reflexivity.
  - intros f c Hr.
    pose proof (reach_check (as_is true) f
      (fun c => match c_r c with RDeferRecover PHalt => false | _ => true end)) as H.
    assert (Hall : forallb (fun c => match c_r c with RDeferRecover PHalt => false | _ => true end)
                           (reachable_all (norm (as_is true)) f) = true)
      by (destruct f; vm_compute; reflexivity).
    specialize (H Hall c Hr); cbv beta in H. intro E. rewrite E in H. discriminate.
Qed.

Theorem fast_script_race_deadlock_counterexample : fast_script_race_deadlock_counterexample_statement.
Proof.
  exists (mk FValue (RDeferSend (PRet AOk)) WDone true true false false true).
  split; [|repeat split].
  eapply (reachable_path (as_is true) FValue
    [ mk FValue RRun WSelect false false false false false;
      mk FValue (RDeferSend (PRet AOk)) WSelect false false false false false;   (* the script is over, in time *)
      mk FValue (RDeferSend (PRet AOk)) WSelect false false false false true;    (* the timer fires *)
      mk FValue (RDeferSend (PRet AOk)) WSendIntr false false false false true;  (* select takes the timer branch *)
      mk FValue (RDeferSend (PRet AOk)) WCloseIntr true false false false true;
      mk FValue (RDeferSend (PRet AOk)) WDone true true false false true ]);
    vm_compute; reflexivity.
Qed.

Theorem halt_returns_nil_nil_counterexample : halt_returns_nil_nil_counterexample_statement.
Proof.
  split.
  - exists (mk FLoopPolls (RReturned ANilNil) WCloseIntr false false true true true), ANilNil.
    split; [|split; reflexivity].
    eapply (reachable_path (buffer_only true) FLoopPolls
      [ mk FLoopPolls RRun WSelect false false false false false;
        mk FLoopPolls RRun WSelect false false false false true;
        mk FLoopPolls RRun WSendIntr false false false false true;
        mk FLoopPolls RRun WCloseIntr true false false false true;
        mk FLoopPolls (RDeferSend PHalt) WCloseIntr false false false false true;
        mk FLoopPolls (RDeferClose PHalt) WCloseIntr false false true false true;   (* buffered send *)
        mk FLoopPolls (RDeferRecover PHalt) WCloseIntr false false true true true;
        mk FLoopPolls (RReturned ANilNil) WCloseIntr false false true true true ]);  (* recover: return *)
      vm_compute; reflexivity.
  - intros tr d Hm. apply maximal_from_init in Hm. destruct Hm as [Hr Ht].
    eapply (term_is_sound (buffer_only true) _ WDone); [|exact Ht].
    eapply reach_check; [|exact Hr]. vm_compute; reflexivity.
Qed.

(** ** The never-polling loop: D27 *)

Theorem never_polls_counterexample : never_polls_counterexample_statement.
Proof.
  intros P HP. split.
  - exists (mk FLoopNoPoll RRun WDone true true false false true).
    split; [|repeat split; destruct HP as [->| ->]; reflexivity].
    eapply (reachable_path P FLoopNoPoll
      [ mk FLoopNoPoll RRun WSelect false false false false false;
        mk FLoopNoPoll RRun WSelect false false false false true;
        mk FLoopNoPoll RRun WSendIntr false false false false true;
        mk FLoopNoPoll RRun WCloseIntr true false false false true;
        mk FLoopNoPoll RRun WDone true true false false true ]);
      destruct HP as [->| ->]; vm_compute; reflexivity.
  - intros c Hr [a E].
    assert (In a []) as Hin.
    { refine (returns_only P FLoopNoPoll [] _ c a Hr E). destruct HP as [->| ->]; vm_compute; reflexivity. }
    destruct Hin.
Qed.

(** ** The hypotheses are satisfiable: what the repaired protocol does yield *)

Example slow_script_times_out : forall v, yields (repaired true) (SSlow v) (RErr Timeout).
Proof.
  intro v. exists (mk FSlow (RReturned (AErr Timeout)) WCloseIntr false false true true true), (AErr Timeout).
  split; [|split; reflexivity].
  eapply (reachable_path (repaired true) FSlow
    [ mk FSlow RRun WSelect false false false false false;
      mk FSlow RRun WSelect false false false false true;
      mk FSlow RRun WSendIntr false false false false true;
      mk FSlow RRun WCloseIntr true false false false true;
      mk FSlow (RDeferSend PHalt) WCloseIntr false false false false true;
      mk FSlow (RDeferClose PHalt) WCloseIntr false false true false true;
      mk FSlow (RDeferRecover PHalt) WCloseIntr false false true true true;
      mk FSlow (RReturned (AErr Timeout)) WCloseIntr false false true true true ]);
    vm_compute; reflexivity.
Qed.

Example fast_script_returns_value : forall v, yields (repaired true) (SValue v) (RValue v).
Proof.
  intro v. exists (mk FValue (RReturned AOk) WSelect false false true true false), AOk.
  split; [|split; reflexivity].
  eapply (reachable_path (repaired true) FValue
    [ mk FValue RRun WSelect false false false false false;
      mk FValue (RDeferSend (PRet AOk)) WSelect false false false false false;
      mk FValue (RDeferClose (PRet AOk)) WSelect false false true false false;
      mk FValue (RDeferRecover (PRet AOk)) WSelect false false true true false;
      mk FValue (RReturned AOk) WSelect false false true true false ]);
    vm_compute; reflexivity.
Qed.

Example unwatched_selection : timeout_selection true true (-1) 60000000000 = None /\
                              timeout_selection false true 200000000 60000000000 = None /\
                              timeout_selection true true 0 200000000 = Some 200000000.
Proof. repeat split. Qed.
